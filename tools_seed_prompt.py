# Development helper: builds the prompt given to an independent seeding sub-agent (property text + scratch worktree + a hint which sites to avoid).
# usage: python tools_seed_prompt.py <Cxx[suffix]> <worktree> "<hint>"  (expects /tmp/prop_<Cxx>.txt with title + statement of the property)
import sys
pid, wt, hint = sys.argv[1], sys.argv[2], sys.argv[3]
prop = open('/tmp/prop_%s.txt' % pid[:3]).read()
print(f"""You are working on a scratch git worktree of the Python library instadeepai/jumanji (JAX reinforcement-learning environments) located at {wt}. Work ONLY inside {wt}. Never read or modify /repo or /verif (they are off limits), and do not create other worktrees. There is no network. Python: /venv/bin/python (the library's dependencies are installed there). To run code against the worktree use `cd {wt} && PYTHONPATH={wt} /venv/bin/python ...`; tests: `cd {wt} && /venv/bin/python -m pytest -q -p no:cacheprovider <test paths>` (tests live next to the sources as *_test.py).

Here is a semantic property the library is supposed to satisfy:

--- PROPERTY {pid[:3]} ---
{prop}
--- END ---

Your task: design ONE realistic change to the library's SOURCE code (not to tests, not to docs only) that BREAKS this property, while the library still imports and the EXISTING test-suite still passes (run at least every test file in the package(s) you touch plus any test that exercises the touched code; ideally the tests of jumanji/wrappers*, jumanji/env*, jumanji/specs* and jumanji/testing too if relevant). The change should look like something a developer could plausibly commit (a refactor, an optimisation, a readability clean-up, an off-by-one, a stale variable, swapped arguments, a lost copy ...), NOT sabotage with obviously dead or malicious code. Most importantly it must need something SPECIFIC to manifest — a particular multi-step sequence of operations, an unusual but legal input or configuration (non-square, non-default sizes, several agents, boundary values), a particular interleaving, or two cooperating sites that each look fine alone — rather than something that ordinary default use would expose at once. {hint}

Deliverables, all inside {wt}:
1. the change applied in the worktree (uncommitted);
2. `{wt}/patch.diff` = output of `git diff` restricted to library source files (do NOT include demo.py or patch.diff in the diff);
3. `{wt}/demo.py`: a small stand-alone program that demonstrates the breakage: it must exit with a NON-ZERO status (e.g. failing assert) when run against the changed tree and exit 0 against the original tree. It must not hard-code the worktree path (it will be run as `PYTHONPATH=<some tree> /venv/bin/python demo.py` against both the changed and the pristine tree), should finish in under ~2 minutes, and should print what it observed;
4. verify yourself: (a) demo fails with the change; (b) `git diff -- jumanji > patch.diff; git checkout -- jumanji` then the demo passes on the pristine tree, then re-apply with `git apply patch.diff` (NEVER use `git stash`: the stash is shared with other worktrees of this repository); (c) the existing tests pass with the change.

Final answer (plain text): a 2-4 sentence description of the change, exactly what is needed for it to manifest, which files it touches, and the exact test commands you ran with their results. Do not pad.""")
