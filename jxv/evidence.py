"""evidence/<id>.json writer (schema: /root/.vp/EVIDENCE.schema.json)."""
import json
import os

ROOT = os.path.dirname(os.path.dirname(os.path.abspath(__file__)))

TRUSTED = [
    "jax.make_jaxpr extraction of the real functions (JAX 0.4.35 tracing is faithful; jit/vmap/scan preserve jaxpr semantics; XLA)",
    "Engine J primitive semantics (differentially self-checked against jax.core.eval_jaxpr on every run, not proved)",
    "machine integers treated as mathematical integers constrained to their dtype range on input (no wrap-around modelling)",
    "floats treated as reals (no rounding, NaN or Inf) wherever float arithmetic is in the cone of an obligation",
    "z3 5.1.0 (cvc5 1.0.3 / z3 4.8.12 only for queries z3 leaves unknown)",
    "CPython 3.12 executes the contract predicates and Engine P runs",
]


def _clauses(obligations):
    """clause names (element indices stripped) with the number of discharged / total elements"""
    import re
    out = {}
    for o in obligations:
        if o.get("canary"):
            continue
        c = re.sub(r"\[[^\]]*\]$", "", o["name"].split("/", 1)[-1])
        d = out.setdefault(c, [0, 0])
        d[1] += 1
        d[0] += o["verdict"] == "unsat"
    return {k: f"{v[0]}/{v[1]}" for k, v in sorted(out.items())}


def write(prop, tier, seed, mod, results, obs, canaries, violations, known_hits, undecided, errors, wall, code):
    kf = {id(o) for _, o in known_hits}
    obs = [o for o in obs if id(o) not in kf]  # obligations failing exactly as listed in known_findings.json are reported separately
    n_dis = len([o for o in obs if o["verdict"] == "unsat"])
    backends = {}
    for o in obs:
        if o["verdict"] == "unsat":
            backends[o.get("backend", "?")] = backends.get(o.get("backend", "?"), 0) + 1
    funcs = {}
    for r in results:
        for p in r["problems"]:
            for t in p.get("targets", []):
                funcs[t["function"]] = t
        for o in r["obligations"]:
            for t in o.get("targets", []):
                funcs[t["function"]] = t
    assumptions = sorted({a for r in results for a in r["assumptions"]})
    samples = []
    for o in obs[:: max(1, len(obs) // 8)][:8]:
        samples.append({k: o.get(k) for k in ("name", "verdict", "backend", "time") if k in o})
    bounded = [b for r in results for b in r["bounded"]]
    doc = {
        "property_id": prop, "tier": tier, "seed": seed, "level": getattr(mod, "LEVEL", "proof"),
        "coverage": {
            "obligations": len(obs), "discharged": n_dis,
            "checker_cmd": f"./check {prop} --tier {tier}",
            "trusted_base": TRUSTED + list(getattr(mod, "TRUSTED_EXTRA", [])),
            "by_backend": backends,
            "solver_time_s": round(sum(o.get("time", 0) or 0 for o in obs), 2),
            "max_obligation_s": round(max([o.get("time", 0) or 0 for o in obs] or [0]), 2),
            "functions_under_contract": sorted(funcs.values(), key=lambda t: t["function"]),
            "config_bound": getattr(mod, "CONFIG_BOUND", None),
            "tasks": [{"task": r["task"], "wall_s": r["wall_s"],
                       "obligations": len([o for o in r["obligations"] if not o.get("canary")]),
                       "clauses": _clauses(r["obligations"]),
                       "problems": r["problems"]} for r in results],
            "canaries_refuted": len([c for c in canaries if c["verdict"] == "sat"]), "canaries": len(canaries),
            "bounded": bounded,
            "bounded_note": "bounded stand-ins are never counted in obligations/discharged",
            "samples": samples,
            "known_findings_reproduced": [{"what": k["what"], "obligation": o["name"]} for k, o in known_hits],
            "undecided": [o["name"] for o in undecided],
            "not_verified": getattr(mod, "NOT_VERIFIED", None),
            "exit_code": code,
        },
        "assumptions": assumptions + list(getattr(mod, "ASSUMPTIONS", [])),
        "wall_s": round(wall, 2),
        "violations": len(violations),
    }
    if errors:
        doc["coverage"]["errors"] = [e["title"] + ": " + e["error"] for e in errors][:50]
    os.makedirs(os.path.join(ROOT, "evidence"), exist_ok=True)
    json.dump(doc, open(os.path.join(ROOT, "evidence", prop + ".json"), "w"), indent=1, default=str)
