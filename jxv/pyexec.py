"""Engine P: path-complete symbolic execution of the REAL Python functions of /repo on proxy values.

The real function runs on the real CPython interpreter; values are proxies (`SymArr`: concrete shape/dtype, symbolic
elements; `SymStr`: symbolic string; `SymInt`).  Every `bool()` of a symbolic value forks: `explore(thunk)` re-runs the
thunk with a decision prefix until every feasible path has been enumerated.  `jnp`/`np` calls that receive a proxy are
lifted generically by tracing the REAL jnp function (jax.make_jaxpr) and evaluating the jaxpr with Engine J, so shapes,
dtypes, promotion and the exceptions JAX raises are JAX's own.
"""
import operator

import jax
import jax.numpy as jnp
import numpy as np
import z3

from . import symeval as S


class Abort(Exception):
    pass


class Unsupported(Exception):
    pass


class Engine:
    def __init__(self):
        self.sym = S.Sym()
        self.base = []  # assumptions carried into every path (e.g. the constructor's path condition)
        self.cur = None
        self.nqueries = 0
        self.qtime = 0.0

    def solver(self, extra=()):
        s = z3.Solver()
        s.set("timeout", 60000)
        s.add(*self.sym.assumes)
        s.add(*self.base)
        s.add(*extra)
        return s

    def check(self, *terms):
        import time
        t0 = time.time()
        s = self.solver(terms)
        r = s.check()
        self.nqueries += 1
        self.qtime += time.time() - t0
        return r, s

    def valid(self, term, extra=()):
        """is `extra => term` valid under the assumptions?  returns ('unsat'|'sat'|'unknown', model)"""
        r, s = self.check(*extra, z3.Not(S.zbool(term)))
        return ("unsat" if r == z3.unsat else "sat" if r == z3.sat else "unknown"), (s.model() if r == z3.sat else None)

    def arr(self, name, shape, dtype):
        return SymArr(self.sym.sym_array(name, shape, dtype), dtype)


ENG = Engine()


def reset_engine():
    global ENG
    ENG = Engine()
    return ENG


class Path:
    def __init__(self, prefix):
        self.prefix, self.taken, self.pc, self.pending = list(prefix), [], [], []

    def decide(self, term):
        if S.is_c(term):
            return bool(term)
        i = len(self.taken)
        if i < len(self.prefix):
            v = self.prefix[i]
        else:
            rt, _ = ENG.check(*self.pc, term)
            rf, _ = ENG.check(*self.pc, z3.Not(term))
            if z3.unknown in (rt, rf):
                raise Unsupported("path feasibility query returned unknown")
            t_ok, f_ok = rt == z3.sat, rf == z3.sat
            if t_ok and f_ok:
                self.pending.append(self.taken + [False])
                v = True
            elif t_ok:
                v = True
            elif f_ok:
                v = False
            else:
                raise Abort("infeasible path")
        self.taken.append(v)
        self.pc.append(term if v else z3.Not(term))
        return v


def explore(thunk, max_paths=4096):
    """Enumerate ALL feasible paths of thunk(); returns [(list of path-condition terms, ('ret', v) | ('exc', e))]."""
    results, work = [], [[]]
    while work:
        if len(results) > max_paths:
            raise Unsupported("path explosion")
        p = Path(work.pop())
        ENG.cur = p
        try:
            out = ("ret", thunk())
        except Abort:
            continue
        except Unsupported:
            raise
        except Exception as ex:  # the real function raised: that is an outcome
            out = ("exc", ex)
        finally:
            ENG.cur = None
        work.extend(p.pending)
        results.append((list(p.pc), out))
    return results


def pc_term(pc):
    return z3.And(*pc) if pc else z3.BoolVal(True)


def decide(term):
    if ENG.cur is None:
        if S.is_c(term):
            return bool(term)
        raise Unsupported("bool() of a symbolic value outside explore()")
    return ENG.cur.decide(term)


# --------------------------------------------------------------------------------------------------
class SymArr:
    """array proxy: concrete shape and dtype, symbolic elements"""
    __array_priority__ = 1000

    def __init__(self, el, dtype):
        self._el = el
        self.shape = tuple(el.shape)
        self.dtype = jnp.dtype(dtype)
        self.ndim = el.ndim
        self.size = el.size

    def __bool__(self):
        if self.size != 1:
            raise ValueError("The truth value of an array with more than one element is ambiguous. Use a.any() or a.all()")
        x = self._el.reshape(-1)[0]
        k = S.kind(self.dtype)
        return decide(x if k == "b" else S.cmp("ne", x, 0, k))

    def __len__(self):
        if self.ndim == 0:
            raise TypeError("len() of unsized object")
        return self.shape[0]

    def any(self, *a, **k):
        return lift(lambda v: v.any(*a, **k), self)

    def all(self, *a, **k):
        return lift(lambda v: v.all(*a, **k), self)

    def sum(self, *a, **k):
        return lift(lambda v: v.sum(*a, **k), self)

    def astype(self, dt):
        return lift(lambda v: v.astype(dt), self)

    def reshape(self, *a):
        return lift(lambda v: v.reshape(*a), self)

    def __getitem__(self, i):
        return lift(lambda v: v[i], self)

    def __getattr__(self, name):
        # any other array method / property (min, max, mean, flatten, T, ...) is lifted through the real jax array attribute
        if name.startswith("_"):
            raise AttributeError(name)
        probe = getattr(jnp.zeros(self.shape, self.dtype), name)  # raises AttributeError exactly when a real array would
        if callable(probe):
            return lambda *a, **k: lift(lambda v: getattr(v, name)(*a, **k), self)
        return lift(lambda v: getattr(v, name), self)

    def __array__(self, dtype=None, copy=None):
        """numpy sees an object array of scalar proxies (np.array_equal & co. then fork per element)"""
        out = np.empty(self.shape, dtype=object)
        k = S.kind(self.dtype)
        for idx in np.ndindex(*self.shape):
            out[idx] = SymScalar(self._el[idx], k, self.dtype)
        return out

    def __repr__(self):
        return f"SymArr(shape={self.shape}, dtype={self.dtype.name})"

    __hash__ = None


for _name in ("lt", "le", "gt", "ge", "eq", "ne", "add", "sub", "mul", "and_", "or_", "truediv", "floordiv", "mod"):
    _op = getattr(operator, _name)
    _n = _name.rstrip("_")

    def _fwd(self, other, _op=_op):
        if other is None or isinstance(other, (str, SymStr)):
            return NotImplemented
        return lift(_op, self, other)

    def _rev(self, other, _op=_op):
        if other is None or isinstance(other, (str, SymStr)):
            return NotImplemented
        return lift(_op, other, self)

    setattr(SymArr, f"__{_n}__", _fwd)
    setattr(SymArr, f"__r{_n}__", _rev)
SymArr.__invert__ = lambda self: lift(operator.invert, self)
SymArr.__neg__ = lambda self: lift(operator.neg, self)


class SymScalar:
    """element proxy used when numpy iterates an object array of a SymArr"""

    def __init__(self, term, k, dtype=None):
        self.term, self.k, self.dtype = term, k, dtype

    def __bool__(self):
        return decide(self.term if self.k == "b" else S.cmp("ne", self.term, 0, self.k))

    def _bin(self, other, op):
        o = other.term if isinstance(other, SymScalar) else other
        if not (S.is_c(o) or isinstance(other, SymScalar)):
            return NotImplemented
        return SymScalar(S.cmp(op, self.term, o, self.k if self.k != "b" or not isinstance(other, SymScalar) else "b"), "b")

    def __eq__(self, other):
        return self._bin(other, "eq")

    def __ne__(self, other):
        return self._bin(other, "ne")

    __hash__ = None


def lift(fn, *args, **kw):
    """Apply a jnp-traceable function to proxies by tracing the REAL function and evaluating the jaxpr symbolically."""
    pos = [i for i, a in enumerate(args) if isinstance(a, SymArr)]
    kpos = [k for k, a in kw.items() if isinstance(a, SymArr)]

    def f(*s):
        full = list(args)
        kk = dict(kw)
        for i, v in zip(pos, s[: len(pos)]):
            full[i] = v
        for k_, v in zip(kpos, s[len(pos):]):
            kk[k_] = v
        return fn(*full, **kk)

    syms = [args[i] for i in pos] + [kw[k] for k in kpos]
    structs = [jax.ShapeDtypeStruct(a.shape, a.dtype) for a in syms]
    cj, oshape = jax.make_jaxpr(f, return_shape=True)(*structs)  # real JAX decides shapes / dtypes / errors
    outs = ENG.sym.eval_closed(cj, *[a._el for a in syms])
    ol, od = jax.tree_util.tree_flatten(oshape)
    return jax.tree_util.tree_unflatten(od, [SymArr(o, s.dtype) for o, s in zip(outs, ol)])


class ModShim:
    """stands in for `jnp` / `np` in the analysed module's globals: concrete calls are forwarded unchanged, calls with a
    proxy argument are lifted through the real jnp function"""

    def __init__(self, real, jreal=None):
        self._real, self._jreal = real, jreal or real

    def __getattr__(self, name):
        real = getattr(self._real, name)
        if not callable(real) or isinstance(real, type):
            return real
        jreal = getattr(self._jreal, name, None)

        def w(*a, **k):
            if any(isinstance(x, SymArr) for x in a) or any(isinstance(x, SymArr) for x in k.values()):
                if name == "asarray" and len(a) == 1 and not k:
                    return a[0]
                if jreal is None:
                    raise Unsupported(f"{name} on a proxy")
                return lift(jreal, *a, **k)
            return real(*a, **k)

        return w


# --------------------------------------------------------------------------------------------------
class SymStr:
    """symbolic string (z3 String term); f-strings receive an opaque token"""

    def __init__(self, term):
        self.term = term if not isinstance(term, str) else z3.StringVal(term)

    def __eq__(self, other):
        if isinstance(other, SymStr):
            return SymBool(self.term == other.term)
        if isinstance(other, str):
            return SymBool(self.term == z3.StringVal(other))
        return NotImplemented

    def __ne__(self, other):
        r = self.__eq__(other)
        return r if r is NotImplemented else SymBool(z3.Not(r.term))

    def __bool__(self):
        return decide(z3.Length(self.term) > 0)

    def __format__(self, spec):
        return "<symbolic str>"

    def __str__(self):
        return "<symbolic str>"

    __repr__ = __str__
    __hash__ = None


class SymBool:
    def __init__(self, term):
        self.term = term

    def __bool__(self):
        return decide(self.term)

    def __invert__(self):
        return SymBool(S.b_not(self.term))

    def __and__(self, o):
        return SymBool(S.b_and(self.term, o.term if isinstance(o, SymBool) else o))

    def __or__(self, o):
        return SymBool(S.b_or(self.term, o.term if isinstance(o, SymBool) else o))

    __hash__ = None


def truth(v):
    """term for the truth value of an outcome value (bool / SymBool / SymArr / SymScalar)"""
    if isinstance(v, (bool, np.bool_)):
        return bool(v)
    if isinstance(v, SymBool):
        return v.term
    if isinstance(v, SymScalar):
        return v.term if v.k == "b" else S.cmp("ne", v.term, 0, v.k)
    if isinstance(v, SymArr) and v.size == 1:
        x = v._el.reshape(-1)[0]
        return x if S.kind(v.dtype) == "b" else S.cmp("ne", x, 0, S.kind(v.dtype))
    raise Unsupported(f"truth value of {type(v).__name__}")


def model_value(model, proxy):
    """concrete numpy value of a SymArr under a model (for native replays)"""
    from .core import _zval
    k = S.kind(proxy.dtype)
    out = np.zeros(proxy.shape, dtype=object)
    for idx in np.ndindex(*proxy.shape):
        t = proxy._el[idx]
        out[idx] = S.cv(t) if S.is_c(t) else _zval(model.eval(t, model_completion=True), k)
    if k == "f":
        from fractions import Fraction
        out = np.array([float(Fraction(x)) if isinstance(x, str) else float(x) for x in out.reshape(-1)]).reshape(proxy.shape)
    return np.asarray(out.tolist()).astype(proxy.dtype).reshape(proxy.shape)


class SymInt:
    """symbolic Python int (z3 Int term): comparisons give SymBool, bool() forks on != 0"""

    def __init__(self, term):
        self.term = term

    def _t(self, o):
        return o.term if isinstance(o, SymInt) else (z3.IntVal(int(o)) if isinstance(o, (int, np.integer)) and not isinstance(o, bool) else None)

    def __bool__(self):
        return decide(self.term != 0)

    def __index__(self):
        raise Unsupported("symbolic int used as an index")

    def __repr__(self):
        return "<symbolic int>"

    def __format__(self, spec):
        return "<symbolic int>"

    __hash__ = None


def _symint_ops():
    import operator as op
    for name, f in (("lt", op.lt), ("le", op.le), ("gt", op.gt), ("ge", op.ge), ("eq", op.eq), ("ne", op.ne)):
        def cmp_(self, o, f=f):
            t = self._t(o)
            return NotImplemented if t is None else SymBool(f(self.term, t))
        setattr(SymInt, f"__{name}__", cmp_)
    for name, f in (("add", op.add), ("sub", op.sub), ("mul", op.mul)):
        def ar(self, o, f=f):
            t = self._t(o)
            return NotImplemented if t is None else SymInt(f(self.term, t))

        def rar(self, o, f=f):
            t = self._t(o)
            return NotImplemented if t is None else SymInt(f(t, self.term))
        setattr(SymInt, f"__{name}__", ar)
        setattr(SymInt, f"__r{name}__", rar)


_symint_ops()
