"""Trace-time contract stubs.

* `ext` primitive: an *external* (dependency) call whose result is a fresh symbol constrained by the ASSUMED
  contract of the dependency (samplers of jax.random).  Installed only around `make_jaxpr`.
* `uf` primitive: an uninterpreted function (abstract environment for wrapper proofs).

Both have abstract-evaluation and batching rules only (plus an `impl` for `ext` that reads pinned values
when a counterexample is replayed), so an accidental eager use fails loudly.
"""
import contextlib
import itertools

import jax
import jax.numpy as jnp
import jax.random as jr
import numpy as np
import z3
from jax import core
from jax.interpreters import batching

from . import symeval as S

# --------------------------------------------------------------------------------------------------
ext_p = core.Primitive("ext")
ext_p.multiple_results = True
_uid = itertools.count()


@ext_p.def_abstract_eval
def _ext_abs(*avals, name, out_avals, static, uid):
    return list(out_avals)


def _ext_batch(args, dims, *, name, out_avals, static, uid):
    size = next(a.shape[d] for a, d in zip(args, dims) if d is not batching.not_mapped)
    outs = []
    for i in range(size):
        sl = [a if d is batching.not_mapped else jnp.take(a, i, axis=d) for a, d in zip(args, dims)]
        outs.append(ext_p.bind(*sl, name=name, out_avals=out_avals, static=static, uid=next(_uid)))
    return [jnp.stack([o[j] for o in outs]) for j in range(len(out_avals))], [0] * len(out_avals)


batching.primitive_batchers[ext_p] = _ext_batch

PINNED = {}  # uid -> list of numpy arrays (used only when a jaxpr is re-run concretely with pinned outcomes)


@ext_p.def_impl
def _ext_impl(*args, name, out_avals, static, uid):
    if uid not in PINNED:
        raise RuntimeError(f"ext[{name}] executed eagerly without pinned outcome (stub leaked outside tracing)")
    return [jnp.asarray(v, av.dtype) for v, av in zip(PINNED[uid], out_avals)]


def ext_call(name, out_avals, *args, static=()):
    return ext_p.bind(*[jnp.asarray(a) for a in args], name=name, out_avals=tuple(out_avals), static=static, uid=next(_uid))


def _kd(key):
    key = jnp.asarray(key) if not hasattr(key, "dtype") else key
    if jnp.issubdtype(key.dtype, jax.dtypes.prng_key):
        return jr.key_data(key)
    return key


I32 = jnp.int32


def stub_choice(key, a, shape=(), replace=True, p=None, axis=0):
    if isinstance(shape, int):
        shape = (shape,)
    shape = tuple(int(s) for s in shape)
    if isinstance(a, int) or (hasattr(a, "ndim") and jnp.ndim(a) == 0 and not isinstance(a, (list, tuple))):
        n = int(a)
        a_arr = None
    else:
        a_arr = jnp.asarray(a)
        n = a_arr.shape[axis]
    size = int(np.prod(shape)) if shape else 1
    if not replace and size > n:
        raise ValueError("Cannot take a larger sample than population when 'replace=False'")
    ins = [_kd(key)]
    if p is not None:
        p = jnp.asarray(p)
        if p.shape != (n,):
            raise ValueError(f"p must be None or a 1D vector with the same size as a.shape[axis]. p has shape {p.shape}")
        ins.append(p.astype(jnp.float32) if not jnp.issubdtype(p.dtype, jnp.floating) else p)
    (idx,) = ext_call("choice", [core.ShapedArray(shape, I32)], *ins, static=(n, shape, bool(replace), p is not None))
    if a_arr is None:
        return idx.astype(jnp.result_type(int))
    return jnp.take(a_arr, idx, axis=axis)


def stub_randint(key, shape, minval, maxval, dtype=int):
    shape = tuple(int(s) for s in (shape if not isinstance(shape, int) else (shape,)))
    dtype = jax.dtypes.canonicalize_dtype(dtype)
    lo = jnp.broadcast_to(jnp.asarray(minval).astype(dtype), shape)
    hi = jnp.broadcast_to(jnp.asarray(maxval).astype(dtype), shape)
    (x,) = ext_call("randint", [core.ShapedArray(shape, dtype)], _kd(key), lo, hi, static=(shape, str(dtype)))
    return x


def stub_uniform(key, shape=(), dtype=float, minval=0.0, maxval=1.0):
    shape = tuple(int(s) for s in (shape if not isinstance(shape, int) else (shape,)))
    dtype = jax.dtypes.canonicalize_dtype(dtype)
    lo = jnp.broadcast_to(jnp.asarray(minval, dtype), shape)
    hi = jnp.broadcast_to(jnp.asarray(maxval, dtype), shape)
    (x,) = ext_call("uniform", [core.ShapedArray(shape, dtype)], _kd(key), lo, hi, static=(shape, str(dtype)))
    return x


def stub_permutation(key, x, axis=0, independent=False):
    if independent:
        raise NotImplementedError("permutation(independent=True) has no contract stub")
    if isinstance(x, int) or jnp.ndim(x) == 0:
        n = int(x)
        (idx,) = ext_call("permutation", [core.ShapedArray((n,), I32)], _kd(key), static=(n,))
        return idx.astype(jnp.result_type(int))
    x = jnp.asarray(x)
    n = x.shape[axis]
    (idx,) = ext_call("permutation", [core.ShapedArray((n,), I32)], _kd(key), static=(n,))
    return jnp.take(x, idx, axis=axis)


def stub_categorical(key, logits, axis=-1, shape=None):
    logits = jnp.asarray(logits)
    if shape is not None or logits.ndim != 1:
        raise NotImplementedError("categorical stub covers 1-D logits only")
    n = logits.shape[0]
    (idx,) = ext_call("categorical", [core.ShapedArray((), I32)], _kd(key), logits, static=(n,))
    return idx


STUBS = {"choice": stub_choice, "randint": stub_randint, "uniform": stub_uniform, "permutation": stub_permutation,
         "categorical": stub_categorical}


@contextlib.contextmanager
def installed(names=None):
    names = list(STUBS) if names is None else names
    saved = {n: getattr(jr, n) for n in names}
    try:
        for n in names:
            setattr(jr, n, STUBS[n])
        yield
    finally:
        for n, f in saved.items():
            setattr(jr, n, f)


# ---- assumed contracts (DESIGN.md section 5) ----------------------------------------------------


def _c_choice(sym, e, outs, ins):
    n, shape, replace, has_p = e.params["static"]
    idx = list(outs[0].reshape(-1))
    for i in idx:
        sym.assumes += [i >= 0, i < n]
    pos = None
    if has_p:
        p = ins[1]
        pos = [S.cmp("gt", p[j], 0.0, "f") for j in range(n)]

    def pos_at(i):
        return z3.Or(*[z3.And(i == j, S.zbool(pos[j])) for j in range(n)])

    if replace:
        if has_p:
            anypos = z3.Or(*[S.zbool(x) for x in pos])
            for i in idx:
                sym.assumes.append(z3.Implies(anypos, pos_at(i)))
    else:
        if len(idx) > 1:
            sym.assumes.append(z3.Distinct(*idx))
        if has_p:
            cnt = z3.Sum([z3.If(S.zbool(x), 1, 0) for x in pos])
            enough = cnt >= len(idx)
            for i in idx:
                sym.assumes.append(z3.Implies(enough, pos_at(i)))
            # fewer positive entries than the sample size: every positive entry is selected
            for j in range(n):
                sym.assumes.append(z3.Implies(z3.And(z3.Not(enough), S.zbool(pos[j])), z3.Or(*[i == j for i in idx])))


def _c_randint(sym, e, outs, ins):
    _, lo, hi = ins
    for x, l, h in zip(outs[0].reshape(-1), lo.reshape(-1), hi.reshape(-1)):
        l, h = S.zint(l), S.zint(h)
        sym.assumes.append(z3.If(l < h, z3.And(x >= l, x < h), x == l))


def _c_uniform(sym, e, outs, ins):
    _, lo, hi = ins
    for x, l, h in zip(outs[0].reshape(-1), lo.reshape(-1), hi.reshape(-1)):
        l, h = S.zreal(l), S.zreal(h)
        sym.assumes.append(z3.If(l < h, z3.And(x >= l, x < h), x == l))


def _c_permutation(sym, e, outs, ins):
    (n,) = e.params["static"]
    idx = list(outs[0].reshape(-1))
    for i in idx:
        sym.assumes += [i >= 0, i < n]
    if len(idx) > 1:
        sym.assumes.append(z3.Distinct(*idx))


def _c_categorical(sym, e, outs, ins):
    (n,) = e.params["static"]
    i = outs[0][()]
    sym.assumes += [i >= 0, i < n]
    logits = ins[1]
    neginf = [S._isinf(x) and S.cv(x) < 0 for x in logits]
    if any(neginf) and not all(neginf):
        sym.assumes.append(z3.And(*[i != j for j in range(n) if neginf[j]]))


EXT_CONTRACTS = {"choice": _c_choice, "randint": _c_randint, "uniform": _c_uniform, "permutation": _c_permutation,
                 "categorical": _c_categorical}

EXT_DOC = {
    "choice": "jax.random.choice: result index in [0,n); replace=True with p: p[idx]>0 whenever some p>0; replace=False: distinct "
              "indices, entries with p>0 are selected before entries with p=0",
    "randint": "jax.random.randint: lo<hi => lo<=x<hi, otherwise x=lo (element-wise, array bounds allowed)",
    "uniform": "jax.random.uniform: lo<hi => lo<=x<hi, otherwise x=lo",
    "permutation": "jax.random.permutation: a permutation of the input / of range(n)",
    "categorical": "jax.random.categorical: index in range whose logit is not -inf when some logit is finite",
}

# --------------------------------------------------------------------------------------------------
uf_p = core.Primitive("uf")
uf_p.multiple_results = True


@uf_p.def_abstract_eval
def _uf_abs(*avals, name, out_avals):
    return list(out_avals)


def _uf_batch(args, dims, *, name, out_avals):
    size = next(a.shape[d] for a, d in zip(args, dims) if d is not batching.not_mapped)
    outs = []
    for i in range(size):
        sl = [a if d is batching.not_mapped else jnp.take(a, i, axis=d) for a, d in zip(args, dims)]
        outs.append(uf_p.bind(*sl, name=name, out_avals=out_avals))
    return [jnp.stack([o[j] for o in outs]) for j in range(len(out_avals))], [0] * len(out_avals)


batching.primitive_batchers[uf_p] = _uf_batch

UF_MODEL = [None]  # z3 model of the counterexample being replayed: the abstract function is realised by the model's interpretation


@uf_p.def_impl
def _uf_impl(*args, name, out_avals):
    from fractions import Fraction
    model = UF_MODEL[0]
    if model is None:
        raise RuntimeError(f"uf[{name}] executed eagerly without a model (abstract function leaked outside tracing)")
    flat = []
    for a in args:
        if hasattr(a, "dtype") and jnp.issubdtype(a.dtype, jax.dtypes.prng_key):
            a = jr.key_data(a)
        a = np.asarray(a)
        k = S.kind(a.dtype)
        for x in a.reshape(-1).tolist():
            flat.append(z3.BoolVal(bool(x)) if k == "b" else (z3.IntVal(int(x)) if k == "i" else z3.RealVal(str(Fraction(float(x))))))
    sym = S.Sym()
    outs = sym.uf_apply(name, flat, out_avals, constrain=False)
    res = []
    for o, av in zip(outs, out_avals):
        k = S.kind(av.dtype)
        vals = np.zeros(av.shape, dtype=np.float64 if k == "f" else (bool if k == "b" else np.int64))
        for idx in np.ndindex(*av.shape):
            v = model.eval(o[idx], model_completion=True)
            if k == "b":
                vals[idx] = z3.is_true(v)
            elif k == "i":
                vals[idx] = v.as_long()
            else:
                vals[idx] = float(Fraction(v.numerator_as_long(), v.denominator_as_long())) if z3.is_rational_value(v) else 0.0
        res.append(jnp.asarray(vals.astype(av.dtype) if k != "i" else vals.astype(np.int64).astype(av.dtype)))
    return res


def model_split(key, num=2):
    """jax.random.split realised by the solver model's interpretation of the uninterpreted split function (replays over abstract environments)"""
    model = UF_MODEL[0]
    kd = np.asarray(_kd(key))
    shape = (num,) if isinstance(num, (int, np.integer)) else tuple(num)
    sym = S.Sym()
    e = type("E", (), {"params": {"shape": shape}})()
    x = np.empty(kd.shape[:-1], dtype=object)
    for idx in np.ndindex(*x.shape):
        x[idx] = S.Key(z3.IntVal(int(kd[idx + (0,)])), z3.IntVal(int(kd[idx + (1,)])))
    out = sym.p_random_split(e, x)
    res = np.zeros(out.shape + (2,), dtype=np.uint32)
    for idx in np.ndindex(*out.shape):
        for w, t in enumerate((out[idx].k0, out[idx].k1)):
            res[idx + (w,)] = model.eval(t, model_completion=True).as_long() % (2**32)
    return jnp.asarray(res)


def uf_call(name, out_tree_example, *args):
    """Uninterpreted function `name` of all leaves of args, returning a pytree shaped like the example."""
    flat, _ = jax.tree_util.tree_flatten(args)
    oleaves, odef = jax.tree_util.tree_flatten(out_tree_example)
    out_avals = tuple(core.ShapedArray(jnp.shape(x), x.dtype) for x in oleaves)
    flat = [x if hasattr(x, "dtype") and jnp.issubdtype(x.dtype, jax.dtypes.prng_key) else jnp.asarray(x) for x in flat]
    outs = uf_p.bind(*flat, name=name, out_avals=out_avals)
    return jax.tree_util.tree_unflatten(odef, outs)
