"""Check runner: spawns one worker process per task, aggregates obligations, replays, evidence, exit code.

exit 0: every obligation discharged (known findings reproduced are printed as KNOWN-FINDING)
exit 1: a violation not listed in known_findings.json   (prints VIOLATION property=<id> replay=<path>)
exit 2: something undecided (solver unknown / timeout / unsupported) and no violation
exit 3: checker crash (exception, failed cover check, canary not refuted, obligations disappeared)
"""
import concurrent.futures as cf
import importlib
import json
import multiprocessing as mp
import os
import re
import sys
import time
import traceback

ROOT = os.path.dirname(os.path.dirname(os.path.abspath(__file__)))


class TaskContext:
    def __init__(self, prop, task_id, tier, seed):
        self.prop, self.task_id, self.tier, self.seed = prop, task_id, tier, seed
        self.obligations = []  # result dicts
        self.problems = []
        self.bounded = []
        self.errors = []
        self.replays = []
        self.assumptions = set()
        self.replaced = []

    # ---- Engine J ----
    def prove(self, title, args, ensures, requires=None, *, targets=(), prefix=None, workers=1, timeout=None,
              selfcheck=True, expect_cover=True, also=(), **opts):
        """Trace + symbolically evaluate + discharge every clause element.  Clauses named `canary.*` must be refuted
        and replayed (anti-vacuity); clauses are filtered by `prefix` (property id) when given."""
        import numpy as np

        from . import core

        pfx = prefix if prefix is not None else self.prop + "."

        def filt(d):
            if not isinstance(d, dict):
                d = {pfx + "_": d}
            return {k: v for k, v in d.items() if k.startswith(pfx) or k.startswith("canary.") or any(k.startswith(a) for a in also)}

        ens = lambda *a: filt(ensures(*a))
        if timeout is None:
            timeout = 120 if self.tier == "quick" else 900
        try:
            P = core.Problem(title, args, ens, requires, targets=targets, timeout=timeout, **opts)
        except Exception as ex:
            self.errors.append({"title": title, "error": "trace/eval failed: " + repr(ex)[:400], "trace": traceback.format_exc()[-2000:]})
            return None
        summ = P.summary()
        if not [o for o in P.obligations if not o[1].startswith("canary.")]:
            self.problems.append({**summ, "skipped": "no clause for this property"})
            return P
        if expect_cover:
            cov = P.cover()
            summ["cover"] = cov
            if cov is False:
                self.errors.append({"title": title, "error": "cover check failed: precondition (with assumed contracts) is unsatisfiable"})
            elif cov is None:
                summ["cover_note"] = "cover query returned unknown"
        results = core.discharge(P, workers=workers)
        for r in results:
            r["title"] = title
            is_canary = "/canary." in r["name"]
            if r["verdict"] == "sat":
                rp = P.replay(r)
                r["replay"] = rp
                r.pop("model", None)
            if is_canary:
                r["canary"] = True
                if not (r["verdict"] == "sat" and r.get("replay", {}).get("confirmed")):
                    self.errors.append({"title": title, "error": f"canary {r['name']} was not refuted+replayed: {r['verdict']} "
                                        f"{r.get('replay', {}).get('note', '')}"})
            elif r["verdict"] == "error":
                self.errors.append({"title": title, "error": r["name"] + ": " + r.get("error", "")})
            self.obligations.append(r)
        if selfcheck:
            try:
                summ["engine_selfcheck"] = core.selfcheck(P, np.random.default_rng(self.seed))
                if summ["engine_selfcheck"].get("mismatches"):
                    self.errors.append({"title": title, "error": "engine self-check mismatch vs jax.core.eval_jaxpr"})
            except Exception as ex:
                summ["engine_selfcheck"] = {"skipped": repr(ex)[:200]}
        self.problems.append(summ)
        for u in P.sym.uses:
            self.assumptions.add(u)
        for h in P.sym.havocked:
            self.assumptions.add("havocked:" + h)
        return P

    # ---- structural / syntactic obligations (no SMT): e.g. avals == spec, effects == {} ----
    def structural(self, name, ok, backend, detail=None, targets=(), witness=None):
        from . import core

        r = {"name": name, "title": name.split("/")[0], "verdict": "unsat" if ok else "sat", "backend": backend, "time": 0.0,
             "structural": True}
        if detail is not None:
            r["detail"] = detail
        if targets:
            r["targets"] = [core.target_meta(t) for t in targets]
        if not ok:
            r["replay"] = {"obligation": name, "confirmed": True if witness is not None else None, "structural": True,
                           "detail": detail, "witness": witness, "mode": "structural (no solver model)"}
        self.obligations.append(r)
        return ok

    def bounded_check(self, name, evaluations, failures, bound, witness=None):
        """bounded stand-in (never counted as proved).  A failing run-time contract is a concrete counterexample: it is reported as a violation."""
        self.bounded.append({"name": name, "evaluations": evaluations, "failures": failures, "bound": bound, "witness": witness})
        if failures:
            self.obligations.append({"name": name + " [bounded stand-in]", "title": name.split("/")[0], "verdict": "sat", "backend": "bounded run-time contract check",
                                     "time": 0.0, "bounded": True,
                                     "replay": {"obligation": name, "confirmed": True, "mode": "native execution (bounded stand-in)", "witness": witness}})

    def result(self):
        return {"task": self.task_id, "obligations": self.obligations, "problems": self.problems, "bounded": self.bounded,
                "errors": self.errors, "assumptions": sorted(self.assumptions), "replaced": self.replaced}


def run_task(prop, task_id, tier, seed):
    t0 = time.time()
    import warnings

    warnings.filterwarnings("ignore")
    os.environ.setdefault("JAX_PLATFORMS", "cpu")
    sys.path[:0] = [p for p in (ROOT, os.environ.get("VERIF_REPO", "/repo")) if p not in sys.path]
    try:
        from . import core as _core
        _core.die_with_parent()
    except Exception:
        pass
    try:  # `kill -USR1 <worker pid>` dumps the Python stack of a worker (development aid for slow tasks)
        import faulthandler
        import signal
        faulthandler.register(signal.SIGUSR1, all_threads=False)
    except Exception:
        pass
    ctx = TaskContext(prop, task_id, tier, seed)
    try:
        mod = importlib.import_module("checks." + prop)
        fn, kwargs = mod.tasks(tier)[task_id]
        fn(ctx, **kwargs)
    except Exception as ex:
        ctx.errors.append({"title": task_id, "error": "task crashed: " + repr(ex)[:400], "trace": traceback.format_exc()[-3000:]})
    out = ctx.result()
    out["wall_s"] = round(time.time() - t0, 2)
    return out


def _load_known():
    p = os.path.join(ROOT, "known_findings.json")
    if not os.path.exists(p):
        return []
    return json.load(open(p))["findings"]


def main(argv=None):
    import argparse

    ap = argparse.ArgumentParser()
    ap.add_argument("prop")
    ap.add_argument("--tier", default=os.environ.get("VERIF_TIER", "quick"))
    ap.add_argument("--only", default=None, help="regex on task ids (development)")
    ap.add_argument("--workers", type=int, default=int(os.environ.get("VERIF_WORKERS", "0")))
    ap.add_argument("--replay", default=None)
    ap.add_argument("--no-evidence", action="store_true")
    ap.add_argument("--update-baseline", action="store_true")
    a = ap.parse_args(argv)
    prop, tier = a.prop, a.tier
    seed = int(os.environ.get("VERIF_SEED", "0"))
    sys.path[:0] = [p for p in (ROOT, os.environ.get("VERIF_REPO", "/repo")) if p not in sys.path]
    t0 = time.time()
    if a.replay:
        return replay_file(prop, a.replay)
    mod = importlib.import_module("checks." + prop)
    tasks = mod.tasks(tier)
    ids = [t for t in tasks if a.only is None or re.search(a.only, t)]
    ncpu = len(os.sched_getaffinity(0))
    nw = a.workers or max(1, min(len(ids), ncpu - 2))
    results = []
    ctx = mp.get_context("spawn")
    # watchdog: a check never hangs.  If the whole run exceeds the wall limit (VERIF_WALL_LIMIT seconds; default 45 min quick / 8 h thorough) the
    # workers are killed and every unfinished task is reported as a CHECKER-ERROR (exit 3: undecided by the tool, never a violation).
    limit = float(os.environ.get("VERIF_WALL_LIMIT", "2700" if tier == "quick" else "28800"))
    with cf.ProcessPoolExecutor(max_workers=nw, mp_context=ctx) as ex:
        futs = {ex.submit(run_task, prop, t, tier, seed): t for t in ids}
        done = set()
        try:
            for f in cf.as_completed(futs, timeout=limit):
                t = futs[f]
                done.add(t)
                try:
                    r = f.result()
                except Exception as e:
                    r = {"task": t, "obligations": [], "problems": [], "bounded": [], "assumptions": [], "replaced": [],
                         "errors": [{"title": t, "error": "worker died: " + repr(e)[:300]}], "wall_s": 0}
                results.append(r)
                nob = len([o for o in r["obligations"] if not o.get("canary")])
                nd = len([o for o in r["obligations"] if not o.get("canary") and o["verdict"] == "unsat"])
                print(f"[{prop}] task {t}: {nd}/{nob} discharged, {len(r['errors'])} errors, {r['wall_s']}s", flush=True)
        except cf.TimeoutError:
            for t in ids:
                if t not in done:
                    results.append({"task": t, "obligations": [], "problems": [], "bounded": [], "assumptions": [], "replaced": [],
                                    "errors": [{"title": t, "error": f"task not finished within the wall limit of {limit:.0f}s: killed (tool limit, not a verdict)"}], "wall_s": limit})
                    print(f"[{prop}] task {t}: exceeded the wall limit, killed", flush=True)
            for pr in list(getattr(ex, "_processes", {}).values()):
                try:
                    pr.kill()
                except Exception:
                    pass
            ex.shutdown(wait=False, cancel_futures=True)
    # second chance for anything undecided (solver `unknown` / timeout / dead worker): the task is re-run alone, when the machine is quiet,
    # with a 3x budget; a verdict must never flip because 16 cores were busy.  `sat` / `unsat` answers are never retried.
    def _shaky(r):
        return any(o["verdict"] not in ("unsat", "sat") for o in r["obligations"]) or any("worker died" in e["error"] or "task crashed" in e["error"] for e in r["errors"])
    # (only when few obligations of the task are open: a tree on which many queries time out is not helped by waiting 3x longer for each)
    def _few(r):
        return len([o for o in r["obligations"] if o["verdict"] not in ("unsat", "sat")]) <= 4
    retry = [r["task"] for r in results if _shaky(r) and _few(r) and not any("wall limit" in e["error"] for e in r["errors"])][:6]
    if retry:
        os.environ["VERIF_BUDGET_SCALE"] = str(3 * float(os.environ.get("VERIF_BUDGET_SCALE", "1")))
        with cf.ProcessPoolExecutor(max_workers=2, mp_context=ctx) as ex:
            futs = {ex.submit(run_task, prop, t, tier, seed): t for t in retry}
            it = cf.as_completed(futs, timeout=max(60.0, limit - (time.time() - t0)))
            while True:
                try:
                    f = next(it)
                except StopIteration:
                    break
                except cf.TimeoutError:   # the retry is a courtesy: past the wall limit the first verdicts stand
                    for pr in list(getattr(ex, "_processes", {}).values()):
                        try:
                            pr.kill()
                        except Exception:
                            pass
                    ex.shutdown(wait=False, cancel_futures=True)
                    break
                t = futs[f]
                try:
                    r2 = f.result()
                except Exception:
                    continue
                if not _shaky(r2) or len([o for o in r2["obligations"] if o["verdict"] == "unsat"]) >= len(
                        [o for o in next(r for r in results if r["task"] == t)["obligations"] if o["verdict"] == "unsat"]):
                    r2["retried"] = True
                    results = [r for r in results if r["task"] != t] + [r2]
                    print(f"[{prop}] task {t}: retried with 3x budget, {len([o for o in r2['obligations'] if o['verdict'] not in ('unsat', 'sat')])} undecided left", flush=True)
    results.sort(key=lambda r: r["task"])
    return finish(prop, tier, seed, mod, results, time.time() - t0, a)


def finish(prop, tier, seed, mod, results, wall, a):
    known = [k for k in _load_known() if k["property"] == prop]
    obs = [o for r in results for o in r["obligations"] if not o.get("canary")]
    # bounded stand-ins never count as obligations; a FAILING one is kept (it is a concrete counterexample)
    canaries = [o for r in results for o in r["obligations"] if o.get("canary")]
    errors = [e for r in results for e in r["errors"]]
    violations, known_hits, undecided = [], [], []
    os.makedirs(os.path.join(ROOT, "replays", prop), exist_ok=True)
    for o in obs:
        if o["verdict"] == "unsat":
            continue
        if o["verdict"] == "sat":
            rp = o.get("replay", {})
            k = next((k for k in known if k.get("status", "known") == "known" and re.search(k["obligation"], o["name"])), None)
            if k is not None:
                known_hits.append((k, o))
                continue
            violations.append(o)
        else:
            undecided.append(o)
    lines = []
    for k, o in known_hits:
        lines.append(f"KNOWN-FINDING: property={prop} {k['what']} [{o['name']}]")
    seen = set()
    for ln in lines:
        key = ln.split(" [")[0]
        if key not in seen:
            print(ln)
            seen.add(key)
    # a known finding that no longer reproduces is reported (not an error): the defect may have been fixed
    for k in known:
        if k.get("status", "known") == "known" and not any(kk is k for kk, _ in known_hits) and not a.only:
            print(f"NOTE: known finding no longer reproduces: property={prop} {k['what']}")
    for o in violations:
        rp = o.get("replay") or {}
        fn = re.sub(r"[^A-Za-z0-9_.@\-\[\]]", "_", o["name"])[:150] + ".json"
        path = os.path.join(ROOT, "replays", prop, fn)
        doc = {"property": prop, "obligation": o["name"], "verdict": o["verdict"], "backend": o.get("backend"),
               "solver_time_s": o.get("time"), "replay": rp, "detail": o.get("detail"),
               "reproduce": f"cd /verif && ./check {prop} --replay {path}"}
        json.dump(doc, open(path, "w"), indent=1, default=str)
        suffix = "" if rp.get("confirmed") else " no-failing-input-found"
        print(f"VIOLATION property={prop} replay={path}{suffix}")
    for o in undecided:
        print(f"UNDECIDED property={prop} obligation={o['name']} verdict={o['verdict']} {o.get('reason', '')}")
    for e in errors:
        print(f"CHECKER-ERROR property={prop} {e['title']}: {e['error']}")
        if e.get("trace") and os.environ.get("VERIF_DEBUG"):
            print(e["trace"])
    # zero-obligation / baseline guard
    base_path = os.path.join(ROOT, "baseline_obligations.json")
    base = json.load(open(base_path)) if os.path.exists(base_path) else {}
    counts = {r["task"]: len([o for o in r["obligations"] if not o.get("canary")]) for r in results}
    bkey = f"{prop}/{tier}"
    if a.update_baseline and not a.only:
        base[bkey] = counts
        json.dump(base, open(base_path, "w"), indent=1, sort_keys=True)
    elif bkey in base and not a.only:
        for t, n in base[bkey].items():
            if counts.get(t, 0) < n:
                errors.append({"title": t, "error": f"obligations disappeared: {counts.get(t, 0)} < baseline {n}"})
                print(f"CHECKER-ERROR property={prop} {t}: obligations disappeared: {counts.get(t, 0)} < baseline {n}")
    if not obs:
        errors.append({"title": prop, "error": "zero obligations generated"})
        print(f"CHECKER-ERROR property={prop}: zero obligations generated")
    n_dis = len([o for o in obs if o["verdict"] == "unsat"])
    code = 1 if violations else (3 if errors else (2 if undecided else 0))
    if not a.no_evidence:
        from . import evidence

        evidence.write(prop, tier, seed, mod, results, obs, canaries, violations, known_hits, undecided, errors, wall, code)
    print(f"[{prop}] tier={tier} obligations={len(obs)} discharged={n_dis} known-findings={len(known_hits)} violations={len(violations)} "
          f"undecided={len(undecided)} errors={len(errors)} canaries={len(canaries)} wall={wall:.1f}s exit={code}")
    return code


def replay_file(prop, path):
    doc = json.load(open(path))
    print(json.dumps({k: doc[k] for k in ("property", "obligation", "verdict", "backend")}, indent=1))
    rp = doc.get("replay") or {}
    print("recorded replay on the real code:", json.dumps({k: v for k, v in rp.items() if k not in ("trace",)}, default=str)[:3000])
    print("re-running the check task that owns this obligation ...")
    title = doc["obligation"].split("/")[0]
    mod = importlib.import_module("checks." + prop)
    tasks = mod.tasks("quick")
    owner = [t for t in tasks if title.startswith(t) or t in title]
    # task ids and problem titles are related only by convention: fall back on every task (stopping at the first that owns the obligation)
    owner = owner[:1] + [t for t in tasks if t not in owner[:1]]
    code, found = 0, False
    for t in owner:
        r = run_task(prop, t, "quick", 0)
        for o in r["obligations"]:
            if o["name"] == doc["obligation"]:
                print(f"now (task {t}):", o["verdict"], json.dumps(o.get("replay", {}), default=str)[:2000])
                code = 1 if o["verdict"] == "sat" else 0
                found = True
        if found:
            break
    if not found:
        print("the obligation is no longer generated by any task of this check")
    return code


if __name__ == "__main__":
    sys.exit(main())
