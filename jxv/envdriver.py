"""Generic driver for the per-environment sidecar contracts (contracts/<module>.py with ENV and problems())."""
import importlib

from contracts import envs as E

import glob
import os


def modules():
    d = os.path.join(os.path.dirname(os.path.dirname(os.path.abspath(__file__))), "contracts")
    out = []
    for f in sorted(glob.glob(os.path.join(d, "*.py"))):
        n = os.path.basename(f)[:-3]
        if n in ("__init__", "common", "envs"):
            continue
        if "\nENV = " in open(f).read():
            out.append(n)
    return out


def _configs(m, tier):
    """a contract module may define its own `configs(tier) -> {name: thunk}`; default: contracts/envs.py"""
    if hasattr(m, "configs"):
        return m.configs(tier)
    return E.configs(m.ENV, tier)


def run_env(ctx, module, cfg):
    m = importlib.import_module("contracts." + module)
    env = _configs(m, ctx.tier)[cfg]()
    for p in m.problems(env, cfg, ctx.tier):
        p = dict(p)
        title, args, ens = p.pop("title"), p.pop("args"), p.pop("ensures")
        req = p.pop("requires", None)
        props = p.pop("props", None)
        if props is not None and ctx.prop not in props:
            continue
        ctx.prove(title, args, ens, req, **p)


def tasks(prop, tier, modules=None):
    out = {}
    for mod in modules or globals()['modules']():
        m = importlib.import_module("contracts." + mod)
        if hasattr(m, "PROPS") and prop not in m.PROPS:
            continue
        for cfg in _configs(m, tier):
            out[f"{m.ENV}@{cfg}"] = (run_env, {"module": mod, "cfg": cfg})
    return out
