"""Generic driver for the per-environment sidecar contracts (contracts/<module>.py with ENV and problems())."""
import importlib

from contracts import envs as E

MODULES = ["maze"]


def run_env(ctx, module, cfg):
    m = importlib.import_module("contracts." + module)
    env = E.ALL()[m.ENV][cfg]()
    for p in m.problems(env, cfg, ctx.tier):
        p = dict(p)
        title, args, ens = p.pop("title"), p.pop("args"), p.pop("ensures")
        req = p.pop("requires", None)
        props = p.pop("props", None)
        if props is not None and ctx.prop not in props:
            continue
        ctx.prove(title, args, ens, req, **p)


def tasks(prop, tier, modules=None):
    out = {}
    for mod in modules or MODULES:
        m = importlib.import_module("contracts." + mod)
        if hasattr(m, "PROPS") and prop not in m.PROPS:
            continue
        for cfg in E.configs(m.ENV, tier):
            out[f"{m.ENV}@{cfg}"] = (run_env, {"module": mod, "cfg": cfg})
    return out
