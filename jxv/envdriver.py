"""Generic driver for the per-environment sidecar contracts (contracts/<module>.py with ENV and problems())."""
import importlib

from contracts import envs as E

import glob
import os


def modules():
    d = os.path.join(os.path.dirname(os.path.dirname(os.path.abspath(__file__))), "contracts")
    out = []
    for f in sorted(glob.glob(os.path.join(d, "*.py"))):
        n = os.path.basename(f)[:-3]
        if n in ("__init__", "common", "envs"):
            continue
        if "\nENV = " in open(f).read():
            out.append(n)
    return out


def _configs(m, tier):
    """a contract module may define its own `configs(tier) -> {name: thunk}`; default: contracts/envs.py"""
    if hasattr(m, "configs"):
        return m.configs(tier)
    return E.configs(m.ENV, tier)


# The reaction to legal / illegal actions (C05, C09) is proved UNDER the invariant "the cached mask is the rule"; the clauses that establish and
# preserve that invariant carry the id of the property that states them (C04).  A change that breaks C05/C09 only by breaking the mask invariant
# is therefore invisible to the C05/C09 clauses themselves: the checks of C05 and C09 re-prove those C04 clauses too.
ALSO = {"C05": ("C04.cached_mask", "C04.mask_is_exactly", "C04.mask_handed_out", "C04.mask_fn_is_the_rule", "C04.inv_"),
        "C09": ("C04.cached_mask", "C04.mask_is_exactly", "C04.mask_handed_out", "C04.mask_fn_is_the_rule", "C04.inv_")}


def run_env(ctx, module, cfg):
    m = importlib.import_module("contracts." + module)
    env = _configs(m, ctx.tier)[cfg]()
    also = ALSO.get(ctx.prop, ())
    for p in m.problems(env, cfg, ctx.tier):
        p = dict(p)
        title, args, ens = p.pop("title"), p.pop("args"), p.pop("ensures")
        req = p.pop("requires", None)
        props = p.pop("props", None)
        if props is not None and ctx.prop not in props and not (also and "C04" in props):
            continue
        ctx.prove(title, args, ens, req, also=also, **p)


def tasks(prop, tier, modules=None):
    out = {}
    for mod in modules or globals()['modules']():
        m = importlib.import_module("contracts." + mod)
        if hasattr(m, "PROPS") and prop not in m.PROPS:
            continue
        for cfg in _configs(m, tier):
            tid = f"{m.ENV}@{cfg}"
            if tid in out:   # two contract modules of one environment with the same configuration name: keep both
                tid = f"{m.ENV}@{cfg}#{mod}"
            out[tid] = (run_env, {"module": mod, "cfg": cfg})
    if prop in GENPOST_PROPS and modules is None:
        # the reset obligations of these properties ASSUME the generator's post-condition: discharge it on the real generator in the same check
        out.update(genpost_tasks(prop, tier))
    return out


import jax
import jax.numpy as jnp
import numpy as np

from contracts import common as K

KEY0 = jax.random.PRNGKey(0)


def _fresh():
    """see checks/C10.py: every switch between stub-traced proofs and native runs starts from empty jaxpr caches"""
    jax.clear_caches()


def _prove(ctx, *a, **kw):
    _fresh()
    try:
        return ctx.prove(*a, **kw)
    finally:
        _fresh()


# ======================================================================================================================
# the generator ESTABLISHES the precondition that the environment contracts ASSUME at reset
# ======================================================================================================================
# contracts/<env>.py prove `reset` with the generator replaced by a contract boundary: the generator's output is a symbolic state constrained by a
# predicate `gen_post` (the `requires` of that reset problem).  That predicate is an ASSUMED contract on a callee unless it is discharged on the real
# generator - which is done here, with the very same predicate object: symbolically (all keys = all sampler outcomes) where the generator is within the
# engine's reach, and as a bounded native stand-in (labelled) on real keys for every module.
GENPOST_PROPS = ("C01", "C04", "C06", "C07", "C12")   # properties whose reset clauses (bounds, mask, feasibility, consistency, views) rest on it
GENPOST = {  # module -> (symbolic?, extra ctx.prove options)
    "bin_pack": (False, {}), "cleaner": (False, {}), "connector": (True, {}), "flat_pack": (True, {}), "lbf": (True, {}), "maze": (False, {}),
    "mmst": (False, {}), "mmst_c04": (False, {}), "robot_warehouse": (True, {}), "rubiks_cube": (True, {}), "sliding_tile": (True, {}), "sokoban": (True, {}), "sudoku": (True, {}),
}


def _boundary_problems(module, cfg, tier):
    m = importlib.import_module("contracts." + module)
    env = _configs(m, tier)[cfg]()
    gen = getattr(env, "generator", None) or getattr(env, "_generator")
    ps = [p for p in m.problems(env, cfg, tier) if "generator replaced by its post-condition" in (p.get("note") or "")]
    return m, env, gen, ps


def run_genpost(ctx, module, cfg, nkeys, symbolic):
    _fresh()
    m, env, gen, ps = _boundary_problems(module, cfg, ctx.tier)
    name = f"{m.ENV}.{type(gen).__name__}@{cfg}"
    ctx.structural(f"{name}/{ctx.prop}.a_reset_precondition_is_stated_for_this_generator", len(ps) >= 1, "contract inventory",
                   detail={"reset problems with a generator boundary": [p["title"] for p in ps]})
    tgt = [type(gen).__call__]
    for p in ps:
        req = p["requires"]
        # bounded stand-in on real keys (every module)
        keys = jax.vmap(jax.random.PRNGKey)(jnp.arange(nkeys))
        vals = jax.jit(jax.vmap(lambda k: {kk: jnp.all(jnp.asarray(v)) for kk, v in req(gen(k), k).items()}))(keys)
        bad = {kk: [int(i) for i in np.nonzero(~np.asarray(v))[0][:5]] for kk, v in vals.items() if not bool(np.all(np.asarray(v)))}
        ctx.bounded_check(f"{name}/{ctx.prop}.generator_establishes_the_assumed_reset_precondition", nkeys, len(bad), f"native run on PRNGKey(0..{nkeys - 1})",
                          {"failing conjunct -> first failing keys": bad} if bad else None)
        _fresh()
        if module == "bin_pack":
            # symbolic, all keys: RandomGenerator.__call__ with the splitting LOOP as a contract boundary - it returns symbolic item spaces and mask
            # constrained by the loop invariant, whose preservation by the loop body is the obligation `split_step` (for the same max_num_items)
            # and whose base case is `splitting_starts_from_the_container_as_the_only_item`
            from jumanji.environments.packing.bin_pack.generator import RandomGenerator as BG
            from jumanji.environments.packing.bin_pack.space import Space
            NI = gen.max_num_items
            from contracts.bin_pack import split_loop_inv
            linv = split_loop_inv(NI, gen.container_dims)
            F6 = ("x1", "x2", "y1", "y2", "z1", "z2")

            def breq(key, sp, mk):
                return {**linv(sp, mk), "at_least_one_item": jnp.any(mk)}

            def bens(key, sp, mk, _req=req):
                with K.with_attr(gen, "_split_container_into_items_spaces", lambda container, k: (Space(**sp.__dict__), mk)):
                    g = gen(key)
                return {**{ctx.prop + ".reset_precondition." + kk: v for kk, v in _req(g, key).items()}, "canary.first_item_is_valid": g.items_mask[0]}

            sp0 = Space(**{k: jnp.zeros((NI,), jnp.int32) for k in F6})
            _prove(ctx, f"{name}.establishes_reset_precondition(splitting loop as boundary)", (KEY0, sp0, jnp.zeros((NI,), bool)), bens, breq,
                   targets=[BG.__call__, BG._generate_solved_instance, BG._unpack_items], merge_over=16)
        if symbolic:
            def ens(key, _req=req):
                return {ctx.prop + ".reset_precondition." + kk: v for kk, v in _req(gen(key), key).items()}
            _prove(ctx, f"{name}.establishes_reset_precondition", (KEY0,), ens, targets=tgt, merge_over=16, **GENPOST[module][1])


def genpost_tasks(prop, tier):
    out = {}
    for module, (symbolic, _) in GENPOST.items():
        m = importlib.import_module("contracts." + module)
        if hasattr(m, "PROPS") and prop not in m.PROPS and prop != "C10":
            continue
        for cfg in _configs(m, tier):
            out[f"genpost:{m.ENV}@{cfg}"] = (run_genpost, {"module": module, "cfg": cfg, "nkeys": 64 if tier == "quick" else 512, "symbolic": symbolic})
    return out


