"""Engine J: symbolic evaluation of jaxprs (JAX's own extraction of the real code) to z3 terms.

Every array is a numpy object array whose elements are either Python constants (bool/int/float, which fold)
or z3 terms (Bool / Int / Real) or `Key` objects (typed PRNG keys).  Unsupported primitives are havocked
(fresh unconstrained outputs, recorded in `self.havocked`).

Semantics assumed (see DESIGN.md section 4): integers are mathematical integers constrained to their dtype
range on input (no wrap-around modelling; narrowing conversions are identity), floats are reals.
"""
import itertools
import math
import os
from fractions import Fraction

import numpy as np
import z3
from jax import core

# --------------------------------------------------------------------------------------------------
# scalar helpers


def is_c(x):
    return isinstance(x, (bool, int, float, np.bool_, np.integer, np.floating, Fraction))


def cv(x):
    if isinstance(x, np.bool_):
        return bool(x)
    if isinstance(x, np.integer):
        return int(x)
    if isinstance(x, np.floating):
        return float(x)
    return x


class Key:
    """A typed PRNG key: two integer terms."""

    __slots__ = ("k0", "k1")

    def __init__(self, k0, k1):
        self.k0, self.k1 = k0, k1

    def __repr__(self):
        return f"Key({self.k0},{self.k1})"


def kind(dtype):
    try:
        dtype = np.dtype(dtype)
    except TypeError:
        return "k"  # extended dtype (prng key)
    if dtype == np.bool_:
        return "b"
    if np.issubdtype(dtype, np.integer):
        return "i"
    if np.issubdtype(dtype, np.floating):
        return "f"
    return "k"


def zint(x):
    if is_c(x):
        return z3.IntVal(int(cv(x)))
    return x


def zreal(x):
    if is_c(x):
        x = cv(x)
        if isinstance(x, Fraction):
            return z3.RealVal(str(x))
        if isinstance(x, float):
            if math.isinf(x) or math.isnan(x):
                raise NotImplementedError("non-finite float constant in a symbolic context")
            if x.is_integer():
                return z3.RealVal(int(x))
            return z3.RealVal(str(Fraction(x)))
        return z3.RealVal(int(x))
    if z3.is_int(x):
        return z3.ToReal(x)
    return x


def zbool(x):
    if is_c(x):
        return z3.BoolVal(bool(x))
    return x


def lift(x, k):
    return {"b": zbool, "i": zint, "f": zreal}[k](x)


def same(a, b):
    if is_c(a) and is_c(b):
        return type(cv(a)) == type(cv(b)) and cv(a) == cv(b)
    if is_c(a) or is_c(b):
        return False
    if isinstance(a, Key) or isinstance(b, Key):
        return isinstance(a, Key) and isinstance(b, Key) and same(a.k0, b.k0) and same(a.k1, b.k1)
    return a.eq(b)


def ite(c, a, b, k):
    if is_c(c):
        return a if c else b
    if z3.is_not(c):  # normal form: positive condition
        c, a, b = c.arg(0), b, a
    if k == "k":
        if same(a, b):
            return a
        return Key(ite(c, a.k0, b.k0, "i"), ite(c, a.k1, b.k1, "i"))
    if is_c(a) and is_c(b) and cv(a) == cv(b):
        return a
    if (not is_c(a)) and (not is_c(b)) and a.eq(b):
        return a
    if k == "b":
        if is_c(a) and is_c(b):
            return c if a else z3.Not(c)
        if is_c(a):
            return z3.Or(c, b) if a else z3.And(z3.Not(c), b)
        if is_c(b):
            return z3.And(c, a) if not b else z3.Or(z3.Not(c), a)
    return z3.If(c, lift(a, k), lift(b, k))


def b_and(a, b):
    if is_c(a):
        return b if a else False
    if is_c(b):
        return a if b else False
    if a.eq(b):
        return a
    return z3.And(a, b)


def b_or(a, b):
    if is_c(a):
        return True if a else b
    if is_c(b):
        return True if b else a
    if a.eq(b):
        return a
    return z3.Or(a, b)


def b_not(a):
    if is_c(a):
        return not a
    if z3.is_not(a):
        return a.arg(0)
    return z3.Not(a)


def b_xor(a, b):
    if is_c(a):
        return b_not(b) if a else b
    if is_c(b):
        return b_not(a) if b else a
    return z3.Xor(a, b)


def _isinf(x):
    return is_c(x) and isinstance(cv(x), float) and math.isinf(cv(x))


def _isnan(x):
    return is_c(x) and isinstance(cv(x), float) and math.isnan(cv(x))


def _trunc_div_c(a, b):
    q = abs(a) // abs(b)
    return q if (a >= 0) == (b >= 0) else -q


class Unsupported(Exception):
    pass


FMUL_UF = [False]  # when True, products of two symbolic reals become a commutative uninterpreted function
_FMUL = None


def fmul(a, b):
    global _FMUL
    if _FMUL is None:
        _FMUL = z3.Function("fmul", z3.RealSort(), z3.RealSort(), z3.RealSort())
    x, y = (a, b) if a.get_id() <= b.get_id() else (b, a)
    return _FMUL(x, y)


def arith(op, a, b, k):
    if k == "b":
        if op in ("add", "max"):
            return b_or(a, b)
        if op in ("mul", "min"):
            return b_and(a, b)
        raise Unsupported("bool arith " + op)
    if k == "f" and (_isinf(a) or _isinf(b)) and not (is_c(a) and is_c(b)):
        x, y = (a, b) if _isinf(a) else (b, a)
        pos = cv(x) > 0
        if op == "max":
            return x if pos else y
        if op == "min":
            return y if pos else x
        raise Unsupported("inf arithmetic " + op)
    if k == "i" and op in ("add", "sub", "mul", "max", "min", "div", "rem"):
        for x, y, flip in ((a, b, False), (b, a, True)):
            if "arith" in TREE_OPS and is_c(y) and not is_c(x) and not isinstance(x, Key) and const_tree(x):
                return tree_map(x, (lambda v: arith(op, y, v, k)) if flip else (lambda v: arith(op, v, y, k)), k)
    if is_c(a) and is_c(b):
        a, b = cv(a), cv(b)
        if op == "add":
            return a + b
        if op == "sub":
            return a - b
        if op == "mul":
            return a * b
        if op == "max":
            return max(a, b)
        if op == "min":
            return min(a, b)
        if op == "div":
            if k == "i":
                if b == 0:
                    return -1
                return _trunc_div_c(a, b)
            if b == 0:
                if a == 0:
                    return float("nan")
                return math.copysign(float("inf"), a) * (math.copysign(1.0, b))
            return a / b
        if op == "rem":
            if k == "i":
                if b == 0:
                    return a
                return a - b * _trunc_div_c(a, b)
            return math.fmod(a, b)
    if op == "add":
        if is_c(a) and a == 0:
            return b
        if is_c(b) and b == 0:
            return a
        return lift(a, k) + lift(b, k)
    if op == "sub":
        if is_c(b) and b == 0:
            return a
        if (not is_c(a)) and (not is_c(b)) and a.eq(b):
            return 0 if k == "i" else 0.0
        return lift(a, k) - lift(b, k)
    if op == "mul":
        if is_c(a) and a == 0:
            return a
        if is_c(b) and b == 0:
            return b
        if is_c(a) and a == 1:
            return b
        if is_c(b) and b == 1:
            return a
        if k == "f" and FMUL_UF[0] and not is_c(a) and not is_c(b):
            return fmul(lift(a, k), lift(b, k))
        return lift(a, k) * lift(b, k)
    if op == "max":
        A, B = lift(a, k), lift(b, k)
        if A.eq(B):
            return a
        return z3.If(A >= B, A, B)
    if op == "min":
        A, B = lift(a, k), lift(b, k)
        if A.eq(B):
            return a
        return z3.If(A <= B, A, B)
    if op == "div":
        if k == "f":
            if is_c(b) and b != 0 and not _isinf(b):
                return lift(a, k) * zreal(Fraction(1) / Fraction(cv(b)))
            return lift(a, k) / lift(b, k)
        A, B = lift(a, k), lift(b, k)
        if is_c(b):
            b = cv(b)
            if b == 0:
                return -1
            if b > 0:
                return z3.If(A >= 0, A / b, -((-A) / b))
            return z3.If(A >= 0, -(A / (-b)), (-A) / (-b))
        q = z3.If(A >= 0, z3.If(B > 0, A / B, -(A / (-B))), z3.If(B > 0, -((-A) / B), (-A) / (-B)))
        return z3.If(B == 0, z3.IntVal(-1), q)
    if op == "rem":
        if k != "i":
            raise Unsupported("float rem")
        A, B = lift(a, k), lift(b, k)
        if is_c(b):
            b = cv(b)
            if b == 0:
                return a
            m = abs(b)
            return z3.If(A >= 0, A % m, -((-A) % m))
        absb = z3.If(B >= 0, B, -B)
        r = z3.If(A >= 0, A % absb, -((-A) % absb))
        return z3.If(B == 0, A, r)
    raise Unsupported(op)


def cmp(op, a, b, k):
    if k == "k":
        e = b_and(cmp("eq", a.k0, b.k0, "i"), cmp("eq", a.k1, b.k1, "i"))
        if op == "eq":
            return e
        if op == "ne":
            return b_not(e)
        raise Unsupported("key compare")
    if k == "f":
        if _isnan(a) or _isnan(b):
            return op == "ne"
        if _isinf(a) and not is_c(b):
            pos = cv(a) > 0  # b is a finite real
            return {"lt": not pos, "le": not pos, "gt": pos, "ge": pos, "eq": False, "ne": True}[op]
        if _isinf(b) and not is_c(a):
            pos = cv(b) > 0
            return {"lt": pos, "le": pos, "gt": not pos, "ge": not pos, "eq": False, "ne": True}[op]
    if is_c(a) and is_c(b):
        a, b = cv(a), cv(b)
        return {"lt": a < b, "le": a <= b, "gt": a > b, "ge": a >= b, "eq": a == b, "ne": a != b}[op]
    if k == "b":
        if op == "eq":
            return b_not(b_xor(a, b))
        if op == "ne":
            return b_xor(a, b)
        A, B = zbool(a), zbool(b)  # False < True
        if op == "lt":
            return b_and(b_not(A), B)
        if op == "gt":
            return b_and(A, b_not(B))
        if op == "le":
            return b_or(b_not(A), B)
        if op == "ge":
            return b_or(A, b_not(B))
    if k in ("i", "f"):
        # comparison of If(c, const, const) with a constant folds to c / Not(c) / a constant
        for x, y, flip in ((a, b, False), (b, a, True)):
            if is_c(y) and not is_c(x) and z3.is_app_of(x, z3.Z3_OP_ITE) and _is_num(x.arg(1)) and _is_num(x.arg(2)):
                # comparison of If(c, const, const) with a constant folds to c / Not(c) / a constant
                v1, v2 = _num(x.arg(1)), _num(x.arg(2))
                o = {"lt": "gt", "le": "ge", "gt": "lt", "ge": "le"}.get(op, op) if flip else op
                return ite(x.arg(0), cmp(o, v1, y, k), cmp(o, v2, y, k), "b")
            if "cmp" in TREE_OPS and is_c(y) and not is_c(x) and const_tree(x):
                # deeper decision tree: only when EVERY leaf gives the same answer (e.g. `index < 0` for an index read from a table of
                # non-negative constants); distributing a comparison whose answer varies turns a small arithmetic atom into a large boolean
                # structure that slows the solver down (measured on BinPack: 25 s -> more than 900 s)
                o = {"lt": "gt", "le": "ge", "gt": "lt", "ge": "le"}.get(op, op) if flip else op
                r = tree_map(x, lambda v: cmp(o, v, y, k), "b")
                if is_c(r):
                    if os.environ.get("JXV_DEBUG_TREE"):
                        print("TREEFOLD", o, y, r, str(x)[:300].replace("\n", " "), flush=True)
                    return r
    A, B = lift(a, k), lift(b, k)
    if A.eq(B):
        return op in ("le", "ge", "eq")
    return {"lt": A < B, "le": A <= B, "gt": A > B, "ge": A >= B, "eq": A == B, "ne": A != B}[op]


def _is_num(t):
    return z3.is_int_value(t) or z3.is_rational_value(t)


def _num(t):
    if z3.is_int_value(t):
        return t.as_long()
    return Fraction(t.numerator_as_long(), t.denominator_as_long())


TREE_LIMIT = int(os.environ.get("JXV_TREE_LIMIT", "128"))
TREE_OPS = os.environ.get("JXV_TREE_OPS", "arith,index").split(",")   # "cmp" (see cmp()) is off: it slows BinPack down by orders of magnitude


def const_tree(t):
    """t is an ITE tree (arbitrary conditions) all of whose leaves are numerals, with at most TREE_LIMIT leaves (counted with multiplicity)"""
    if is_c(t) or isinstance(t, Key) or not z3.is_app_of(t, z3.Z3_OP_ITE):
        return False
    n = 0
    stack = [t]
    while stack:
        x = stack.pop()
        if _is_num(x):
            n += 1
            if n > TREE_LIMIT:
                return False
        elif z3.is_app_of(x, z3.Z3_OP_ITE):
            stack.append(x.arg(1))
            stack.append(x.arg(2))
        else:
            return False
    return True


def tree_map(t, f, k):
    """rebuild the ITE tree `t` (see const_tree) with f(numeral) at the leaves; `ite` folds equal branches, so the result is often smaller.
    Distributing an operation with a constant operand (or an array read) over such a tree keeps index computations that come out of constant
    tables (`table[a]` for a symbolic a) as small decision trees instead of nested ite chains."""
    memo = {}

    def go(x):
        if _is_num(x):
            return f(_num(x))
        i = x.get_id()
        if i not in memo:
            memo[i] = ite(x.arg(0), go(x.arg(1)), go(x.arg(2)), k)
        return memo[i]

    return go(t)


def convert(x, kfrom, kto):
    if kfrom == kto:
        return x
    if is_c(x):
        x = cv(x)
        if kto == "i" and isinstance(x, float):
            if math.isnan(x) or math.isinf(x):
                raise Unsupported("non-finite float to int")
            return int(x)
        return {"b": bool, "i": int, "f": float}[kto](x)
    if kfrom == "b":
        return z3.If(x, lift(1, kto), lift(0, kto))
    if kto == "b":
        return x != 0
    if kfrom == "i" and kto == "f":
        # If(c, 1, 0) -> If(c, 1.0, 0.0) keeps formulas small
        if z3.is_app_of(x, z3.Z3_OP_ITE) and z3.is_int_value(x.arg(1)) and z3.is_int_value(x.arg(2)):
            return z3.If(x.arg(0), z3.RealVal(x.arg(1).as_long()), z3.RealVal(x.arg(2).as_long()))
        return z3.ToReal(x)
    if kfrom == "f" and kto == "i":
        if z3.is_app_of(x, z3.Z3_OP_TO_REAL):
            return x.arg(0)
        return z3.If(x >= 0, z3.ToInt(x), -z3.ToInt(-x))
    raise Unsupported((kfrom, kto))


def obj(a):
    """concrete numpy/jax array -> object array of python scalars"""
    a = np.asarray(a)
    out = np.empty(a.shape, dtype=object)
    if a.shape == ():
        out[()] = cv(a[()])
        return out
    flat = out.reshape(-1)
    for i, v in enumerate(a.reshape(-1).tolist()):
        flat[i] = v
    return out


def vmap2(f, a, b):
    a, b = np.broadcast_arrays(a, b)
    out = np.empty(a.shape, dtype=object)
    fo, fa, fb = out.reshape(-1), a.reshape(-1), b.reshape(-1)
    for i in range(fo.shape[0]):
        fo[i] = f(fa[i], fb[i])
    return out


def vmap1(f, a):
    out = np.empty(a.shape, dtype=object)
    fo, fa = out.reshape(-1), a.reshape(-1)
    for i in range(fo.shape[0]):
        fo[i] = f(fa[i])
    return out


def as_arr(v):
    if isinstance(v, np.ndarray) and v.dtype == object:
        return v
    if isinstance(v, np.ndarray) or (hasattr(v, "shape") and hasattr(v, "dtype")):
        if kind(v.dtype) == "k":
            import jax
            d = np.asarray(jax.random.key_data(v))
            o = np.empty(d.shape[:-1], dtype=object)
            for idx in np.ndindex(*o.shape):
                o[idx] = Key(int(d[idx + (0,)]), int(d[idx + (1,)]))
            return o
        return obj(v)
    a = np.empty((), dtype=object)
    a[()] = v
    return a


def dtype_range(dtype):
    info = np.iinfo(np.dtype(dtype))
    return int(info.min), int(info.max)


def wrap_consts(arr, dtype):
    """two's-complement wrap-around of the CONSTANT elements (and of the numeral leaves of decision trees, see const_tree) of an integer result.
    Symbolic integer terms stay mathematical integers (stated assumption: inputs are range-constrained, no wrap-around modelling); constants
    are folded the way the machine does, so that tables of narrow dtypes (int8 index tables that overflow, ...) behave as in JAX."""
    dt = np.dtype(dtype)
    if not np.issubdtype(dt, np.integer):
        return arr
    lo, hi = dtype_range(dt)
    span = hi - lo + 1

    def w(v):
        v = int(v)
        return v if lo <= v <= hi else (v - lo) % span + lo

    out = arr
    for idx in np.ndindex(*arr.shape):
        x = arr[idx]
        if isinstance(x, (bool, np.bool_)) or isinstance(x, Key):
            continue
        if is_c(x):
            if isinstance(cv(x), int) and not (lo <= cv(x) <= hi):
                if out is arr:
                    out = arr.copy()
                out[idx] = w(cv(x))
        elif const_tree(x):
            y = tree_map(x, w, "i")
            if y is not x:
                if out is arr:
                    out = arr.copy()
                out[idx] = y
    return out


_SORT = {"b": z3.BoolSort, "i": z3.IntSort, "f": z3.RealSort}
_MK = {"b": z3.Bool, "i": z3.Int, "f": z3.Real}


class Sym:
    def __init__(self, while_bound=16):
        self.nfresh = 0
        self.side = []  # (name, term): side obligations (unwinding assertions)
        self.while_bound = while_bound
        self.assumes = []  # type/range facts and assumed contracts of externals
        self.havocked = {}  # primitive name -> count
        self.havoc_vars = set()
        self.uses = set()  # assumption tags actually used (float arithmetic, externals, ...)
        self.inputs = {}  # var name -> (leaf index, index tuple, kind)
        self.ext_memo = {}
        self.ext_log = []  # (name, uid, [out arrays])
        self.loop_depth = 0
        self.ext_handlers = {}
        self.uf_cache = {}

    # ---- variables ----
    def fresh_var(self, name, k):
        self.nfresh += 1
        n = f"{name}!{self.nfresh}"
        if k == "k":
            return Key(z3.Int(n + ".0"), z3.Int(n + ".1"))
        return _MK[k](n)

    def fresh_array(self, name, shape, dtype, constrain=True):
        k = kind(dtype)
        out = np.empty(tuple(shape), dtype=object)
        for idx in np.ndindex(*out.shape):
            v = self.fresh_var(name, k)
            out[idx] = v
            if k == "i" and constrain:
                lo, hi = dtype_range(dtype)
                self.assumes.append(v >= lo)
                self.assumes.append(v <= hi)
            if k == "k" and constrain:
                for t in (v.k0, v.k1):
                    self.assumes += [t >= 0, t < 2**32]
        return out

    def sym_array(self, name, shape, dtype, leaf=None):
        """Named input array (each element a free variable constrained to the dtype's range)."""
        k = kind(dtype)
        out = np.empty(tuple(shape), dtype=object)
        for idx in np.ndindex(*out.shape):
            n = name + "".join(f"_{i}" for i in idx)
            if k == "k":
                v = Key(z3.Int(n + ".k0"), z3.Int(n + ".k1"))
                for w, t in enumerate((v.k0, v.k1)):
                    self.assumes += [t >= 0, t < 2**32]
                    self.inputs[n + f".k{w}"] = (leaf, idx + (w,), "i")
            else:
                v = _MK[k](n)
                self.inputs[n] = (leaf, idx, k)
                if k == "i":
                    lo, hi = dtype_range(dtype)
                    self.assumes.append(v >= lo)
                    self.assumes.append(v <= hi)
            out[idx] = v
        return out

    def havoc(self, e):
        self.havocked[e.primitive.name] = self.havocked.get(e.primitive.name, 0) + 1
        outs = []
        for v in e.outvars:
            arr = self.fresh_array("havoc_" + e.primitive.name, v.aval.shape, v.aval.dtype, constrain=False)
            for x in arr.reshape(-1):
                if isinstance(x, Key):
                    self.havoc_vars.update((str(x.k0), str(x.k1)))
                else:
                    self.havoc_vars.add(str(x))
            outs.append(arr)
        return outs

    # ---- evaluation ----
    def eval_closed(self, cj, *args):
        return self.eval(cj.jaxpr, [as_arr(c) for c in cj.consts], *args)

    def eval(self, jaxpr, consts, *args):
        env = {}

        def read(v):
            if isinstance(v, core.Literal):
                return obj(v.val)
            return env[v]

        for v, c in zip(jaxpr.constvars, consts):
            env[v] = c
        assert len(jaxpr.invars) == len(args), (len(jaxpr.invars), len(args))
        for v, a in zip(jaxpr.invars, args):
            env[v] = a
        for e in jaxpr.eqns:
            ins = [read(v) for v in e.invars]
            h = getattr(self, "p_" + e.primitive.name.replace("-", "_"), None)
            outs = None
            if h is not None:
                try:
                    outs = h(e, *ins)
                    if not e.primitive.multiple_results:
                        outs = [outs]
                except (Unsupported, NotImplementedError, z3.Z3Exception) as ex:
                    outs = None
                    self.last_unsupported = (e.primitive.name, repr(ex)[:200])
            if outs is None:
                outs = self.havoc(e)
            for v, o in zip(e.outvars, outs):
                o = as_arr(o)
                if o.shape != tuple(v.aval.shape):
                    raise AssertionError((e.primitive.name, o.shape, v.aval.shape))
                env[v] = o
        return [read(v) for v in jaxpr.outvars]

    @staticmethod
    def k_in(e, i=0):
        return kind(e.invars[i].aval.dtype)

    @staticmethod
    def k_out(e, i=0):
        return kind(e.outvars[i].aval.dtype)

    # ---- structural ----
    def p_broadcast_in_dim(self, e, x, *dyn):
        shape, bdims = e.params["shape"], e.params["broadcast_dimensions"]
        src = x.reshape([x.shape[bdims.index(d)] if d in bdims else 1 for d in range(len(shape))])
        return np.broadcast_to(src, shape).copy()

    def p_reshape(self, e, x, *a):
        return x.reshape(e.params["new_sizes"])

    def p_squeeze(self, e, x):
        return np.squeeze(x, axis=tuple(e.params["dimensions"]))

    def p_expand_dims(self, e, x):
        return np.expand_dims(x, e.params["dimensions"])

    def p_transpose(self, e, x):
        return np.transpose(x, e.params["permutation"])

    def p_rev(self, e, x):
        return np.flip(x, axis=tuple(e.params["dimensions"]))

    def p_concatenate(self, e, *xs):
        return np.concatenate(xs, axis=e.params["dimension"])

    def p_copy(self, e, x):
        return x

    def p_copy_p(self, e, x):
        return x

    def p_device_put(self, e, *xs):
        return list(xs)

    def p_stop_gradient(self, e, x):
        return x

    def p_reduce_precision(self, e, x):
        return x

    def p_real(self, e, x):
        return x

    def p_slice(self, e, x):
        st = e.params["strides"] or [1] * x.ndim
        return x[tuple(slice(a, b, s) for a, b, s in zip(e.params["start_indices"], e.params["limit_indices"], st))]

    def p_iota(self, e):
        shape, dim = e.params["shape"], e.params["dimension"]
        out = np.empty(shape, dtype=object)
        k = self.k_out(e)
        for idx in np.ndindex(*shape):
            out[idx] = idx[dim] if k == "i" else float(idx[dim])
        return out

    def p_pad(self, e, x, pv):
        cfg = e.params["padding_config"]
        if not all(i == 0 for lo, hi, i in cfg):
            raise Unsupported("interior padding")
        # negative padding crops
        sl = []
        for (lo, hi, _), s in zip(cfg, x.shape):
            sl.append(slice(max(-lo, 0), s - max(-hi, 0)))
        x = x[tuple(sl)]
        cfg = [(max(lo, 0), max(hi, 0), 0) for lo, hi, _ in cfg]
        shape = [lo + s + hi for (lo, hi, _), s in zip(cfg, x.shape)]
        out = np.empty(shape, dtype=object)
        out[...] = pv[()]
        out[tuple(slice(lo, lo + s) for (lo, _, _), s in zip(cfg, x.shape))] = x
        return out

    def p_convert_element_type(self, e, x):
        kf, kt = self.k_in(e), kind(e.params["new_dtype"])
        if kf == "f" and kt == "i":
            self.uses.add("float_as_real")
        out = vmap1(lambda v: convert(v, kf, kt), x)
        return wrap_consts(out, e.params["new_dtype"]) if kt == "i" and kf in ("i", "b") else out

    def p_pjit(self, e, *xs):
        return self.eval_closed(e.params["jaxpr"], *xs)

    def p_custom_jvp_call(self, e, *xs):
        return self.eval_closed(e.params["call_jaxpr"], *xs)

    def p_custom_vjp_call_jaxpr(self, e, *xs):
        return self.eval_closed(e.params["fun_jaxpr"], *xs)

    def p_closed_call(self, e, *xs):
        return self.eval_closed(e.params["call_jaxpr"], *xs)

    def p_core_call(self, e, *xs):
        return self.eval(e.params["call_jaxpr"], [], *xs)

    def p_remat(self, e, *xs):
        return self.eval(e.params["jaxpr"], [], *xs)

    p_checkpoint = p_remat

    # ---- elementwise ----
    def _bin(self, op, e, a, b):
        k = self.k_out(e)
        if k == "f":
            self.uses.add("float_as_real")
        out = vmap2(lambda x, y: arith(op, x, y, k), a, b)
        return wrap_consts(out, e.outvars[0].aval.dtype) if k == "i" and op in ("add", "sub", "mul") else out

    def p_add(self, e, a, b):
        return self._bin("add", e, a, b)

    def p_sub(self, e, a, b):
        return self._bin("sub", e, a, b)

    def p_mul(self, e, a, b):
        return self._bin("mul", e, a, b)

    def p_max(self, e, a, b):
        k = self.k_out(e)
        return vmap2(lambda x, y: arith("max", x, y, k), a, b)

    def p_min(self, e, a, b):
        k = self.k_out(e)
        return vmap2(lambda x, y: arith("min", x, y, k), a, b)

    def p_div(self, e, a, b):
        return self._bin("div", e, a, b)

    def p_rem(self, e, a, b):
        return self._bin("rem", e, a, b)

    def p_neg(self, e, a):
        k = self.k_out(e)
        out = vmap1(lambda x: arith("sub", 0 if k == "i" else 0.0, x, k) if not is_c(x) else -cv(x), a)
        return wrap_consts(out, e.outvars[0].aval.dtype) if k == "i" else out

    def p_sign(self, e, a):
        k = self.k_out(e)

        def f(x):
            if is_c(x):
                x = cv(x)
                r = (x > 0) - (x < 0)
                return r if k == "i" else float(r)
            return z3.If(x > 0, lift(1, k), z3.If(x < 0, lift(-1, k), lift(0, k)))

        return vmap1(f, a)

    def p_abs(self, e, a):
        return vmap1(lambda x: abs(cv(x)) if is_c(x) else z3.If(x >= 0, x, -x), a)

    def p_floor(self, e, a):
        self.uses.add("float_as_real")
        return vmap1(lambda x: float(math.floor(cv(x))) if is_c(x) else z3.ToReal(z3.ToInt(x)), a)

    def p_ceil(self, e, a):
        self.uses.add("float_as_real")
        return vmap1(lambda x: float(math.ceil(cv(x))) if is_c(x) else -z3.ToReal(z3.ToInt(-x)), a)

    def p_round(self, e, a):
        self.uses.add("float_as_real")
        method = int(e.params["rounding_method"])

        def f(x):
            if is_c(x):
                x = cv(x)
                if method == 1:
                    return float(round(x))
                return float(math.floor(abs(x) + 0.5) * (1 if x >= 0 else -1))
            fl = z3.ToInt(x)
            frac = x - z3.ToReal(fl)
            if method == 0:  # away from zero
                r = z3.If(x >= 0, z3.If(frac >= 0.5, fl + 1, fl), z3.If(frac > 0.5, fl + 1, fl))
            else:  # to nearest even
                r = z3.If(frac > 0.5, fl + 1, z3.If(frac < 0.5, fl, z3.If(fl % 2 == 0, fl, fl + 1)))
            return z3.ToReal(r)

        return vmap1(f, a)

    def p_is_finite(self, e, a):
        return vmap1(lambda x: (not (math.isinf(cv(x)) or math.isnan(cv(x)))) if is_c(x) else True, a)

    def p_integer_pow(self, e, a):
        y = e.params["y"]
        k = self.k_out(e)
        if k == "f":
            self.uses.add("float_as_real")
        if y < 0:
            raise Unsupported("negative integer_pow")

        def f(x):
            r = 1 if k == "i" else 1.0
            for _ in range(y):
                r = arith("mul", r, x, k)
            return r

        return vmap1(f, a)

    def p_square(self, e, a):
        k = self.k_out(e)
        return vmap1(lambda x: arith("mul", x, x, k), a)

    def _uf1(self, name, e, a, axioms=None):
        self.uses.add("float_as_real")
        self.uses.add("uninterpreted:" + name)
        F = self._func(name, z3.RealSort(), z3.RealSort())

        def f(x):
            if is_c(x):
                try:
                    return float(getattr(math, name)(cv(x)))
                except (ValueError, OverflowError):
                    raise Unsupported(name + " of bad constant")
            t = F(zreal(x))
            if axioms:
                self.assumes.extend(axioms(x, t))
            return t

        return vmap1(f, a)

    def _func(self, name, *sorts):
        key = (name, len(sorts))  # names encode their signature (see uf_apply / _keyfun)
        if key not in self.uf_cache:
            self.uf_cache[key] = z3.Function(name, *sorts)
        return self.uf_cache[key]

    def p_sqrt(self, e, a):
        return self._uf1("sqrt", e, a, lambda x, t: [t >= 0])

    def p_exp(self, e, a):
        return self._uf1("exp", e, a, lambda x, t: [t > 0])

    def p_log(self, e, a):
        return self._uf1("log", e, a)

    def p_log1p(self, e, a):
        return self._uf1("log1p", e, a)

    def p_tanh(self, e, a):
        return self._uf1("tanh", e, a)

    def p_sin(self, e, a):
        return self._uf1("sin", e, a)

    def p_cos(self, e, a):
        return self._uf1("cos", e, a)

    def p_rsqrt(self, e, a):
        raise Unsupported("rsqrt")

    def p_pow(self, e, a, b):
        self.uses.add("float_as_real")
        F = self._func("pow", z3.RealSort(), z3.RealSort(), z3.RealSort())

        def f(x, y):
            if is_c(x) and is_c(y):
                return float(cv(x)) ** float(cv(y))
            self.uses.add("uninterpreted:pow")
            return F(zreal(x), zreal(y))

        return vmap2(f, a, b)

    def _cmp(self, op, e, a, b):
        k = self.k_in(e)
        return vmap2(lambda x, y: cmp(op, x, y, k), a, b)

    def p_lt(self, e, a, b):
        return self._cmp("lt", e, a, b)

    def p_le(self, e, a, b):
        return self._cmp("le", e, a, b)

    def p_gt(self, e, a, b):
        return self._cmp("gt", e, a, b)

    def p_ge(self, e, a, b):
        return self._cmp("ge", e, a, b)

    def p_eq(self, e, a, b):
        return self._cmp("eq", e, a, b)

    def p_ne(self, e, a, b):
        return self._cmp("ne", e, a, b)

    # bitwise on ints: exact for the cases handled, Unsupported (havoc) otherwise
    def _int_bits(self, e):
        dt = np.dtype(e.outvars[0].aval.dtype)
        return dt.itemsize * 8, np.issubdtype(dt, np.signedinteger)

    def p_and(self, e, a, b):
        if self.k_out(e) == "b":
            return vmap2(b_and, a, b)
        w, signed = self._int_bits(e)

        def f(x, y):
            if is_c(x) and is_c(y):
                return int(cv(x)) & int(cv(y))
            if is_c(x):
                x, y = y, x
            if is_c(y):
                y = int(cv(y))
                if y >= 0 and (y + 1) & y == 0:
                    return zint(x) % (y + 1)  # low bits: euclidean mod is two's-complement exact
            raise Unsupported("int and")

        return vmap2(f, a, b)

    def p_or(self, e, a, b):
        if self.k_out(e) == "b":
            return vmap2(b_or, a, b)

        def f(x, y):
            if is_c(x) and is_c(y):
                return int(cv(x)) | int(cv(y))
            raise Unsupported("int or")

        return vmap2(f, a, b)

    def p_xor(self, e, a, b):
        if self.k_out(e) == "b":
            return vmap2(b_xor, a, b)

        def f(x, y):
            if is_c(x) and is_c(y):
                return int(cv(x)) ^ int(cv(y))
            raise Unsupported("int xor")

        return vmap2(f, a, b)

    def p_not(self, e, a):
        if self.k_out(e) == "b":
            return vmap1(b_not, a)
        w, signed = self._int_bits(e)

        def f(x):
            if signed:
                return arith("sub", -1, x, "i")  # ~x = -x-1
            return arith("sub", 2**w - 1, x, "i")

        return vmap1(f, a)

    def p_shift_right_logical(self, e, a, b):
        w, signed = self._int_bits(e)

        def f(x, y):
            if not is_c(y):
                raise Unsupported("symbolic shift")
            y = int(cv(y))
            if is_c(x):
                x = int(cv(x))
                return (x % (2**w)) >> y if y < w else 0
            if y >= w:
                return 0
            X = zint(x)
            if signed:
                X = z3.If(X >= 0, X, X + 2**w)
            return X / (2**y)

        return vmap2(f, a, b)

    def p_shift_left(self, e, a, b):
        w, signed = self._int_bits(e)

        def f(x, y):
            if not is_c(y):
                raise Unsupported("symbolic shift")
            y = int(cv(y))
            if y >= w:
                return 0
            if is_c(x):
                r = (int(cv(x)) << y) % (2**w)
                return r - 2**w if signed and r >= 2 ** (w - 1) else r
            r = (zint(x) * (2**y)) % (2**w)
            return z3.If(r >= 2 ** (w - 1), r - 2**w, r) if signed else r

        return vmap2(f, a, b)

    def p_select_n(self, e, c, *cases):
        k = self.k_out(e)
        kc = self.k_in(e)
        shape = cases[0].shape
        c = np.broadcast_to(c, shape)
        out = np.empty(shape, dtype=object)
        fo, fc = out.reshape(-1), c.reshape(-1)
        fcases = [x.reshape(-1) for x in cases]
        if kc == "b":
            assert len(cases) == 2
            for i in range(fo.shape[0]):
                fo[i] = ite(fc[i], fcases[1][i], fcases[0][i], k)
            return out
        for i in range(fo.shape[0]):
            r = fcases[-1][i]
            for j in range(len(cases) - 2, -1, -1):
                r = ite(cmp("eq", fc[i], j, "i"), fcases[j][i], r, k)
            fo[i] = r
        return out

    def p_clamp(self, e, lo, x, hi):
        k = self.k_out(e)
        lo, x, hi = np.broadcast_arrays(lo, x, hi)
        return vmap2(lambda a, b: arith("min", a, b, k), vmap2(lambda a, b: arith("max", a, b, k), x, lo), hi)

    # ---- reductions ----
    def _reduce(self, e, x, f, init):
        axes = tuple(e.params["axes"])
        moved = np.moveaxis(x, axes, tuple(range(len(axes))))
        rest = moved.shape[len(axes):]
        flat = moved.reshape((-1,) + rest)
        out = np.empty(rest, dtype=object)
        for idx in np.ndindex(*rest):
            r = init
            first = init is None
            for j in range(flat.shape[0]):
                v = flat[(j,) + idx]
                if first:
                    r, first = v, False
                else:
                    r = f(r, v)
            out[idx] = r
        return out

    def p_reduce_or(self, e, x):
        return self._reduce(e, x, b_or, False)

    def p_reduce_and(self, e, x):
        return self._reduce(e, x, b_and, True)

    def p_reduce_xor(self, e, x):
        if self.k_out(e) != "b":
            raise Unsupported("int xor")
        return self._reduce(e, x, b_xor, False)

    def p_reduce_sum(self, e, x):
        k = self.k_out(e)
        if k == "f":
            self.uses.add("float_as_real")
        return self._reduce(e, x, lambda a, b: arith("add", a, b, k), 0 if k == "i" else 0.0)

    def p_reduce_prod(self, e, x):
        k = self.k_out(e)
        if k == "f":
            self.uses.add("float_as_real")
        return self._reduce(e, x, lambda a, b: arith("mul", a, b, k), 1 if k == "i" else 1.0)

    def p_reduce_max(self, e, x):
        k = self.k_out(e)
        if k == "b":
            return self._reduce(e, x, b_or, False)
        if 0 in [x.shape[a] for a in e.params["axes"]]:
            raise Unsupported("empty reduce_max")
        return self._reduce(e, x, lambda a, b: arith("max", a, b, k), None)

    def p_reduce_min(self, e, x):
        k = self.k_out(e)
        if k == "b":
            return self._reduce(e, x, b_and, True)
        if 0 in [x.shape[a] for a in e.params["axes"]]:
            raise Unsupported("empty reduce_min")
        return self._reduce(e, x, lambda a, b: arith("min", a, b, k), None)

    def _argred(self, e, x, better):
        (axis,) = e.params["axes"]
        k = self.k_in(e)
        moved = np.moveaxis(x, axis, 0)
        out = np.empty(moved.shape[1:], dtype=object)
        for idx in np.ndindex(*moved.shape[1:]):
            bi, bv = 0, moved[(0,) + idx]
            for j in range(1, moved.shape[0]):
                v = moved[(j,) + idx]
                c = better(v, bv, k)  # strictly better -> take j (first occurrence wins)
                bi = ite(c, j, bi, "i")
                bv = ite(c, v, bv, k)
            out[idx] = bi
        return out

    def p_argmax(self, e, x):
        def better(v, bv, k):
            if k == "b":
                return b_and(v, b_not(bv))
            return cmp("gt", v, bv, k)

        return self._argred(e, x, better)

    def p_argmin(self, e, x):
        def better(v, bv, k):
            if k == "b":
                return b_and(b_not(v), bv)
            return cmp("lt", v, bv, k)

        return self._argred(e, x, better)

    def _cum(self, e, x, f):
        axis, rev = e.params["axis"], e.params["reverse"]
        moved = np.moveaxis(x, axis, 0).copy()
        if rev:
            moved = moved[::-1].copy()
        for j in range(1, moved.shape[0]):
            for idx in np.ndindex(*moved.shape[1:]):
                moved[(j,) + idx] = f(moved[(j - 1,) + idx], moved[(j,) + idx])
        if rev:
            moved = moved[::-1]
        return np.moveaxis(moved, 0, axis)

    def p_cumsum(self, e, x):
        k = self.k_out(e)
        if k == "f":
            self.uses.add("float_as_real")
        return self._cum(e, x, lambda a, b: arith("add", a, b, k))

    def p_cummax(self, e, x):
        k = self.k_out(e)
        return self._cum(e, x, lambda a, b: arith("max", a, b, k))

    def p_cummin(self, e, x):
        k = self.k_out(e)
        return self._cum(e, x, lambda a, b: arith("min", a, b, k))

    def p_cumprod(self, e, x):
        k = self.k_out(e)
        return self._cum(e, x, lambda a, b: arith("mul", a, b, k))

    def p_dot_general(self, e, a, b):
        (ca, cb), (ba, bb) = e.params["dimension_numbers"]
        k = self.k_out(e)
        ka, kb = self.k_in(e, 0), self.k_in(e, 1)
        if k == "f":
            self.uses.add("float_as_real")
        fa = [d for d in range(a.ndim) if d not in ca and d not in ba]
        fb = [d for d in range(b.ndim) if d not in cb and d not in bb]
        out_shape = tuple(a.shape[d] for d in ba) + tuple(a.shape[d] for d in fa) + tuple(b.shape[d] for d in fb)
        out = np.empty(out_shape, dtype=object)
        cshape = tuple(a.shape[d] for d in ca)
        for oidx in np.ndindex(*out_shape):
            bi = oidx[: len(ba)]
            ai = oidx[len(ba): len(ba) + len(fa)]
            bj = oidx[len(ba) + len(fa):]
            acc = 0 if k == "i" else (False if k == "b" else 0.0)
            for cidx in np.ndindex(*cshape):
                ia = [None] * a.ndim
                ib = [None] * b.ndim
                for d, v in zip(ba, bi):
                    ia[d] = v
                for d, v in zip(bb, bi):
                    ib[d] = v
                for d, v in zip(fa, ai):
                    ia[d] = v
                for d, v in zip(fb, bj):
                    ib[d] = v
                for d, v in zip(ca, cidx):
                    ia[d] = v
                for d, v in zip(cb, cidx):
                    ib[d] = v
                x, y = convert(a[tuple(ia)], ka, k), convert(b[tuple(ib)], kb, k)
                acc = arith("add", acc, arith("mul", x, y, k), k)
            out[oidx] = acc
        return out

    # ---- indexing ----
    def _sel_index(self, arr_get, starts, maxes, k):
        """arr_get(tuple of concrete starts) -> element; starts symbolic per dim; clamp to [0,max]"""

        def rec(d, chosen):
            if d == len(starts):
                return arr_get(tuple(chosen))
            s = starts[d]
            if is_c(s):
                return rec(d + 1, chosen + [min(max(int(cv(s)), 0), maxes[d])])
            if "index" in TREE_OPS and const_tree(s):  # index read from a constant table: distribute the read over the decision tree
                return tree_map(s, lambda v: rec(d + 1, chosen + [min(max(int(v), 0), maxes[d])]), k)
            r = rec(d + 1, chosen + [maxes[d]])
            for v in range(maxes[d] - 1, -1, -1):
                c = cmp("le", s, v, "i") if v == 0 else cmp("eq", s, v, "i")
                r = ite(c, rec(d + 1, chosen + [v]), r, k)
            return r

        return rec(0, [])

    def p_dynamic_slice(self, e, x, *starts):
        sizes = e.params["slice_sizes"]
        k = self.k_out(e)
        starts = [s[()] for s in starts[: x.ndim]]
        maxes = [d - sz for d, sz in zip(x.shape, sizes)]
        out = np.empty(sizes, dtype=object)
        for idx in np.ndindex(*sizes):
            out[idx] = self._sel_index(lambda st: x[tuple(a + b for a, b in zip(st, idx))], starts, maxes, k)
        return out

    def p_dynamic_update_slice(self, e, x, upd, *starts):
        k = self.k_out(e)
        starts = [s[()] for s in starts]
        maxes = [d - sz for d, sz in zip(x.shape, upd.shape)]
        cl = []
        for s, m in zip(starts, maxes):
            if is_c(s):
                cl.append(min(max(int(cv(s)), 0), m))
            else:
                cl.append(z3.If(s < 0, z3.IntVal(0), z3.If(s > m, z3.IntVal(m), s)))
        out = np.empty(x.shape, dtype=object)
        for idx in np.ndindex(*x.shape):
            r = x[idx]
            for u in np.ndindex(*upd.shape):
                c = True
                for d in range(x.ndim):
                    t = idx[d] - u[d]
                    if t < 0 or t > maxes[d]:
                        c = False
                        break
                    c = b_and(c, cmp("eq", cl[d], t, "i"))
                    if is_c(c) and not c:
                        break
                r = ite(c, upd[u], r, k)
            out[idx] = r
        return out

    def p_gather(self, e, operand, indices):
        dn = e.params["dimension_numbers"]
        sizes = e.params["slice_sizes"]
        mode = e.params["mode"]
        k = self.k_out(e)
        offset_dims, collapsed, sim = dn.offset_dims, dn.collapsed_slice_dims, dn.start_index_map
        obd = tuple(getattr(dn, "operand_batching_dims", ()))
        sibd = tuple(getattr(dn, "start_indices_batching_dims", ()))
        out_shape = e.outvars[0].aval.shape
        batch_dims = [d for d in range(len(out_shape)) if d not in offset_dims]
        op_offset_dims = [d for d in range(operand.ndim) if d not in collapsed and d not in obd]
        fill = mode is not None and "FILL" in str(mode).upper()
        fillv = e.params.get("fill_value", None)
        out = np.empty(out_shape, dtype=object)
        maxes = [operand.shape[d] - sizes[d] for d in range(operand.ndim)]
        for oidx in np.ndindex(*out_shape):
            bidx = tuple(oidx[d] for d in batch_dims)
            S = indices[bidx]
            offs = [0] * operand.ndim
            for od, pd in zip(offset_dims, op_offset_dims):
                offs[pd] = oidx[od]
            starts = [0] * operand.ndim
            for kk, d in enumerate(sim):
                starts[d] = S[kk]
            for od_, sd_ in zip(obd, sibd):
                starts[od_] = bidx[sd_]
            val = self._sel_index(lambda st: operand[tuple(a + b for a, b in zip(st, offs))], starts, maxes, k)
            if fill:
                inb = True
                for d in sim:
                    s = starts[d]
                    inb = b_and(inb, b_and(cmp("ge", s, 0, "i"), cmp("le", s, maxes[d], "i")))
                if not (is_c(inb) and inb):
                    fv = fillv
                    if fv is None:
                        dt = np.dtype(e.outvars[0].aval.dtype)
                        if k == "b":
                            fv = True
                        elif k == "f":
                            fv = float("nan")
                        elif np.issubdtype(dt, np.signedinteger):
                            fv = int(np.iinfo(dt).min)
                        else:
                            fv = int(np.iinfo(dt).max)
                    if _isnan(fv) and not is_c(inb):
                        raise Unsupported("NaN fill under symbolic bounds")
                    val = ite(inb, val, fv, k)
            out[oidx] = val
        return out

    def _scatter(self, e, operand, indices, updates, combine):
        dn = e.params["dimension_numbers"]
        k = self.k_out(e)
        mode = str(e.params.get("mode", "")).upper()
        clip = "CLIP" in mode
        uwd, iwd, sdod = dn.update_window_dims, dn.inserted_window_dims, dn.scatter_dims_to_operand_dims
        obd = tuple(getattr(dn, "operand_batching_dims", ()))
        sibd = tuple(getattr(dn, "scatter_indices_batching_dims", ()))
        upd_scatter_dims = [d for d in range(updates.ndim) if d not in uwd]
        op_window_dims = [d for d in range(operand.ndim) if d not in iwd and d not in obd]
        # window bounds: the whole window must be in bounds, else the update is dropped (FILL_OR_DROP) / start clipped (CLIP)
        wsize = [1] * operand.ndim
        for ud, od in zip(uwd, op_window_dims):
            wsize[od] = updates.shape[ud]
        out = operand.copy()
        for uidx in np.ndindex(*updates.shape):
            sidx = tuple(uidx[d] for d in upd_scatter_dims)
            S = indices[sidx]
            win = [0] * operand.ndim
            for ud, od in zip(uwd, op_window_dims):
                win[od] = uidx[ud]
            for od_, sd_ in zip(obd, sibd):
                win[od_] = sidx[sd_]
            starts = {}
            for kk, d in enumerate(sdod):
                starts[d] = S[kk]
            u = updates[uidx]
            # concrete fast path
            if all(is_c(s) for s in starts.values()):
                tgt = list(win)
                ok = True
                for d, s in starts.items():
                    s = int(cv(s))
                    mx = operand.shape[d] - wsize[d]
                    if clip:
                        s = min(max(s, 0), mx)
                    elif s < 0 or s > mx:
                        ok = False
                    tgt[d] = win[d] + s
                if ok and all(0 <= t < n for t, n in zip(tgt, operand.shape)):
                    out[tuple(tgt)] = combine(out[tuple(tgt)], u, k)
                continue
            symdims = [d for d, s in starts.items() if not is_c(s)]
            ranges = []
            okc = True
            for d in range(operand.ndim):
                if d in symdims:
                    ranges.append(range(0, operand.shape[d] - wsize[d] + 1))
                elif d in starts:
                    s = int(cv(starts[d]))
                    mx = operand.shape[d] - wsize[d]
                    if clip:
                        s = min(max(s, 0), mx)
                    elif s < 0 or s > mx:
                        okc = False
                    ranges.append([s])
                else:
                    ranges.append([0])
            if not okc:
                continue
            for st in itertools.product(*ranges):
                cell = tuple(s + w for s, w in zip(st, win))
                if not all(0 <= c < n for c, n in zip(cell, operand.shape)):
                    continue
                c = True
                for d in symdims:
                    mx = operand.shape[d] - wsize[d]
                    if clip and st[d] == 0:
                        cc = cmp("le", starts[d], 0, "i")
                    elif clip and st[d] == mx:
                        cc = cmp("ge", starts[d], mx, "i")
                    else:
                        cc = cmp("eq", starts[d], st[d], "i")
                    c = b_and(c, cc)
                out[cell] = ite(c, combine(out[cell], u, k), out[cell], k)
        return out

    def p_scatter(self, e, operand, indices, updates):
        return self._scatter(e, operand, indices, updates, lambda old, u, k: u)

    def p_scatter_add(self, e, operand, indices, updates):
        return self._scatter(e, operand, indices, updates, lambda old, u, k: arith("add", old, u, k))

    def p_scatter_mul(self, e, operand, indices, updates):
        return self._scatter(e, operand, indices, updates, lambda old, u, k: arith("mul", old, u, k))

    def p_scatter_min(self, e, operand, indices, updates):
        return self._scatter(e, operand, indices, updates, lambda old, u, k: arith("min", old, u, k))

    def p_scatter_max(self, e, operand, indices, updates):
        return self._scatter(e, operand, indices, updates, lambda old, u, k: arith("max", old, u, k))

    # ---- control flow ----
    def _merge(self, c, a, b, k):
        return vmap2(lambda x, y: ite(c, x, y, k), a, b)

    def p_cond(self, e, idx, *ops):
        branches = e.params["branches"]
        i = idx[()]
        ks = [kind(v.aval.dtype) for v in e.outvars]
        if is_c(i):
            return self.eval_closed(branches[min(max(int(cv(i)), 0), len(branches) - 1)], *ops)
        kidx = self.k_in(e)
        outs = [self.eval_closed(b, *ops) for b in branches]
        res = outs[-1]
        for j in range(len(branches) - 2, -1, -1):
            if kidx == "b":
                c = b_not(i) if j == 0 else i
            else:
                c = cmp("le", i, 0, "i") if j == 0 else cmp("eq", i, j, "i")
            res = [self._merge(c, a, b, k) for a, b, k in zip(outs[j], res, ks)]
        return res

    def p_scan(self, e, *args):
        p = e.params
        nc, ncar = p["num_consts"], p["num_carry"]
        L = p["length"]
        consts, carry, xs = list(args[:nc]), list(args[nc: nc + ncar]), list(args[nc + ncar:])
        ys = []
        rng = range(L - 1, -1, -1) if p["reverse"] else range(L)
        self.loop_depth += 1
        try:
            for t in rng:
                outs = self.eval_closed(p["jaxpr"], *consts, *carry, *[as_arr(x[t]) for x in xs])
                carry = outs[:ncar]
                ys.append(outs[ncar:])
        finally:
            self.loop_depth -= 1
        if p["reverse"]:
            ys = ys[::-1]
        nys = len(e.outvars) - ncar
        stacked = []
        for j in range(nys):
            shp = e.outvars[ncar + j].aval.shape
            arr = np.empty(shp, dtype=object)
            for t in range(L):
                arr[t] = ys[t][j] if arr.ndim > 1 else ys[t][j][()]
            stacked.append(arr)
        return carry + stacked

    def p_while(self, e, *args):
        p = e.params
        cn, bn = p["cond_nconsts"], p["body_nconsts"]
        cc, bc, carry = list(args[:cn]), list(args[cn: cn + bn]), list(args[cn + bn:])
        ks = [kind(v.aval.dtype) for v in e.outvars]
        self.loop_depth += 1
        try:
            for it in range(self.while_bound + 1):
                (c,) = self.eval_closed(p["cond_jaxpr"], *cc, *carry)
                if c.ndim == 0:
                    c0 = c[()]
                    if is_c(c0):
                        if not c0:
                            return carry
                        if it == self.while_bound:
                            raise Unsupported("while bound exceeded with a concrete condition")
                        carry = self.eval_closed(p["body_jaxpr"], *bc, *carry)
                        continue
                    if it == self.while_bound:
                        self.side.append((f"unwind@{self.while_bound}", b_not(c0)))
                        return carry
                    new = self.eval_closed(p["body_jaxpr"], *bc, *carry)
                    carry = [self._merge(c0, a, b, k) for a, b, k in zip(new, carry, ks)]
                else:
                    # batched predicate (vmap of while_loop): lanes run independently, finished lanes keep their carry
                    lanes = list(c.reshape(-1))
                    nd = c.ndim
                    if all(is_c(x) and not x for x in lanes):
                        return carry
                    if it == self.while_bound:
                        for x in lanes:
                            if not (is_c(x) and not x):
                                if is_c(x):
                                    raise Unsupported("while bound exceeded with a concrete condition")
                                self.side.append((f"unwind@{self.while_bound}", b_not(x)))
                        return carry
                    new = self.eval_closed(p["body_jaxpr"], *bc, *carry)
                    merged = []
                    for a, b, k in zip(new, carry, ks):
                        out = np.empty(a.shape, dtype=object)
                        for idx in np.ndindex(*a.shape):
                            out[idx] = ite(c[idx[:nd]], a[idx], b[idx], k)
                        merged.append(out)
                    carry = merged
        finally:
            self.loop_depth -= 1
        return carry

    # ---- sort ----
    def p_sort(self, e, *ops):
        dim, nk = e.params["dimension"], e.params["num_keys"]
        ks = [kind(v.aval.dtype) for v in e.invars]
        moved = [np.moveaxis(o, dim, -1) for o in ops]
        n = moved[0].shape[-1]
        outs = [np.empty(m.shape, dtype=object) for m in moved]
        for idx in np.ndindex(*moved[0].shape[:-1]):
            rows = [m[idx] for m in moved]
            if all(is_c(rows[kk][i]) for kk in range(nk) for i in range(n)):
                order = sorted(range(n), key=lambda i: tuple(cv(rows[kk][i]) for kk in range(nk)))
                for oi, row in enumerate(rows):
                    for pos, i in enumerate(order):
                        outs[oi][idx + (pos,)] = row[i]
                continue

            def less(i, j):  # strict lexicographic on keys
                r = False
                for kk in range(nk - 1, -1, -1):
                    a, b = rows[kk][i], rows[kk][j]
                    lt, eq = cmp("lt", a, b, ks[kk]), cmp("eq", a, b, ks[kk])
                    r = b_or(lt, b_and(eq, r))
                return r

            ranks = []
            for i in range(n):
                r = 0
                for j in range(n):
                    if j == i:
                        continue
                    before = less(j, i) if j > i else b_not(less(i, j))  # stable: ties keep index order
                    r = arith("add", r, convert(before, "b", "i"), "i")
                ranks.append(r)
            for oi, (row, k) in enumerate(zip(rows, ks)):
                for pos in range(n):
                    v = row[n - 1]
                    for i in range(n - 2, -1, -1):
                        v = ite(cmp("eq", ranks[i], pos, "i"), row[i], v, k)
                    outs[oi][idx + (pos,)] = v
        return [np.moveaxis(o, -1, dim) for o in outs]

    # ---- PRNG: typed keys are opaque pairs; split / fold_in / bits are uninterpreted FUNCTIONS of the key ----
    def p_random_wrap(self, e, x):
        shp = x.shape[:-1]
        out = np.empty(shp, dtype=object)
        for idx in np.ndindex(*shp):
            out[idx] = Key(x[idx + (0,)], x[idx + (1,)])
        return out

    def p_random_unwrap(self, e, x):
        out = np.empty(x.shape + (2,), dtype=object)
        for idx in np.ndindex(*x.shape):
            out[idx + (0,)] = x[idx].k0
            out[idx + (1,)] = x[idx].k1
        return out

    def _keyfun(self, name, key, extra=()):
        args = [zint(key.k0), zint(key.k1)] + [zint(x) for x in extra]
        sorts = [z3.IntSort()] * (len(args) + 1)
        r = []
        for w in (0, 1):
            t = self._func(f"{name}.{w}", *sorts)(*args)
            r.append(t)
        return Key(r[0], r[1])

    def p_random_split(self, e, x):
        self.uses.add("uninterpreted:random_split")
        shp = tuple(e.params["shape"])
        out = np.empty(x.shape + shp, dtype=object)
        tag = "x".join(map(str, shp))
        for pre in np.ndindex(*x.shape):
            for i, sidx in enumerate(np.ndindex(*shp)):
                out[pre + sidx] = self._keyfun(f"split[{tag}].{i}", x[pre])
        return out

    def p_random_fold_in(self, e, x, y):
        self.uses.add("uninterpreted:random_fold_in")
        x, y = np.broadcast_arrays(x, y)
        out = np.empty(x.shape, dtype=object)
        for idx in np.ndindex(*x.shape):
            out[idx] = self._keyfun("fold_in", x[idx], (y[idx],))
        return out

    def p_random_seed(self, e, x):
        self.uses.add("uninterpreted:random_seed")
        out = np.empty(x.shape, dtype=object)
        for idx in np.ndindex(*x.shape):
            f = lambda w: self._func(f"seed.{w}", z3.IntSort(), z3.IntSort())(zint(x[idx]))
            out[idx] = Key(f(0), f(1))
        return out

    def p_random_bits(self, e, x):
        self.uses.add("uninterpreted:random_bits")
        shp = tuple(e.params["shape"])
        bw = e.params["bit_width"]
        out = np.empty(x.shape + shp, dtype=object)
        tag = "x".join(map(str, shp))
        for pre in np.ndindex(*x.shape):
            for i, sidx in enumerate(np.ndindex(*shp)):
                k = x[pre]
                t = self._func(f"bits{bw}[{tag}].{i}", z3.IntSort(), z3.IntSort(), z3.IntSort())(zint(k.k0), zint(k.k1))
                self.assumes += [t >= 0, t < 2**bw]
                out[pre + sidx] = t
        return out

    # ---- trace-time stubs (see stubs.py) ----
    def p_ext(self, e, *ins):
        name = e.params["name"]
        self.uses.add("external:" + name)
        memo_key = (name, e.params["static"], tuple(_tid(x) for a in ins for x in a.reshape(-1)))
        if memo_key in self.ext_memo:
            outs = self.ext_memo[memo_key][1]
            self.ext_log.append((name, e.params["uid"], self.loop_depth, outs))   # same outcome pinned for this call site too
            return outs
        outs = [self.fresh_array("ext_" + name, av.shape, av.dtype) for av in e.params["out_avals"]]
        self.ext_handlers[name](self, e, outs, ins)
        self.ext_memo[memo_key] = (ins, outs)  # keep ins alive: z3 ids are reused after GC
        self.ext_log.append((name, e.params["uid"], self.loop_depth, outs))
        return outs

    def p_uf(self, e, *ins):
        """Uninterpreted function: tok = F(all input scalars); out[j][idx] = G_{j,idx}(tok).  Same inputs => same token =>
        same outputs (congruence); nothing else is assumed about the function."""
        name = e.params["name"]
        self.uses.add("uninterpreted:" + name)
        flat_in = []
        for v, a in zip(e.invars, ins):
            k = kind(v.aval.dtype)
            for x in a.reshape(-1):
                if k == "k":
                    flat_in += [zint(x.k0), zint(x.k1)]
                else:
                    flat_in.append(lift(x, k))
        return self.uf_apply(name, flat_in, e.params["out_avals"])

    def uf_apply(self, name, flat_in, out_avals, constrain=True):
        import hashlib
        sig = "".join("b" if z3.is_bool(x) else ("i" if z3.is_int(x) else "r") for x in flat_in)
        F = self._func(f"{name}.tok.{hashlib.md5(sig.encode()).hexdigest()[:8]}", *[x.sort() for x in flat_in], z3.IntSort())
        tok = F(*flat_in) if flat_in else z3.Int(f"{name}.tok0")
        outs = []
        for j, av in enumerate(out_avals):
            k = kind(av.dtype)
            arr = np.empty(av.shape, dtype=object)
            for idx in np.ndindex(*av.shape):
                tag = f"{name}.{j}." + "_".join(map(str, idx))
                if k == "k":
                    f = [self._func(tag + f".k{w}", z3.IntSort(), z3.IntSort())(tok) for w in (0, 1)]
                    arr[idx] = Key(f[0], f[1])
                    if constrain:
                        for t in f:
                            self.assumes += [t >= 0, t < 2**32]
                else:
                    arr[idx] = self._func(tag, z3.IntSort(), _SORT[k]())(tok)
                    if k == "i" and constrain:
                        lo, hi = dtype_range(av.dtype)
                        self.assumes += [arr[idx] >= lo, arr[idx] <= hi]
            outs.append(arr)
        return outs


def _tid(x):
    if is_c(x):
        return ("c", cv(x))
    if isinstance(x, Key):
        return ("k", _tid(x.k0), _tid(x.k1))
    return ("t", x.get_id())
