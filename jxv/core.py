"""Obligation generation, discharge, counterexample replay for Engine J.

`prove(...)` traces  (requires(*args), ensures(*args))  -- `ensures` calls the REAL function from /repo --
with `jax.make_jaxpr` (contract stubs for samplers installed only around the trace), evaluates the jaxpr
symbolically, and discharges   assumes /\\ requires /\\ not clause[i]   for every element of every clause.
"""
import hashlib
import inspect
import json
import multiprocessing as mp
import os
import subprocess
import tempfile
import time
import traceback
from fractions import Fraction

import jax
import jax.numpy as jnp
import numpy as np
import z3
from jax.interpreters import partial_eval as pe

from . import stubs
from . import symeval as S

UNSAT, SAT, UNKNOWN = "unsat", "sat", "unknown"


def budget_scale():
    try:
        return float(os.environ.get("VERIF_BUDGET_SCALE", "1"))
    except ValueError:
        return 1.0


def target_meta(fn):
    """qualified name, file, line, sha256 of the source text of a function under contract"""
    try:
        f = inspect.unwrap(fn)
        f = getattr(f, "__func__", f)
        f = getattr(f, "fget", f)
        src = inspect.getsource(f)
        file = inspect.getsourcefile(f)
        line = inspect.getsourcelines(f)[1]
        return {"function": f"{f.__module__}.{f.__qualname__}", "file": file, "line": line,
                "sha256": hashlib.sha256(src.encode()).hexdigest()[:16]}
    except Exception as ex:  # builtins, partials
        return {"function": repr(fn), "file": None, "line": None, "sha256": None, "note": repr(ex)[:80]}


def _leaf_struct(x):
    if isinstance(x, jax.ShapeDtypeStruct):
        return x
    x = jnp.asarray(x) if not hasattr(x, "dtype") else x
    return jax.ShapeDtypeStruct(x.shape, x.dtype)


def _as_bool_tree(d):
    if d is None:
        return {}
    if not isinstance(d, dict):
        d = {"_": d}
    return {k: jnp.asarray(v).astype(bool) for k, v in d.items()}


def _term_size(t, cap=200000):
    seen = set()
    stack = [t]
    n = 0
    while stack and n < cap:
        x = stack.pop()
        i = x.get_id()
        if i in seen:
            continue
        seen.add(i)
        n += 1
        stack.extend(x.children())
    return n


def _collect_vars(t, cap=400000):
    seen, out = set(), set()
    stack = [t]
    while stack and len(seen) < cap:
        x = stack.pop()
        i = x.get_id()
        if i in seen:
            continue
        seen.add(i)
        if z3.is_const(x) and x.decl().kind() == z3.Z3_OP_UNINTERPRETED:
            out.add(str(x))
        stack.extend(x.children())
    return out


class Problem:
    """One traced contract: symbolic pre/post, obligations, and what is needed to replay a model."""

    def __init__(self, title, args, ensures, requires=None, *, targets=(), use_stubs=True, while_bound=16,
                 fmul_uf=False, arg_names=None, timeout=120, key_args=(), note=None, merge_over=None, tree_ops=None):
        self.title = title
        self.args = args
        self.ensures, self.requires = ensures, requires
        self.targets = [target_meta(t) for t in targets]
        self.timeout = timeout
        self.note = note
        self.fmul_uf = fmul_uf
        self.use_stubs = use_stubs
        t0 = time.time()
        leaves, self.in_tree = jax.tree_util.tree_flatten(args)
        try:
            self.paths = [jax.tree_util.keystr(p) for p, _ in jax.tree_util.tree_flatten_with_path(args)[0]]
        except Exception:
            self.paths = [f"leaf{i}" for i in range(len(leaves))]
        self.structs = [_leaf_struct(x) for x in leaves]
        self.examples = leaves

        def comp(*flat):
            a = jax.tree_util.tree_unflatten(self.in_tree, flat)
            return _as_bool_tree(requires(*a) if requires else None), _as_bool_tree(ensures(*a))

        self.comp = comp
        ctx = stubs.installed() if use_stubs else _null()
        with ctx:
            cj, out_shape = jax.make_jaxpr(comp, return_shape=True)(*self.structs)
        self.effects = sorted(str(e) for e in cj.effects)
        jaxpr, _ = pe.dce_jaxpr(cj.jaxpr, [True] * len(cj.jaxpr.outvars), instantiate=True)
        self.cj = jax.core.ClosedJaxpr(jaxpr, cj.consts)
        self.n_eqns = _count_eqns(jaxpr)
        prims = _prims(jaxpr)
        self.has_ext = "ext" in prims
        self.has_uf = "uf" in prims
        self.t_trace = time.time() - t0
        t0 = time.time()
        S.FMUL_UF[0] = fmul_uf
        # (term-shape option of the engine, semantics-preserving: which operations are distributed over constant-leaf decision trees; a contract may
        #  pin it where the default combination makes z3 slow on its obligations - measured, RobotWarehouse C07: 537 s vs 53 s)
        saved_ops = list(S.TREE_OPS)
        if tree_ops is not None:
            S.TREE_OPS[:] = list(tree_ops)
        sym = S.Sym(while_bound=while_bound)
        sym.ext_handlers = stubs.EXT_CONTRACTS
        self.sym = sym
        ins = []
        for li, st in enumerate(self.structs):
            ins.append(sym.sym_array(f"x{li}", st.shape, st.dtype, leaf=li))
        try:
            outs = sym.eval_closed(self.cj, *ins)
        finally:
            S.FMUL_UF[0] = False
            S.TREE_OPS[:] = saved_ops
        oleaves, otree = jax.tree_util.tree_flatten(out_shape)
        self.pre, self.post = jax.tree_util.tree_unflatten(otree, outs)
        self.t_eval = time.time() - t0
        pre_terms = [x for v in self.pre.values() for x in v.reshape(-1)]
        self.pre_false = any(S.is_c(x) and not x for x in pre_terms)
        self.pre_terms = [x for x in pre_terms if not S.is_c(x)]
        self.obligations = []  # (name, clause, index, term-or-const)
        self.merged = set()
        for cname, arr in self.post.items():
            if merge_over is not None and arr.size > merge_over:
                # one obligation for the whole clause array (conjunction of its elements)
                t = True
                for x in arr.reshape(-1):
                    t = S.b_and(t, x)
                self.merged.add(cname)
                self.obligations.append((f"{title}/{cname}[all {arr.size}]", cname, (), t))
                continue
            for idx in np.ndindex(*arr.shape):
                nm = f"{title}/{cname}" + (str(list(idx)) if idx else "")
                self.obligations.append((nm, cname, idx, arr[idx]))
        for i, (tag, term) in enumerate(sym.side):
            self.obligations.append((f"{title}/{tag}#{i}", tag, (), term))

    # ---- solving -------------------------------------------------------------------------------
    def solver(self, timeout_s, seed=7):
        s = z3.Solver()
        s.set("timeout", int(timeout_s * 1000))
        s.set("random_seed", seed)
        for a in self.sym.assumes:
            s.add(a)
        for p in self.pre_terms:
            s.add(p)
        return s

    def cover(self):
        if self.pre_false:
            return False
        to = self.timeout * budget_scale()
        for budget, seed in ([(to, 7)] if to <= 20 else [(max(5.0, 0.05 * to), 7), (max(8.0, 0.1 * to), 101), (max(10.0, 0.2 * to), 2024), (max(10.0, 0.4 * to), 77), (to, 5)]):
            s = self.solver(budget, seed)
            r = s.check()
            if r != z3.unknown:
                break
        return None if r == z3.unknown else (r == z3.sat)

    def check_one(self, i, timeout_s=None):
        nm, cname, idx, term = self.obligations[i]
        t0 = time.time()
        if S.is_c(term):
            if term:
                return {"name": nm, "verdict": UNSAT, "backend": "normaliser", "time": 0.0}
            # constant False: any state satisfying the precondition is a counterexample
            s = self.solver((timeout_s or self.timeout) * budget_scale())
            r = s.check()
            res = {"name": nm, "verdict": _verdict(r), "backend": "z3",
                   "time": time.time() - t0, "note": "clause folded to the constant False"}
            if r == z3.sat:
                res["model"] = self.decode(s.model())
            return res
        if self.pre_false:
            return {"name": nm, "verdict": UNSAT, "backend": "normaliser", "time": 0.0, "note": "precondition is False"}
        to = (timeout_s or self.timeout) * budget_scale()
        # z3's running time on one and the same obligation varies by orders of magnitude with the random seed and with the numbering of the
        # terms (measured: 0.9 s in one process, > 300 s in another).  Restarts with fresh seeds and growing budgets (5%, 10%, 20%, 40%, 100% of the
        # budget) make the verdict robust against that: an answer of any attempt is an answer, only the last timeout is a timeout.
        attempts = [(to, 7)] if to <= 20 else [(max(5.0, 0.05 * to), 7), (max(8.0, 0.1 * to), 101), (max(10.0, 0.2 * to), 2024), (max(10.0, 0.4 * to), 77), (to, 5)]
        for k, (budget, seed) in enumerate(attempts):
            s = self.solver(budget, seed)
            s.add(z3.Not(term))
            r = s.check()
            if r != z3.unknown:
                break
        res = {"name": nm, "verdict": _verdict(r), "backend": "z3-" + z3.get_version_string(),
               "time": round(time.time() - t0, 3)}
        if k:
            res["restarts"] = k
        if r == z3.sat:
            res["model"] = self.decode(s.model())
            self._models = getattr(self, "_models", {})
            self._models[nm] = s.model()   # kept in-process for replays over abstract (uf) functions
        elif r == z3.unknown:
            res["reason"] = s.reason_unknown()
            alt = self.portfolio(s, to)
            if alt:
                res.update(alt)
                res["time"] = round(time.time() - t0, 3)
        return res

    def portfolio(self, s, to):
        """second opinion for `unknown`: z3 4.8.12 and cvc5 CLIs on the SMT-LIB2 dump (unsat only is trusted)"""
        try:
            txt = s.to_smt2()
        except Exception:
            return None
        with tempfile.NamedTemporaryFile("w", suffix=".smt2", delete=False) as f:
            f.write(txt)
            path = f.name
        try:
            for name, cmd in (("cvc5-1.0.3", ["/usr/bin/cvc5", f"--tlimit={int(to * 1000)}", path]),
                              ("z3-4.8.12", ["/usr/bin/z3", f"-T:{int(to)}", path])):
                try:
                    out = subprocess.run(cmd, capture_output=True, text=True, timeout=to + 5).stdout.strip().splitlines()
                except Exception:
                    continue
                if out and out[0].strip() == "unsat":
                    return {"verdict": UNSAT, "backend": name}
        finally:
            os.unlink(path)
        return None

    def decode(self, model):
        """model -> {'inputs': [np arrays per leaf], 'ext': [(name, uid, [arrays])]}"""
        vals = []
        for st in self.structs:
            k = S.kind(st.dtype)
            shp = tuple(st.shape) + ((2,) if k == "k" else ())
            vals.append(np.zeros(shp, dtype=object))
        for n, (leaf, idx, k) in self.sym.inputs.items():
            v = model.eval(S._MK[k](n), model_completion=True)
            vals[leaf][idx] = _zval(v, k)
        ext = []
        for name, uid, depth, outs in self.sym.ext_log:
            arrs = []
            for o in outs:
                a = np.zeros(o.shape, dtype=object)
                for idx in np.ndindex(*o.shape):
                    t = o[idx]
                    a[idx] = _zval(model.eval(t, model_completion=True), "f" if z3.is_real(t) else ("b" if z3.is_bool(t) else "i"))
                arrs.append(a.tolist())
            ext.append({"name": name, "uid": uid, "loop_depth": depth, "values": arrs})
        return {"inputs": [v.tolist() for v in vals], "ext": ext}

    # ---- replay --------------------------------------------------------------------------------
    def concrete_args(self, model_inputs):
        flat = []
        for st, v in zip(self.structs, model_inputs):
            k = S.kind(st.dtype)
            if k == "k":
                arr = np.asarray(v, dtype=np.uint32)
                flat.append(jax.random.wrap_key_data(jnp.asarray(arr)))
            elif k == "f":
                flat.append(jnp.asarray(np.array([float(Fraction(x)) if isinstance(x, str) else float(x)
                                                  for x in np.asarray(v, dtype=object).reshape(-1)],
                                                 dtype=np.float64).reshape(st.shape), st.dtype))
            else:
                flat.append(jnp.asarray(np.asarray(v, dtype=object).astype(np.int64).astype(st.dtype) if k == "i"
                                        else np.asarray(v, dtype=bool)).reshape(st.shape))
        return flat

    def replay(self, res):
        """Run the REAL code natively on the model's inputs and evaluate the failed clause concretely."""
        nm = res["name"]
        i = next(j for j, o in enumerate(self.obligations) if o[0] == nm)
        _, cname, idx, _ = self.obligations[i]
        flat = self.concrete_args(res["model"]["inputs"])
        out = {"obligation": nm, "clause": cname, "index": list(idx),
               "inputs": {f"args{p}": v for p, v in zip(self.paths, res["model"]["inputs"])},
               "ext_outcomes": res["model"]["ext"], "targets": self.targets}
        if cname not in self.post:
            out["confirmed"] = None
            out["note"] = "side obligation (unwinding assertion): no native replay"
            return out
        try:
            if self.has_uf:
                m = getattr(self, "_models", {}).get(nm)
                if m is None:
                    raise RuntimeError("abstract-function problem solved in another process: no model object to realise the function")
                stubs.UF_MODEL[0] = m
                import jax.random as jr
                real_split = jr.split
                jr.split = stubs.model_split   # split is uninterpreted in the proof: the replay realises it from the model as well
                try:
                    try:
                        with jax.disable_jit():
                            pre, post = self.comp(*flat)  # eager: the real wrapper code over a table environment realising the model
                        out["mode"] = "native-eager over a lookup-table environment synthesised from the solver model"
                    except Exception:
                        # the code keeps the abstract calls inside traced loops: run the jaxpr of the real code primitive by primitive instead
                        jr.split = real_split
                        outs = concrete_eval(self.cj.jaxpr, self.cj.consts, *flat)
                        _, otree = jax.tree_util.tree_flatten((self.pre, self.post))
                        pre, post = jax.tree_util.tree_unflatten(otree, outs)
                        out["mode"] = "jaxpr-of-real-code executed by JAX primitive by primitive over a lookup-table environment synthesised from the solver model"
                finally:
                    stubs.UF_MODEL[0] = None
                    jr.split = real_split
            elif not self.has_ext:
                pre, post = self.comp(*flat)  # eager, real functions, no stubs
                out["mode"] = "native-eager"
            else:
                # pinned sampler outcomes: the jaxpr traced from the real code is run by JAX with ext outcomes pinned
                stubs.PINNED.clear()
                ok = True  # ext inside loops: the symbolic evaluator memoises by arguments; pinned by uid (last value wins)
                for e in res["model"]["ext"]:
                    stubs.PINNED[e["uid"]] = [_numeric(v) for v in e["values"]]
                if not ok:
                    raise RuntimeError("sampler outcome inside a loop: pinned replay not available")
                outs = concrete_eval(self.cj.jaxpr, self.cj.consts, *flat)
                _, otree = jax.tree_util.tree_flatten((self.pre, self.post))
                pre, post = jax.tree_util.tree_unflatten(otree, outs)
                out["mode"] = "jaxpr-of-real-code, sampler outcomes pinned"
            pre_ok = all(bool(np.all(np.asarray(v))) for v in pre.values())
            val = bool(np.all(np.asarray(post[cname]))) if cname in self.merged else bool(np.asarray(post[cname])[idx])
            out["precondition_holds"] = pre_ok
            out["clause_value"] = val
            out["confirmed"] = bool(pre_ok and not val)
        except Exception as ex:
            out["confirmed"] = None
            out["note"] = "replay failed: " + repr(ex)[:300]
            out["trace"] = traceback.format_exc()[-1500:]
        return out

    def summary(self):
        return {"title": self.title, "targets": self.targets, "eqns": self.n_eqns, "trace_s": round(self.t_trace, 2),
                "eval_s": round(self.t_eval, 2), "havocked": dict(self.sym.havocked), "uses": sorted(self.sym.uses),
                "effects": self.effects, "inputs": len(self.sym.inputs), "note": self.note}


def _numeric(v):
    """nested lists of ints / bools / 'p/q' strings (reals from the model) -> numpy array"""
    a = np.asarray(v, dtype=object)
    if any(isinstance(x, str) for x in a.reshape(-1)):
        return np.array([float(Fraction(x)) if isinstance(x, str) else float(x) for x in a.reshape(-1)], dtype=np.float64).reshape(a.shape)
    return np.asarray(v)


def concrete_eval(jaxpr, consts, *args):
    """Run a jaxpr concretely: every leaf primitive is executed by JAX itself (eager bind), control flow and calls are
    interpreted here so that `ext` (pinned sampler outcomes) can appear anywhere outside loops."""
    from jax import core as jc

    env = {}

    def read(v):
        return v.val if isinstance(v, jc.Literal) else env[v]

    for v, c in zip(jaxpr.constvars, consts):
        env[v] = c
    for v, a in zip(jaxpr.invars, args):
        env[v] = a
    for e in jaxpr.eqns:
        ins = [read(v) for v in e.invars]
        n = e.primitive.name
        p = e.params
        if n == "random_split" and stubs.UF_MODEL[0] is not None:
            outs = [jax.random.wrap_key_data(stubs.model_split(ins[0], p["shape"]))]
        elif n != "ext" and not _eqn_has_ext(e):
            outs = e.primitive.bind(*ins, **p)  # executed natively by JAX
            if not e.primitive.multiple_results:
                outs = [outs]
        elif n == "pjit":
            outs = concrete_eval(p["jaxpr"].jaxpr, p["jaxpr"].consts, *ins)
        elif n in ("custom_jvp_call", "closed_call"):
            outs = concrete_eval(p["call_jaxpr"].jaxpr, p["call_jaxpr"].consts, *ins)
        elif n == "custom_vjp_call_jaxpr":
            outs = concrete_eval(p["fun_jaxpr"].jaxpr, p["fun_jaxpr"].consts, *ins)
        elif n in ("remat", "checkpoint"):
            outs = concrete_eval(p["jaxpr"], [], *ins)
        elif n == "cond":
            i = int(np.asarray(ins[0]))
            br = p["branches"][min(max(i, 0), len(p["branches"]) - 1)]
            outs = concrete_eval(br.jaxpr, br.consts, *ins[1:])
        elif n == "scan":
            nc, ncar, L = p["num_consts"], p["num_carry"], p["length"]
            cs, carry, xs = ins[:nc], list(ins[nc:nc + ncar]), ins[nc + ncar:]
            ys = []
            rng = range(L - 1, -1, -1) if p["reverse"] else range(L)
            for t in rng:
                o = concrete_eval(p["jaxpr"].jaxpr, p["jaxpr"].consts, *cs, *carry, *[x[t] for x in xs])
                carry = list(o[:ncar])
                ys.append(o[ncar:])
            if p["reverse"]:
                ys = ys[::-1]
            outs = carry + [jnp.stack([y[j] for y in ys]) if L else jnp.zeros(e.outvars[ncar + j].aval.shape, e.outvars[ncar + j].aval.dtype)
                            for j in range(len(e.outvars) - ncar)]
        elif n == "while":
            cn, bn = p["cond_nconsts"], p["body_nconsts"]
            cc, bc, carry = ins[:cn], ins[cn:cn + bn], list(ins[cn + bn:])
            it = 0
            while bool(np.asarray(concrete_eval(p["cond_jaxpr"].jaxpr, p["cond_jaxpr"].consts, *cc, *carry)[0])):
                carry = list(concrete_eval(p["body_jaxpr"].jaxpr, p["body_jaxpr"].consts, *bc, *carry))
                it += 1
                if it > 100000:
                    raise RuntimeError("while loop did not terminate in replay")
            outs = carry
        else:
            outs = e.primitive.bind(*ins, **p)
            if not e.primitive.multiple_results:
                outs = [outs]
        for v, o in zip(e.outvars, outs):
            env[v] = o
    return [read(v) for v in jaxpr.outvars]


def _zval(v, k):
    if k == "b":
        return bool(z3.is_true(v))
    if k == "i":
        return int(v.as_long()) if z3.is_int_value(v) else 0
    if z3.is_rational_value(v):
        return str(Fraction(v.numerator_as_long(), v.denominator_as_long()))
    if z3.is_algebraic_value(v):
        return str(Fraction(v.approx(20).numerator_as_long(), v.approx(20).denominator_as_long()))
    return "0"


def _verdict(r):
    return SAT if r == z3.sat else (UNSAT if r == z3.unsat else UNKNOWN)


def symbolic_outputs(fn, args, use_stubs=True, while_bound=16, prefix="x"):
    """Trace fn(*args) (real code), evaluate the jaxpr symbolically; returns (sym, input object arrays, output pytree of object arrays)."""
    leaves, in_tree = jax.tree_util.tree_flatten(args)
    structs = [_leaf_struct(x) for x in leaves]

    def comp(*flat):
        return fn(*jax.tree_util.tree_unflatten(in_tree, flat))

    with (stubs.installed() if use_stubs else _null()):
        cj, out_shape = jax.make_jaxpr(comp, return_shape=True)(*structs)
    jaxpr, _ = pe.dce_jaxpr(cj.jaxpr, [True] * len(cj.jaxpr.outvars), instantiate=True)
    sym = S.Sym(while_bound=while_bound)
    sym.ext_handlers = stubs.EXT_CONTRACTS
    ins = [sym.sym_array(f"{prefix}{li}", st.shape, st.dtype, leaf=li) for li, st in enumerate(structs)]
    outs = sym.eval_closed(jax.core.ClosedJaxpr(jaxpr, cj.consts), *ins)
    _, otree = jax.tree_util.tree_flatten(out_shape)
    return sym, jax.tree_util.tree_unflatten(in_tree, ins), jax.tree_util.tree_unflatten(otree, outs)


class _null:
    def __enter__(self):
        return self

    def __exit__(self, *a):
        return False


def _eqn_has_ext(e):
    for v in e.params.values():
        for s in (v if isinstance(v, (list, tuple)) else [v]):
            j = getattr(s, "jaxpr", None)
            if j is not None:
                ps = _prims(j if hasattr(j, "eqns") else j.jaxpr)
                if "ext" in ps or (stubs.UF_MODEL[0] is not None and ("uf" in ps or "random_split" in ps)):
                    return True
    return False


def _count_eqns(jaxpr):
    n = 0
    for e in jaxpr.eqns:
        n += 1
        for v in e.params.values():
            for s in (v if isinstance(v, (list, tuple)) else [v]):
                j = getattr(s, "jaxpr", None)
                if j is not None:
                    n += _count_eqns(j if hasattr(j, "eqns") else j.jaxpr)
    return n


def _prims(jaxpr, acc=None):
    acc = set() if acc is None else acc
    for e in jaxpr.eqns:
        acc.add(e.primitive.name)
        for v in e.params.values():
            for s in (v if isinstance(v, (list, tuple)) else [v]):
                j = getattr(s, "jaxpr", None)
                if j is not None:
                    _prims(j if hasattr(j, "eqns") else j.jaxpr, acc)
    return acc


# ---- fork pool for the obligations of one problem ------------------------------------------------
_CUR = None


def die_with_parent():
    """Linux: deliver SIGKILL to this process when its parent dies (a solver call inside libz3 does not react to SIGTERM, so orphaned workers
    of a killed check would otherwise keep a core busy until their own query budget runs out)."""
    try:
        import ctypes
        import signal
        ctypes.CDLL("libc.so.6", use_errno=True).prctl(1, int(signal.SIGKILL), 0, 0, 0)  # PR_SET_PDEATHSIG
    except Exception:
        pass


_NTIMEOUT = None   # shared counter (fork pool) / plain list (sequential) of obligations of the current problem that ran out of budget
GIVE_UP_AFTER = 3   # after this many budget overruns in ONE problem the remaining obligations get a short budget: when a proof evidently no longer
SHORT_BUDGET = 20.0  # goes through (changed code), waiting the full budget for every remaining clause only delays the verdict by hours


def _budget_for(problem):
    n = _NTIMEOUT.value if hasattr(_NTIMEOUT, "value") else (_NTIMEOUT[0] if _NTIMEOUT else 0)
    return min(problem.timeout, SHORT_BUDGET) if n >= GIVE_UP_AFTER else None


def _note_result(res):
    if res.get("verdict") not in (UNSAT, SAT, "error"):
        if hasattr(_NTIMEOUT, "value"):
            with _NTIMEOUT.get_lock():
                _NTIMEOUT.value += 1
        elif _NTIMEOUT is not None:
            _NTIMEOUT[0] += 1
    return res


def _solve_idx(i):
    try:
        return _note_result(_CUR.check_one(i, _budget_for(_CUR)))
    except Exception as ex:
        return {"name": _CUR.obligations[i][0], "verdict": "error", "error": repr(ex)[:300], "time": 0.0}


def discharge(problem, workers=1, select=None):
    """returns list of result dicts for the selected obligation indices"""
    global _CUR, _NTIMEOUT
    _NTIMEOUT = [0]
    idxs = [i for i in range(len(problem.obligations)) if select is None or select(problem.obligations[i])]
    trivial = [i for i in idxs if S.is_c(problem.obligations[i][3]) and problem.obligations[i][3]]
    hard = [i for i in idxs if i not in set(trivial)]
    results = [problem.check_one(i) for i in trivial]
    if (workers <= 1 or len(hard) <= 1) and len(hard) > 40 and not problem.pre_false:
        # many small obligations: one incremental solver (push/pop) instead of re-asserting all assumptions per query;
        # anything it does not settle as unsat goes to a fresh solver
        s = problem.solver(min(5.0, problem.timeout) * budget_scale())   # short budget: anything not settled at once goes to a fresh solver
        for i in hard:
            nm, cname, idx, term = problem.obligations[i]
            t0 = time.time()
            r = None
            if not S.is_c(term):
                s.push()
                s.add(z3.Not(term))
                r = s.check()
                s.pop()
            if r == z3.unsat:
                results.append({"name": nm, "verdict": UNSAT, "backend": "z3-" + z3.get_version_string() + " (incremental)",
                                "time": round(time.time() - t0, 3)})
            else:
                results.append(_note_result(problem.check_one(i, _budget_for(problem))))
    elif workers <= 1 or len(hard) <= 1:
        results += [_note_result(problem.check_one(i, _budget_for(problem))) for i in hard]
    else:
        _CUR = problem
        ctx = mp.get_context("fork")
        _NTIMEOUT = ctx.Value("i", 0)
        with ctx.Pool(min(workers, len(hard)), initializer=die_with_parent) as pool:
            results += pool.map(_solve_idx, hard, chunksize=1)
        _CUR = None
    return results


# ---- differential self-check of the engine against jax.core.eval_jaxpr --------------------------
def selfcheck(problem, rng, n=3):
    """Evaluate the jaxpr on concrete inputs with Engine J (constants fold all the way) and with JAX itself."""
    if problem.has_ext or "uf" in _prims(problem.cj.jaxpr):
        return {"skipped": "contains stubs"}
    bad = 0
    soft = 0
    done = 0
    for _ in range(n):
        flat, raw = [], []
        for st in problem.structs:
            k = S.kind(st.dtype)
            if k == "k":
                d = rng.integers(0, 2**32, size=tuple(st.shape) + (2,), dtype=np.uint64).astype(np.uint32)
                flat.append(jax.random.wrap_key_data(jnp.asarray(d)))
                o = np.empty(st.shape, dtype=object)
                for idx in np.ndindex(*st.shape):
                    o[idx] = S.Key(int(d[idx + (0,)]), int(d[idx + (1,)]))
                raw.append(o)
                continue
            if k == "b":
                v = rng.integers(0, 2, size=st.shape).astype(bool)
            elif k == "i":
                lo, hi = S.dtype_range(st.dtype)
                v = rng.integers(max(lo, -3), min(hi, 6) + 1, size=st.shape).astype(st.dtype)
            else:
                v = (rng.integers(-8, 17, size=st.shape) / 8.0).astype(st.dtype)
            flat.append(jnp.asarray(v))
            raw.append(S.obj(v))
        if "random_bits" in _prims(problem.cj.jaxpr) or "random_split" in _prims(problem.cj.jaxpr):
            return {"skipped": "uninterpreted PRNG primitives"}
        want = jax.core.eval_jaxpr(problem.cj.jaxpr, problem.cj.consts, *flat)
        sym = S.Sym(while_bound=64)
        try:
            got = sym.eval_closed(problem.cj, *raw)
        except Exception as ex:
            return {"skipped": "engine raised on concrete input: " + repr(ex)[:100]}
        if sym.havocked:
            return {"skipped": "havocked primitives " + str(sym.havocked)}
        done += 1
        # the engine computes floats as exact rationals, JAX in float32: a boolean / integer output that depends on float arithmetic (an
        # equality between two float expressions, a floor) may legitimately differ on a rounding boundary.  Such differences are counted
        # separately (the "floats as reals" assumption at work) and are not an engine fault; without float arithmetic every difference is.
        floaty = "float_as_real" in sym.uses
        for w, g in zip(want, got):
            w = np.asarray(w)
            gg = np.array([S.cv(x) if S.is_c(x) else np.nan for x in g.reshape(-1)], dtype=object).reshape(g.shape)
            if w.dtype == bool or np.issubdtype(w.dtype, np.integer):
                if not np.array_equal(w.astype(object), gg):
                    if floaty:
                        soft += 1
                    else:
                        bad += 1
            else:
                if not np.allclose(w.astype(np.float64), gg.astype(np.float64), rtol=1e-4, atol=1e-5, equal_nan=True):
                    bad += 1
    out = {"runs": done, "mismatches": bad}
    if soft:
        out["float_rounding_sensitive_differences"] = soft
    return out
