"""C10 — every generated instance is well-formed and solvable as advertised.

Generators are `reset`'s callees.  Light generators are proved for ALL keys: `ensures(key)` calls the REAL generator, the samplers of
jax.random are replaced at trace time by contract stubs (fresh symbols constrained by the assumed sampler contract), so one proof covers
every outcome a sampler may legally produce (a superset of all keys).  Heavy callees (`generate_maze`) are contract boundaries.
Finite generators (toy / dummy / databases) are checked natively and exhaustively.  Global solvability facts of loop-heavy generators
(maze connectivity, Connector random walk, MMST split) are bounded stand-ins only (labelled, never counted as proved).
"The generator is not a constant function of the key" is an existential: two keys with different outputs are exhibited natively."""
import jax
import jax.numpy as jnp
import numpy as np

from contracts import common as K

LEVEL = "proof"
KEY0 = jax.random.PRNGKey(0)


def _pairwise_distinct(flat):
    """flat: 1-D int array; one bool per unordered pair"""
    n = flat.shape[0]
    return jnp.stack([flat[i] != flat[j] for i in range(n) for j in range(i + 1, n)]) if n > 1 else jnp.asarray(True)


def _not_constant(ctx, name, gen, leaf, targets=(), keys=8):
    """existential: exhibit two keys with different outputs (native run of the real generator)"""
    outs = [np.asarray(leaf(gen(jax.random.PRNGKey(s)))) for s in range(keys)]
    wit = next(((0, s) for s in range(1, keys) if not np.array_equal(outs[0], outs[s])), None)
    ctx.structural(f"{name}/C10.generator_depends_on_the_key", wit is not None, "native witness pair (two keys, different instances)",
                   detail={"keys": list(wit) if wit else None, "tried": keys}, witness=None if wit else {"keys_tried": keys}, targets=list(targets))


# ======================================================================================================================
# 1. light generators: proved for all keys
# ======================================================================================================================
def run_tsp(ctx, n):
    from jumanji.environments.routing.tsp.generator import UniformGenerator
    gen = UniformGenerator(n)
    name = f"TSP.UniformGenerator[{n}]"

    def ens(key):
        s = gen(key)
        c = s.coordinates
        return {"C10.coordinates_in_unit_square": (c >= 0) & (c < 1),
                "C10.nothing_visited": ~s.visited_mask, "C10.num_visited_zero": s.num_visited == 0,
                "C10.trajectory_empty": s.trajectory == -1,
                "canary.first_city_in_lower_half": c[0, 0] < 0.5}

    ctx.prove(name, (KEY0,), ens, targets=[UniformGenerator.__call__])
    _not_constant(ctx, name, gen, lambda s: s.coordinates, [UniformGenerator.__call__])


def run_cvrp(ctx, n, cap, dmax):
    from jumanji.environments.routing.cvrp.generator import UniformGenerator
    gen = UniformGenerator(n, cap, dmax)
    name = f"CVRP.UniformGenerator[{n},cap{cap},dem{dmax}]"

    def ens(key):
        s = gen(key)
        c, d = s.coordinates, s.demands
        return {"C10.coordinates_in_unit_square": (c >= 0) & (c < 1),
                "C10.depot_demand_zero": d[0] == 0,
                "C10.customer_demand_in_documented_range": (d[1:] >= 1) & (d[1:] <= dmax),
                "C10.demand_never_exceeds_capacity": d <= cap,
                "C10.starts_at_depot_with_full_capacity": (s.position == 0) & (s.capacity == cap),
                "C10.only_depot_visited": s.visited_mask == (jnp.arange(n + 1) == 0),
                "canary.first_customer_demand_is_one": d[1] == 1}

    ctx.prove(name, (KEY0,), ens, targets=[UniformGenerator.__call__])
    _not_constant(ctx, name, gen, lambda s: (s.coordinates, s.demands)[0], [UniformGenerator.__call__])


def run_multicvrp(ctx, nc, nv):
    from jumanji.environments.routing.multi_cvrp.generator import UniformRandomGenerator
    from jumanji.environments.routing.multi_cvrp import utils as U
    gen = UniformRandomGenerator(nc, nv)
    name = f"MultiCVRP.UniformRandomGenerator[c{nc}v{nv}]"
    mx, cap, dmax = gen._map_max, gen._max_capacity, gen._customer_demand_max

    def ens(key):
        s = gen(key)
        c, d = s.nodes.coordinates, s.nodes.demands
        return {"C10.coordinates_in_declared_box": (c >= 0) & (c < mx),
                "C10.depot_demand_zero": d[0] == 0,
                "C10.demand_never_exceeds_vehicle_capacity": d <= cap,
                "C10.demand_at_most_documented_max": d <= dmax,
                "C10.vehicles_start_at_depot_full": (s.vehicles.positions == 0) & (s.vehicles.capacities == cap),
                "C10.window_end_after_start": s.windows.end >= s.windows.start,
                "C10.window_start_in_range": (s.windows.start >= 0) & (s.windows.start < gen._max_start_window),
                "C10.no_penalty_at_depot": (s.coeffs.early[0] == 0) & (s.coeffs.late[0] == 0),
                "canary.first_customer_demand_zero": d[1] == 0}

    ctx.prove(name, (KEY0,), ens, targets=[UniformRandomGenerator.__call__, U.generate_uniform_random_problem])
    _not_constant(ctx, name, gen, lambda s: s.nodes.coordinates, [UniformRandomGenerator.__call__])


def run_knapsack(ctx, n):
    from jumanji.environments.packing.knapsack.generator import RandomGenerator
    gen = RandomGenerator(n, 2.0)
    name = f"Knapsack.RandomGenerator[{n}]"

    def ens(key):
        s = gen(key)
        return {"C10.weights_in_unit_interval": (s.weights >= 0) & (s.weights < 1),
                "C10.values_in_unit_interval": (s.values >= 0) & (s.values < 1),
                "C10.nothing_packed": ~s.packed_items, "C10.full_budget": s.remaining_budget == 2.0,
                "canary.first_weight_in_lower_half": s.weights[0] < 0.5}

    ctx.prove(name, (KEY0,), ens, targets=[RandomGenerator.__call__])
    _not_constant(ctx, name, gen, lambda s: s.weights, [RandomGenerator.__call__])


def run_graph_coloring(ctx, n):
    from jumanji.environments.logic.graph_coloring.generator import RandomGenerator
    gen = RandomGenerator(n, 0.5)
    name = f"GraphColoring.RandomGenerator[{n}]"

    def ens(key):
        adj = gen(key)
        return {"C10.adjacency_symmetric": adj == adj.T, "C10.no_self_loops": ~jnp.diagonal(adj),
                "canary.graph_has_no_edge": ~jnp.any(adj)}

    ctx.prove(name, (KEY0,), ens, targets=[RandomGenerator.__call__])
    _not_constant(ctx, name, gen, lambda a: a, [RandomGenerator.__call__], keys=16)


def run_minesweeper(ctx, R, C, M):
    from jumanji.environments.logic.minesweeper.generator import UniformSamplingGenerator
    from jumanji.environments.logic.minesweeper import utils as U
    from jumanji.environments.logic.minesweeper.constants import UNEXPLORED_ID
    gen = UniformSamplingGenerator(R, C, M)
    name = f"Minesweeper.UniformSamplingGenerator[{R}x{C}m{M}]"

    def ens(key):
        s = gen(key)
        loc = s.flat_mine_locations
        mined = U.get_mined_board(s)
        return {"C10.mine_locations_on_the_board": (loc >= 0) & (loc < R * C),
                "C10.mines_pairwise_distinct": _pairwise_distinct(loc),
                "C10.exactly_num_mines_mined_cells": jnp.sum(mined) == M,
                "C10.board_all_unexplored": s.board == UNEXPLORED_ID,
                "C10.step_count_zero": s.step_count == 0,
                "canary.first_mine_at_cell_zero": loc[0] == 0}

    ok_shape = tuple(jax.eval_shape(gen, KEY0).flat_mine_locations.shape) == (M,)
    ctx.structural(f"{name}/C10.number_of_mine_slots_is_num_mines", ok_shape, "jax.eval_shape", targets=[UniformSamplingGenerator.generate_flat_mine_locations])
    ctx.prove(name, (KEY0,), ens, targets=[UniformSamplingGenerator.__call__, U.create_flat_mine_locations])
    _not_constant(ctx, name, gen, lambda s: s.flat_mine_locations, [U.create_flat_mine_locations], keys=16)


def run_jobshop(ctx, J, Mc, O, D):
    from jumanji.environments.packing.job_shop.generator import RandomGenerator
    gen = RandomGenerator(J, Mc, O, D)
    name = f"JobShop.RandomGenerator[{J}x{Mc}x{O}x{D}]"

    def ens(key):
        s = gen(key)
        m, d, mask = s.ops_machine_ids, s.ops_durations, s.ops_mask
        prefix = jnp.stack([~mask[:, k + 1] | mask[:, k] for k in range(O - 1)], axis=1) if O > 1 else jnp.ones((J, 1), bool)
        return {"C10.machine_id_in_range_where_op_exists": ~mask | ((m >= 0) & (m < Mc)),
                "C10.duration_at_least_one_where_op_exists": ~mask | ((d >= 1) & (d <= D)),
                "C10.padding_is_minus_one": mask | ((m == -1) & (d == -1)),
                "C10.ops_mask_is_a_prefix_per_job": prefix,
                "C10.at_least_one_op_per_job": mask[:, 0],
                "C10.machines_idle": (s.machines_job_ids == J) & (s.machines_remaining_times == 0),
                "C10.nothing_scheduled": s.scheduled_times == -1,
                "C10.step_count_zero": s.step_count == 0,
                "canary.every_job_has_max_ops": jnp.all(mask)}

    ctx.prove(name, (KEY0,), ens, targets=[RandomGenerator.__call__])
    _not_constant(ctx, name, gen, lambda s: s.ops_durations, [RandomGenerator.__call__], keys=16)


def run_snake(ctx, R, C):
    from jumanji.environments import Snake
    env = Snake(R, C, time_limit=7)
    name = f"Snake.reset[{R}x{C}]"

    def ens(key):
        s, _ = env.reset(key)
        hr, hc = s.head_position.row, s.head_position.col
        fr, fc = s.fruit_position.row, s.fruit_position.col
        rows, cols = jnp.arange(R)[:, None], jnp.arange(C)[None, :]
        at_head = (rows == hr) & (cols == hc)
        return {"C10.head_inside_grid": (hr >= 0) & (hr < R) & (hc >= 0) & (hc < C),
                "C10.fruit_inside_grid": (fr >= 0) & (fr < R) & (fc >= 0) & (fc < C),
                "C10.fruit_on_a_free_cell": ~((fr == hr) & (fc == hc)),
                "C10.body_is_exactly_the_head": s.body == at_head,
                "C10.tail_is_the_head": s.tail == at_head,
                "C10.body_state_is_one_at_head": s.body_state == at_head.astype(jnp.int32),
                "C10.length_one_step_zero": (s.length == 1) & (s.step_count == 0),
                "canary.head_in_first_row": hr == 0}

    ctx.prove(name, (KEY0,), ens, targets=[Snake.reset, Snake._sample_fruit_coord])
    _not_constant(ctx, name, lambda k: env.reset(k)[0], lambda s: jnp.stack([s.head_position.row, s.head_position.col, s.fruit_position.row, s.fruit_position.col]),
                  [Snake.reset], keys=16)


def run_2048(ctx, n):
    from jumanji.environments import Game2048
    env = Game2048(board_size=n)
    name = f"Game2048.reset[{n}]"

    def ens(key):
        s, _ = env.reset(key)
        b = s.board
        return {"C10.exactly_one_initial_tile": jnp.sum(b != 0) == 1,
                "C10.initial_tile_is_2_or_4": (b == 0) | (b == 1) | (b == 2),
                "C10.score_and_step_count_zero": (s.step_count == 0) & (s.score == 0),
                "canary.tile_in_first_cell": b[0, 0] != 0}

    ctx.prove(name, (KEY0,), ens, targets=[Game2048.reset, Game2048._generate_board, Game2048._add_random_cell])
    _not_constant(ctx, name, lambda k: env.reset(k)[0], lambda s: s.board, [Game2048.reset], keys=16)


def run_tetris(ctx, R, C):
    from jumanji.environments import Tetris
    from jumanji.environments.packing.tetris import utils as U
    env = Tetris(R, C, time_limit=7)
    name = f"Tetris.reset[{R}x{C}]"
    T = env.TETROMINOES_LIST
    nT = len(T)

    def ens(key):
        s, _ = env.reset(key)
        want = T[0, 0]
        for i in range(1, nT):
            want = jnp.where(s.tetromino_index == i, T[i, 0], want)
        return {"C10.tetromino_index_valid": (s.tetromino_index >= 0) & (s.tetromino_index < nT),
                "C10.tetromino_is_the_indexed_piece_unrotated": s.new_tetromino == want,
                "C10.grid_empty": s.grid_padded == 0,
                "C10.score_and_step_count_zero": (s.step_count == 0) & (s.score == 0),
                "canary.first_piece_is_piece_zero": s.tetromino_index == 0}

    ctx.prove(name, (KEY0,), ens, targets=[Tetris.reset, U.sample_tetromino_list], merge_over=8)
    ok = all(int(np.asarray(T[i, r]).sum()) == 4 for i in range(nT) for r in range(T.shape[1]))
    ctx.structural(f"{name}/C10.every_piece_has_four_cells", ok, "native evaluation of the constant piece table", targets=[Tetris.__init__])
    _not_constant(ctx, name, lambda k: env.reset(k)[0], lambda s: s.tetromino_index, [Tetris.reset], keys=16)


# ======================================================================================================================
def tasks(tier):
    q = tier == "quick"
    out = {}
    for n in ((3, 4) if q else (3, 4, 5, 8)):
        out[f"TSP.UniformGenerator[{n}]"] = (run_tsp, {"n": n})
    for (n, cap, d) in (((3, 10, 5), (4, 7, 7)) if q else ((3, 10, 5), (4, 7, 7), (8, 30, 10))):
        out[f"CVRP.UniformGenerator[{n},cap{cap},dem{d}]"] = (run_cvrp, {"n": n, "cap": cap, "dmax": d})
    for (nc, nv) in (((6, 2),) if q else ((6, 2), (6, 3))):
        out[f"MultiCVRP.UniformRandomGenerator[c{nc}v{nv}]"] = (run_multicvrp, {"nc": nc, "nv": nv})
    for n in ((3, 5) if q else (3, 5, 10)):
        out[f"Knapsack.RandomGenerator[{n}]"] = (run_knapsack, {"n": n})
    for n in ((3, 4) if q else (3, 4, 5, 7)):
        out[f"GraphColoring.RandomGenerator[{n}]"] = (run_graph_coloring, {"n": n})
    for (R, C, M) in (((2, 2, 1), (3, 4, 3), (4, 3, 11)) if q else ((2, 2, 1), (3, 4, 3), (4, 3, 11), (5, 5, 6), (2, 3, 0))):
        out[f"Minesweeper.UniformSamplingGenerator[{R}x{C}m{M}]"] = (run_minesweeper, {"R": R, "C": C, "M": M})
    for cfg in (((2, 2, 2, 2), (3, 2, 3, 3)) if q else ((2, 2, 2, 2), (3, 2, 3, 3), (4, 3, 4, 5), (2, 2, 1, 1))):
        out["JobShop.RandomGenerator[%dx%dx%dx%d]" % cfg] = (run_jobshop, dict(zip(("J", "Mc", "O", "D"), cfg)))
    for (R, C) in (((3, 3), (3, 4), (4, 3)) if q else ((3, 3), (3, 4), (4, 3), (5, 6), (2, 2))):
        out[f"Snake.reset[{R}x{C}]"] = (run_snake, {"R": R, "C": C})
    for n in ((2, 3) if q else (2, 3, 4)):
        out[f"Game2048.reset[{n}]"] = (run_2048, {"n": n})
    for (R, C) in (((4, 4), (5, 4)) if q else ((4, 4), (5, 4), (4, 6), (10, 10))):
        out[f"Tetris.reset[{R}x{C}]"] = (run_tetris, {"R": R, "C": C})
    return out


CONFIG_BOUND = "sizes enumerated per generator (see task ids); keys / sampler outcomes unbounded for the proved obligations"
NOT_VERIFIED = []
ASSUMPTIONS = ["jax.random sampler contracts (jxv/stubs.py): randint in range, uniform in [lo,hi), choice lands on p>0 / replace=False distinct, permutation is a permutation"]
LEVEL_TEXT = ""
LEVEL_NOTE = ""
