"""C10 — every generated instance is well-formed and solvable as advertised.

Generators are `reset`'s callees.  Light generators are proved for ALL keys: `ensures(key)` calls the REAL generator, the samplers of
jax.random are replaced at trace time by contract stubs (fresh symbols constrained by the assumed sampler contract), so one proof covers
every outcome a sampler may legally produce (a superset of all keys).  Heavy callees (`generate_maze`) are contract boundaries.
Finite generators (toy / dummy / databases) are checked natively and exhaustively.  Global solvability facts of loop-heavy generators
(maze connectivity, Connector random walk, MMST split) are bounded stand-ins only (labelled, never counted as proved).
"The generator is not a constant function of the key" is an existential: two keys with different outputs are exhibited natively."""
import jax
import jax.numpy as jnp
import numpy as np

from contracts import common as K

LEVEL = "proof"
KEY0 = jax.random.PRNGKey(0)


def _fresh():
    """JAX caches the jaxprs of scan / while / cond bodies by function identity (bound methods and module-level functions compare equal across calls).
    Worker processes are reused across tasks and a task mixes stub-traced proofs with native runs, so a body traced under the sampler stubs would be
    replayed inside a later native jit (and vice versa).  Every switch between the two modes starts from empty caches."""
    jax.clear_caches()


def _prove(ctx, *a, **kw):
    _fresh()
    try:
        return ctx.prove(*a, **kw)
    finally:
        _fresh()


def _any(bools):
    r = jnp.asarray(False)
    for b in bools:
        r = r | b
    return r


def _pairwise_distinct(flat):
    """flat: 1-D int array; one bool per unordered pair"""
    n = flat.shape[0]
    return jnp.stack([flat[i] != flat[j] for i in range(n) for j in range(i + 1, n)]) if n > 1 else jnp.asarray(True)


def _not_constant(ctx, name, gen, leaf, targets=(), keys=8):
    """existential: exhibit two keys with different outputs (native run of the real generator)"""
    _fresh()
    outs = [np.asarray(leaf(gen(jax.random.PRNGKey(s)))) for s in range(keys)]
    wit = next(((0, s) for s in range(1, keys) if not np.array_equal(outs[0], outs[s])), None)
    ctx.structural(f"{name}/C10.generator_depends_on_the_key", wit is not None, "native witness pair (two keys, different instances)",
                   detail={"keys": list(wit) if wit else None, "tried": keys}, witness=None if wit else {"keys_tried": keys}, targets=list(targets))


# ======================================================================================================================
# 1. light generators: proved for all keys
# ======================================================================================================================
def run_tsp(ctx, n):
    from jumanji.environments.routing.tsp.generator import UniformGenerator
    gen = UniformGenerator(n)
    name = f"TSP.UniformGenerator[{n}]"

    def ens(key):
        s = gen(key)
        c = s.coordinates
        return {"C10.coordinates_in_unit_square": (c >= 0) & (c < 1),
                "C10.nothing_visited": ~s.visited_mask, "C10.num_visited_zero": s.num_visited == 0,
                "C10.trajectory_empty": s.trajectory == -1,
                "canary.first_city_in_lower_half": c[0, 0] < 0.5}

    _prove(ctx, name, (KEY0,), ens, targets=[UniformGenerator.__call__])
    _not_constant(ctx, name, gen, lambda s: s.coordinates, [UniformGenerator.__call__])


def run_cvrp(ctx, n, cap, dmax):
    from jumanji.environments.routing.cvrp.generator import UniformGenerator
    gen = UniformGenerator(n, cap, dmax)
    name = f"CVRP.UniformGenerator[{n},cap{cap},dem{dmax}]"

    def ens(key):
        s = gen(key)
        c, d = s.coordinates, s.demands
        return {"C10.coordinates_in_unit_square": (c >= 0) & (c < 1),
                "C10.depot_demand_zero": d[0] == 0,
                "C10.customer_demand_in_documented_range": (d[1:] >= 1) & (d[1:] <= dmax),
                "C10.demand_never_exceeds_capacity": d <= cap,
                "C10.starts_at_depot_with_full_capacity": (s.position == 0) & (s.capacity == cap),
                "C10.only_depot_visited": s.visited_mask == (jnp.arange(n + 1) == 0),
                "canary.first_customer_demand_is_one": d[1] == 1}

    _prove(ctx, name, (KEY0,), ens, targets=[UniformGenerator.__call__])
    _not_constant(ctx, name, gen, lambda s: (s.coordinates, s.demands)[0], [UniformGenerator.__call__])


def run_multicvrp(ctx, nc, nv):
    from jumanji.environments.routing.multi_cvrp.generator import UniformRandomGenerator
    from jumanji.environments.routing.multi_cvrp import utils as U
    gen = UniformRandomGenerator(nc, nv)
    name = f"MultiCVRP.UniformRandomGenerator[c{nc}v{nv}]"
    mx, cap, dmax = gen._map_max, gen._max_capacity, gen._customer_demand_max

    def ens(key):
        s = gen(key)
        c, d = s.nodes.coordinates, s.nodes.demands
        return {"C10.coordinates_in_declared_box": (c >= 0) & (c < mx),
                "C10.depot_demand_zero": d[0] == 0,
                "C10.demand_never_exceeds_vehicle_capacity": d <= cap,
                "C10.demand_at_most_documented_max": d <= dmax,
                "C10.vehicles_start_at_depot_full": (s.vehicles.positions == 0) & (s.vehicles.capacities == cap),
                "C10.window_end_after_start": s.windows.end >= s.windows.start,
                "C10.window_start_in_range": (s.windows.start >= 0) & (s.windows.start < gen._max_start_window),
                "C10.no_penalty_at_depot": (s.coeffs.early[0] == 0) & (s.coeffs.late[0] == 0),
                "canary.first_customer_demand_zero": d[1] == 0}

    _prove(ctx, name, (KEY0,), ens, targets=[UniformRandomGenerator.__call__, U.generate_uniform_random_problem])
    _not_constant(ctx, name, gen, lambda s: s.nodes.coordinates, [UniformRandomGenerator.__call__])


def run_knapsack(ctx, n):
    from jumanji.environments.packing.knapsack.generator import RandomGenerator
    gen = RandomGenerator(n, 2.0)
    name = f"Knapsack.RandomGenerator[{n}]"

    def ens(key):
        s = gen(key)
        return {"C10.weights_in_unit_interval": (s.weights >= 0) & (s.weights < 1),
                "C10.values_in_unit_interval": (s.values >= 0) & (s.values < 1),
                "C10.nothing_packed": ~s.packed_items, "C10.full_budget": s.remaining_budget == 2.0,
                "canary.first_weight_in_lower_half": s.weights[0] < 0.5}

    _prove(ctx, name, (KEY0,), ens, targets=[RandomGenerator.__call__])
    _not_constant(ctx, name, gen, lambda s: s.weights, [RandomGenerator.__call__])


def run_graph_coloring(ctx, n):
    from jumanji.environments.logic.graph_coloring.generator import RandomGenerator
    gen = RandomGenerator(n, 0.5)
    name = f"GraphColoring.RandomGenerator[{n}]"

    def ens(key):
        adj = gen(key)
        return {"C10.adjacency_symmetric": adj == adj.T, "C10.no_self_loops": ~jnp.diagonal(adj),
                "canary.graph_has_no_edge": ~jnp.any(adj)}

    _prove(ctx, name, (KEY0,), ens, targets=[RandomGenerator.__call__])
    _not_constant(ctx, name, gen, lambda a: a, [RandomGenerator.__call__], keys=16)


def run_minesweeper(ctx, R, C, M):
    from jumanji.environments.logic.minesweeper.generator import UniformSamplingGenerator
    from jumanji.environments.logic.minesweeper import utils as U
    from jumanji.environments.logic.minesweeper.constants import UNEXPLORED_ID
    gen = UniformSamplingGenerator(R, C, M)
    name = f"Minesweeper.UniformSamplingGenerator[{R}x{C}m{M}]"

    def ens(key):
        s = gen(key)
        loc = s.flat_mine_locations
        mined = U.get_mined_board(s)
        return {"C10.mine_locations_on_the_board": (loc >= 0) & (loc < R * C),
                "C10.mines_pairwise_distinct": _pairwise_distinct(loc),
                "C10.exactly_num_mines_mined_cells": jnp.sum(mined) == M,
                "C10.board_all_unexplored": s.board == UNEXPLORED_ID,
                "C10.step_count_zero": s.step_count == 0,
                "canary.first_mine_at_cell_zero": loc[0] == 0}

    ok_shape = tuple(jax.eval_shape(gen, KEY0).flat_mine_locations.shape) == (M,)
    ctx.structural(f"{name}/C10.number_of_mine_slots_is_num_mines", ok_shape, "jax.eval_shape", targets=[UniformSamplingGenerator.generate_flat_mine_locations])
    _prove(ctx, name, (KEY0,), ens, targets=[UniformSamplingGenerator.__call__, U.create_flat_mine_locations])
    _not_constant(ctx, name, gen, lambda s: s.flat_mine_locations, [U.create_flat_mine_locations], keys=16)


def run_jobshop(ctx, J, Mc, O, D):
    from jumanji.environments.packing.job_shop.generator import RandomGenerator
    gen = RandomGenerator(J, Mc, O, D)
    name = f"JobShop.RandomGenerator[{J}x{Mc}x{O}x{D}]"

    def ens(key):
        s = gen(key)
        m, d, mask = s.ops_machine_ids, s.ops_durations, s.ops_mask
        prefix = jnp.stack([~mask[:, k + 1] | mask[:, k] for k in range(O - 1)], axis=1) if O > 1 else jnp.ones((J, 1), bool)
        return {"C10.machine_id_in_range_where_op_exists": ~mask | ((m >= 0) & (m < Mc)),
                "C10.duration_at_least_one_where_op_exists": ~mask | ((d >= 1) & (d <= D)),
                "C10.padding_is_minus_one": mask | ((m == -1) & (d == -1)),
                "C10.ops_mask_is_a_prefix_per_job": prefix,
                "C10.at_least_one_op_per_job": mask[:, 0],
                "C10.machines_idle": (s.machines_job_ids == J) & (s.machines_remaining_times == 0),
                "C10.nothing_scheduled": s.scheduled_times == -1,
                "C10.step_count_zero": s.step_count == 0,
                "canary.every_job_has_max_ops": jnp.all(mask)}

    _prove(ctx, name, (KEY0,), ens, targets=[RandomGenerator.__call__])
    _not_constant(ctx, name, gen, lambda s: s.ops_durations, [RandomGenerator.__call__], keys=16)


def run_snake(ctx, R, C):
    from jumanji.environments import Snake
    env = Snake(R, C, time_limit=7)
    name = f"Snake.reset[{R}x{C}]"

    def ens(key):
        s, _ = env.reset(key)
        hr, hc = s.head_position.row, s.head_position.col
        fr, fc = s.fruit_position.row, s.fruit_position.col
        rows, cols = jnp.arange(R)[:, None], jnp.arange(C)[None, :]
        at_head = (rows == hr) & (cols == hc)
        return {"C10.head_inside_grid": (hr >= 0) & (hr < R) & (hc >= 0) & (hc < C),
                "C10.fruit_inside_grid": (fr >= 0) & (fr < R) & (fc >= 0) & (fc < C),
                "C10.fruit_on_a_free_cell": ~((fr == hr) & (fc == hc)),
                "C10.body_is_exactly_the_head": s.body == at_head,
                "C10.tail_is_the_head": s.tail == at_head,
                "C10.body_state_is_one_at_head": s.body_state == at_head.astype(jnp.int32),
                "C10.length_one_step_zero": (s.length == 1) & (s.step_count == 0),
                "canary.head_in_first_row": hr == 0}

    _prove(ctx, name, (KEY0,), ens, targets=[Snake.reset, Snake._sample_fruit_coord])
    _not_constant(ctx, name, lambda k: env.reset(k)[0], lambda s: jnp.stack([s.head_position.row, s.head_position.col, s.fruit_position.row, s.fruit_position.col]),
                  [Snake.reset], keys=16)


def run_2048(ctx, n):
    from jumanji.environments import Game2048
    env = Game2048(board_size=n)
    name = f"Game2048.reset[{n}]"

    def ens(key):
        s, _ = env.reset(key)
        b = s.board
        return {"C10.exactly_one_initial_tile": jnp.sum(b != 0) == 1,
                "C10.initial_tile_is_2_or_4": (b == 0) | (b == 1) | (b == 2),
                "C10.score_and_step_count_zero": (s.step_count == 0) & (s.score == 0),
                "canary.tile_in_first_cell": b[0, 0] != 0}

    _prove(ctx, name, (KEY0,), ens, targets=[Game2048.reset, Game2048._generate_board, Game2048._add_random_cell])
    _not_constant(ctx, name, lambda k: env.reset(k)[0], lambda s: s.board, [Game2048.reset], keys=16)


def run_tetris(ctx, R, C):
    from jumanji.environments import Tetris
    from jumanji.environments.packing.tetris import utils as U
    env = Tetris(R, C, time_limit=7)
    name = f"Tetris.reset[{R}x{C}]"
    T = env.TETROMINOES_LIST
    nT = len(T)

    def ens(key):
        s, _ = env.reset(key)
        want = T[0, 0]
        for i in range(1, nT):
            want = jnp.where(s.tetromino_index == i, T[i, 0], want)
        return {"C10.tetromino_index_valid": (s.tetromino_index >= 0) & (s.tetromino_index < nT),
                "C10.tetromino_is_the_indexed_piece_unrotated": s.new_tetromino == want,
                "C10.grid_empty": s.grid_padded == 0,
                "C10.score_and_step_count_zero": (s.step_count == 0) & (s.score == 0),
                "canary.first_piece_is_piece_zero": s.tetromino_index == 0}

    _prove(ctx, name, (KEY0,), ens, targets=[Tetris.reset, U.sample_tetromino_list], merge_over=8)
    ok = all(int(np.asarray(T[i, r]).sum()) == 4 for i in range(nT) for r in range(T.shape[1]))
    ctx.structural(f"{name}/C10.every_piece_has_four_cells", ok, "native evaluation of the constant piece table", targets=[Tetris.__init__])
    _not_constant(ctx, name, lambda k: env.reset(k)[0], lambda s: s.tetromino_index, [Tetris.reset], keys=16)


# ======================================================================================================================
# 2. entities start on distinct free cells
# ======================================================================================================================
def run_connector_uniform(ctx, G, A):
    from jumanji.environments.routing.connector.generator import UniformRandomGenerator
    from jumanji.environments.routing.connector.utils import get_position, get_target
    gen = UniformRandomGenerator(G, A)
    name = f"Connector.UniformRandomGenerator[{G}x{G}a{A}]"

    def ens(key):
        s = gen(key)
        st, tg = s.agents.start, s.agents.target
        flat = jnp.concatenate([st[:, 0] * G + st[:, 1], tg[:, 0] * G + tg[:, 1]])
        rows, cols = jnp.arange(G)[:, None], jnp.arange(G)[None, :]
        want = jnp.zeros((G, G), jnp.int32)
        for a in range(A):
            want = jnp.where((rows == st[a, 0]) & (cols == st[a, 1]), get_position(a), want)
            want = jnp.where((rows == tg[a, 0]) & (cols == tg[a, 1]), get_target(a), want)
        return {"C10.heads_inside_grid": (st >= 0) & (st < G), "C10.targets_inside_grid": (tg >= 0) & (tg < G),
                "C10.heads_and_targets_pairwise_distinct": _pairwise_distinct(flat),
                "C10.grid_shows_exactly_one_head_and_one_target_per_agent": s.grid == want,
                "C10.agents_start_at_their_heads": s.agents.position == st,
                "C10.agent_ids_and_step_count": (s.agents.id == jnp.arange(A)) & (s.step_count == 0),
                "canary.first_head_in_first_row": st[0, 0] == 0}

    _prove(ctx, name, (KEY0,), ens, targets=[UniformRandomGenerator.__call__])
    _not_constant(ctx, name, gen, lambda s: s.grid, [UniformRandomGenerator.__call__], keys=16)


LBF_FOCUS = ("C10.agents_inside_grid", "C10.no_agent_on_a_food_cell")


def run_lbf(ctx, G, A, F, L=2, coop=False, merge_over=None, nkeys=500, focus=None):
    from jumanji.environments.routing.lbf.generator import RandomGenerator
    gen = RandomGenerator(G, A, F, G, max_agent_level=L, force_coop=coop)
    name = f"LBF.RandomGenerator[g{G}a{A}f{F}l{L}{'coop' if coop else ''}]"

    def clauses(s):
        ap, fp = s.agents.position, s.food_items.position
        aflat = ap[:, 0] * G + ap[:, 1]
        fflat = fp[:, 0] * G + fp[:, 1]
        out = {"C10.agents_inside_grid": (ap >= 0) & (ap < G),
               "C10.agents_pairwise_distinct": _pairwise_distinct(aflat),
               "C10.food_not_on_the_edge": (fp >= 1) & (fp <= G - 2),
               "C10.no_agent_on_a_food_cell": jnp.stack([aflat[i] != fflat[j] for i in range(A) for j in range(F)]),
               "C10.agent_levels_in_range": (s.agents.level >= 1) & (s.agents.level <= L),
               "C10.food_levels_at_least_one": s.food_items.level >= 1,
               "C10.every_food_can_be_loaded_by_all_agents_together": s.food_items.level <= jnp.sum(s.agents.level),
               "C10.nothing_eaten_nobody_loading": jnp.all(~s.food_items.eaten) & jnp.all(~s.agents.loading) & (s.step_count == 0),
               "canary.first_agent_in_first_row": ap[0, 0] == 0}
        if F > 1:
            out["C10.food_pairwise_distinct_and_not_adjacent"] = jnp.stack(
                [jnp.abs(fp[i, 0] - fp[j, 0]) + jnp.abs(fp[i, 1] - fp[j, 1]) > 1 for i in range(F) for j in range(i + 1, F)])
        return out

    if focus:
        # big adversarial configuration: `sample_food` (whose sampler sits inside a scan, so its outcomes cannot be pinned per iteration in a replay) is a
        # CONTRACT BOUNDARY: its result is a symbolic array constrained by its own post-condition (proved above at the small configurations)
        def req(key, food):
            return {"sample_food.not_on_the_edge": (food >= 1) & (food <= G - 2),
                    "sample_food.pairwise_distinct_and_not_adjacent": jnp.stack(
                        [jnp.abs(food[i, 0] - food[j, 0]) + jnp.abs(food[i, 1] - food[j, 1]) > 1 for i in range(F) for j in range(i + 1, F)]) if F > 1 else jnp.asarray(True)}

        def ens_b(key, food):
            with K.with_attr(gen, "sample_food", lambda k: food):
                s = gen(key)
            out = clauses(s)
            out["C10.food_is_where_sample_food_put_it"] = s.food_items.position == food
            return {k: v for k, v in out.items() if k.startswith("canary.") or k in focus or k == "C10.food_is_where_sample_food_put_it"}

        _prove(ctx, name, (KEY0, jnp.ones((F, 2), jnp.int32)), ens_b, req, targets=[RandomGenerator.__call__, RandomGenerator.sample_agents], merge_over=merge_over)
    else:
        _prove(ctx, name, (KEY0,), lambda key: clauses(gen(key)),
                  targets=[RandomGenerator.__call__, RandomGenerator.sample_food, RandomGenerator.sample_agents, RandomGenerator.sample_levels], merge_over=merge_over)
    _not_constant(ctx, name, gen, lambda s: s.agents.position, [RandomGenerator.__call__], keys=16)
    if nkeys:   # the same clauses on real keys (bounded)
        _fresh()
        st = jax.jit(jax.vmap(gen))(jax.vmap(jax.random.PRNGKey)(jnp.arange(nkeys)))
        ap, fp = np.asarray(st.agents.position), np.asarray(st.food_items.position)
        af, ff = ap[:, :, 0] * G + ap[:, :, 1], fp[:, :, 0] * G + fp[:, :, 1]
        on_food = (af[:, :, None] == ff[:, None, :]).any(axis=(1, 2))
        dup = np.array([len(set(r.tolist())) < A for r in af])
        food_bad = np.array([any(abs(fp[k, i, 0] - fp[k, j, 0]) + abs(fp[k, i, 1] - fp[k, j, 1]) <= 1 for i in range(F) for j in range(i + 1, F)) for k in range(nkeys)]) \
            | np.any((fp < 1) | (fp > G - 2), axis=(1, 2))
        bad = np.nonzero(on_food | dup | food_bad | np.any((ap < 0) | (ap >= G), axis=(1, 2)))[0]
        wit = {"key": f"PRNGKey({int(bad[0])})", "food": fp[bad[0]].tolist(), "agents": ap[bad[0]].tolist(), "agent_on_food": bool(on_food[bad[0]]),
               "failing_keys": bad[:20].tolist(), "n_failing": int(len(bad))} if len(bad) else None
        ctx.bounded_check(f"{name}/C10.agents_and_food_on_distinct_cells_food_interior_and_non_adjacent", nkeys, int(len(bad)), f"native run on PRNGKey(0..{nkeys - 1})", wit)


def run_rware(ctx, cfg):
    from jumanji.environments.routing.robot_warehouse.generator import RandomGenerator
    from jumanji.environments.routing.robot_warehouse import utils_spawn as US
    gen = RandomGenerator(*cfg)
    name = "RobotWarehouse.RandomGenerator[%d,%d,%d,a%d,s%d,q%d]" % cfg
    H, W = (int(x) for x in gen._grid_size)
    A, Q = cfg[3], cfg[5]
    nS = int(gen._shelf_ids.shape[0])
    spos = np.asarray(gen._shelf_positions)

    def ens(key):
        s = gen(key)
        x, y = s.agents.position.x, s.agents.position.y
        rows, cols = jnp.arange(H)[:, None], jnp.arange(W)[None, :]
        want = jnp.zeros((H, W), jnp.int32)
        for a in range(A):
            want = jnp.where((rows == x[a]) & (cols == y[a]), a + 1, want)
        q = s.request_queue
        requested = jnp.stack([jnp.any(q == i) for i in range(nS)])
        out = {"C10.agents_inside_grid": (x >= 0) & (x < H) & (y >= 0) & (y < W),
               "C10.agent_channel_shows_each_agent_on_its_cell": s.grid[1] == want,
               "C10.agent_direction_valid": (s.agents.direction >= 0) & (s.agents.direction < 4),
               "C10.nobody_carrying": s.agents.is_carrying == 0,
               "C10.request_queue_ids_valid": (q >= 0) & (q < nS),
               "C10.requested_shelves_are_exactly_the_queue": (s.shelves.is_requested == 1) == requested,
               "C10.shelves_on_their_rack_cells": (s.shelves.position.x == spos[:, 0]) & (s.shelves.position.y == spos[:, 1]),
               "canary.first_agent_in_first_row": x[0] == 0}
        if A > 1:
            out["C10.agents_pairwise_distinct"] = _pairwise_distinct(x * W + y)
        if Q > 1:
            out["C10.request_queue_pairwise_distinct"] = _pairwise_distinct(q)
        return out

    _prove(ctx, name, (KEY0,), ens, targets=[RandomGenerator.__call__, US.spawn_random_entities, US.place_entities_on_grid], merge_over=64)
    shelf_grid = np.zeros((H, W), np.int64)
    for i, (a, b) in enumerate(spos):
        shelf_grid[a, b] = i + 1
    st = gen(KEY0)
    ok = np.array_equal(np.asarray(st.grid[0]), shelf_grid) and not np.any(np.asarray(gen.highways)[spos[:, 0], spos[:, 1]]) and len({tuple(p) for p in spos}) == nS
    ctx.structural(f"{name}/C10.shelves_on_distinct_non_highway_cells", bool(ok), "native evaluation (the shelf layout is a constant of the configuration)",
                   targets=[type(gen).__mro__[1]._make_warehouse])
    _not_constant(ctx, name, gen, lambda s: jnp.concatenate([s.agents.position.x, s.agents.position.y, s.request_queue]), [US.spawn_random_entities], keys=16)


def run_maze_gen(ctx, R, C):
    from jumanji.environments.routing.maze import generator as MG
    gen = MG.RandomGenerator(R, C)
    name = f"Maze.RandomGenerator[{R}x{C}]"
    walls0 = jnp.zeros((R, C), jnp.int8)

    def req(key, maze):
        return {"generate_maze.values_are_EMPTY_or_WALL": (maze == 0) | (maze == 1),
                "generate_maze.at_least_two_free_cells": jnp.sum(maze == 0) >= 2}

    def ens(key, maze):
        with K.with_attr(MG.maze_generation, "generate_maze", lambda w, h, k: maze):
            s = gen(key)
        ar, ac, tr, tc = s.agent_position.row, s.agent_position.col, s.target_position.row, s.target_position.col
        inside = lambda r, c: (r >= 0) & (r < R) & (c >= 0) & (c < C)
        free = lambda r, c: maze[jnp.clip(r, 0, R - 1), jnp.clip(c, 0, C - 1)] == 0
        return {"C10.start_inside_grid": inside(ar, ac), "C10.target_inside_grid": inside(tr, tc),
                "C10.start_cell_free": inside(ar, ac) & free(ar, ac), "C10.target_cell_free": inside(tr, tc) & free(tr, tc),
                "C10.start_differs_from_target": (ar != tr) | (ac != tc),
                "C10.walls_are_the_generated_maze": s.walls == (maze == 1),
                "C10.step_count_zero": s.step_count == 0,
                "canary.start_at_origin": (ar == 0) & (ac == 0)}

    _prove(ctx, name, (KEY0, walls0), ens, req, targets=[MG.RandomGenerator.__call__], merge_over=64,
              note="generate_maze is a contract boundary: its result is a symbolic maze with >= 2 free cells")
    # the boundary is called with (width=num_cols, height=num_rows): checked on the abstract value of the real call
    shp = tuple(jax.eval_shape(lambda k: MG.maze_generation.generate_maze(gen.num_cols, gen.num_rows, k), KEY0).shape)
    ctx.structural(f"{name}/C10.maze_shape_is_rows_by_cols", shp == (R, C) and tuple(jax.eval_shape(gen, KEY0).walls.shape) == (R, C), "jax.eval_shape",
                   targets=[MG.RandomGenerator.__call__])
    _not_constant(ctx, name, gen, lambda s: jnp.concatenate([s.walls.ravel().astype(jnp.int32), jnp.stack([s.agent_position.row, s.agent_position.col])]),
                  [MG.RandomGenerator.__call__])


def run_cleaner_gen(ctx, R, C, A):
    from jumanji.environments.routing.cleaner import generator as CG
    from jumanji.environments.routing.cleaner.constants import CLEAN, DIRTY, WALL
    gen = CG.RandomGenerator(R, C, A)
    name = f"Cleaner.RandomGenerator[{R}x{C}a{A}]"
    maze0 = jnp.zeros((R, C), jnp.int8)

    def req(key, maze):
        return {"generate_maze.values_are_EMPTY_or_WALL": (maze == 0) | (maze == 1)}

    def ens(key, maze):
        with K.with_attr(CG.maze_generation, "generate_maze", lambda w, h, k: maze):
            s = gen(key)
        rows, cols = jnp.arange(R)[:, None], jnp.arange(C)[None, :]
        origin = (rows == 0) & (cols == 0)
        want = jnp.where(origin, CLEAN, jnp.where(maze == 1, WALL, DIRTY))
        return {"C10.origin_cell_free_and_clean": s.grid[0, 0] == CLEAN,
                "C10.all_agents_start_at_the_origin": s.agents_locations == 0,
                "C10.grid_is_the_maze_walls_else_dirty": s.grid == want,
                "C10.step_count_zero": s.step_count == 0,
                "canary.grid_has_no_wall": jnp.all(s.grid != WALL)}

    _prove(ctx, name, (KEY0, maze0), ens, req, targets=[CG.RandomGenerator.__call__, CG.RandomGenerator._adapt_values], merge_over=64,
              note="generate_maze is a contract boundary: its result is a symbolic maze")
    ctx.structural(f"{name}/C10.grid_shape_is_rows_by_cols", tuple(jax.eval_shape(gen, KEY0).grid.shape) == (R, C), "jax.eval_shape", targets=[CG.RandomGenerator.__call__])
    _not_constant(ctx, name, gen, lambda s: s.grid, [CG.RandomGenerator.__call__])


# ======================================================================================================================
# 3. maze_utils: function-level contracts (all values) + connectivity as a bounded stand-in
# ======================================================================================================================
def run_stack(ctx, N, Fe):
    from jumanji.environments.commons.maze_utils import stack as ST
    name = f"maze_utils.stack[max{N},feat{Fe}]"
    data0 = jnp.zeros((N, Fe), jnp.int32)
    el0 = jnp.zeros((Fe,), jnp.int32)
    rows = jnp.arange(N)[:, None]

    def ens_push(data, idx, el):
        s = ST.Stack(data, idx)
        s2 = ST.stack_push(s, el)
        s3, top = ST.stack_pop(s2)
        below = rows < idx
        return {"C10.push_increments_size": s2.insertion_index == idx + 1,
                "C10.push_writes_the_element_on_top": s2.data[jnp.clip(idx, 0, N - 1)] == el,
                "C10.push_leaves_other_rows_untouched": (rows == idx) | (s2.data == data),
                "C10.pop_after_push_returns_the_element": top == el,
                "C10.pop_after_push_restores_the_size": s3.insertion_index == idx,
                "C10.pop_after_push_restores_the_live_rows": ~below | (s3.data == data),
                "C10.pushed_stack_is_not_empty": ~ST.empty_stack(s2),
                "canary.push_leaves_data_unchanged": jnp.all(s2.data == data)}

    _prove(ctx, name + ".push", (data0, jnp.int32(0), el0), ens_push, lambda d, i, e: {"room_left": (i >= 0) & (i < N)},
              targets=[ST.stack_push, ST.stack_pop, ST.empty_stack], use_stubs=False, merge_over=16)

    def ens_pop(data, idx):
        s2, top = ST.stack_pop(ST.Stack(data, idx))
        s3 = ST.stack_push(s2, top)
        return {"C10.pop_returns_the_top_row": top == data[jnp.clip(idx - 1, 0, N - 1)],
                "C10.pop_decrements_size": s2.insertion_index == idx - 1,
                "C10.pop_leaves_data_untouched": s2.data == data,
                "C10.push_after_pop_restores_the_stack": (s3.data == data) & (s3.insertion_index == idx),
                "C10.empty_iff_size_zero": ST.empty_stack(s2) == (idx == 1),
                "canary.pop_returns_row_zero": jnp.all(top == data[0])}

    _prove(ctx, name + ".pop", (data0, jnp.int32(1)), ens_pop, lambda d, i: {"not_empty": (i >= 1) & (i <= N)},
              targets=[ST.stack_pop, ST.stack_push, ST.empty_stack], use_stubs=False, merge_over=16)
    s0 = ST.create_stack(N, Fe)
    ok = bool(ST.empty_stack(s0)) and tuple(s0.data.shape) == (N, Fe) and int(s0.insertion_index) == 0 and jnp.issubdtype(s0.data.dtype, jnp.integer)
    ctx.structural(f"{name}.create/C10.created_stack_is_empty_with_the_requested_capacity", ok, "native evaluation (constant)", targets=[ST.create_stack])


def run_random_parity(ctx):
    from jumanji.environments.commons.maze_utils import maze_generation as MZ
    name = "maze_utils.maze_generation"

    def ens_even(key, m):
        r = MZ.random_even(key, m)
        return {"C10.random_even_in_range": (r >= 0) & (r < m), "C10.random_even_is_even": r % 2 == 0, "canary.random_even_is_zero": r == 0}

    _prove(ctx, name + ".random_even", (KEY0, jnp.int32(3)), ens_even, lambda k, m: {"max_val_positive": (m >= 1) & (m <= 1 << 20)}, targets=[MZ.random_even])

    def ens_odd(key, m):
        r = MZ.random_odd(key, m)
        return {"C10.random_odd_in_range": (r >= 1) & (r < m), "C10.random_odd_is_odd": r % 2 == 1, "canary.random_odd_is_one": r == 1}

    _prove(ctx, name + ".random_odd", (KEY0, jnp.int32(3)), ens_odd, lambda k, m: {"max_val_at_least_two": (m >= 2) & (m <= 1 << 20)}, targets=[MZ.random_odd])


def run_split(ctx, R, C):
    """split_horizontally / split_vertically on a symbolic maze, stack and chamber: the wall is on an odd line strictly inside the chamber, spans it,
    has exactly one passage at an even offset, nothing else is written, and the pushed sub-chambers are the two sides of the wall."""
    from jumanji.environments.commons.maze_utils import maze_generation as MZ
    from jumanji.environments.commons.maze_utils.stack import Stack
    N = R * C
    maze0, data0, ch0 = jnp.zeros((R, C), jnp.int8), jnp.zeros((N, 4), jnp.int32), jnp.array([0, 0, C, R], jnp.int32)
    rows, cols = jnp.arange(R)[:, None], jnp.arange(C)[None, :]
    srow = jnp.arange(N)[:, None]

    def req(key, maze, data, idx, ch):
        x, y, w, h = ch[0], ch[1], ch[2], ch[3]
        return {"maze_values": (maze == 0) | (maze == 1), "chamber_inside_maze": (x >= 0) & (y >= 0) & (x + w <= C) & (y + h <= R),
                "chamber_splittable": (w >= 2) & (h >= 2), "chamber_origin_even": (x % 2 == 0) & (y % 2 == 0),
                "stack_has_room_for_two": (idx >= 0) & (idx <= N - 2)}

    def make(horizontal):
        fn = MZ.split_horizontally if horizontal else MZ.split_vertically

        def ens(key, maze, data, idx, ch):
            x, y, w, h = ch[0], ch[1], ch[2], ch[3]
            out = fn(MZ.MazeGenerationState(maze, Stack(data, idx), key), ch)
            m2, d2, i2 = out.maze, out.chambers.data, out.chambers.insertion_index
            inside = (cols >= x) & (cols < x + w) & (rows >= y) & (rows < y + h)
            ok = jnp.asarray(False)
            # existential over the wall line (odd) and the passage position (even): finite disjunction over the grid
            for wl in range(1, (C if horizontal else R), 2):
                for ps in range(0, (R if horizontal else C), 2):
                    if horizontal:   # vertical wall in column wl, passage in row ps
                        d, rest = wl - x, w - (wl - x) - 1
                        valid = (wl > x) & (wl < x + w) & (ps >= y) & (ps < y + h)
                        on_wall = inside & (cols == wl)
                        passage = on_wall & (rows == ps)
                        first, second = jnp.stack([x, y, d, h]), jnp.stack([wl + 1, y, rest, h])
                    else:            # horizontal wall in row wl, passage in column ps
                        d, rest = wl - y, h - (wl - y) - 1
                        valid = (wl > y) & (wl < y + h) & (ps >= x) & (ps < x + w)
                        on_wall = inside & (rows == wl)
                        passage = on_wall & (cols == ps)
                        first, second = jnp.stack([x, y, w, d]), jnp.stack([x, wl + 1, w, rest])
                    want = jnp.where(passage, 0, jnp.where(on_wall, 1, maze))
                    p1, p2 = d > 1, rest > 1
                    n_push = p1.astype(jnp.int32) + p2.astype(jnp.int32)
                    live = srow < idx
                    st_ok = (i2 == idx + n_push) & jnp.all(~live | (d2 == data)) \
                        & (~p1 | jnp.all(d2[jnp.clip(idx, 0, N - 1)] == first)) \
                        & (~p2 | jnp.all(d2[jnp.clip(idx + p1.astype(jnp.int32), 0, N - 1)] == second))
                    ok = ok | (valid & jnp.all(m2 == want) & st_ok)
            return {"C10.one_spanning_wall_on_an_odd_line_one_passage_at_an_even_offset_frame_and_subchambers_partition": ok,
                    "C10.cells_outside_the_chamber_untouched": inside | (m2 == maze),
                    "canary.maze_unchanged": jnp.all(m2 == maze)}
        return fn, ens

    for horizontal in (True, False):
        fn, ens = make(horizontal)
        _prove(ctx, f"maze_utils.{fn.__name__}[{R}x{C}]", (KEY0, maze0, data0, jnp.int32(1), ch0), ens, req,
                  targets=[fn, MZ.draw_vertical_wall if horizontal else MZ.draw_horizontal_wall, MZ.create_chamber, MZ.random_odd, MZ.random_even],
                  while_bound=max(R, C) + 1, merge_over=8)


def run_maze_unwound(ctx, R, C):
    """generate_maze, COMPLETELY unwound (every while loop up to a bound, with unwinding assertions that are obligations themselves), with the
    reachability fix-point written in the formula: for every key the maze is fully connected.  Also discharges what the Maze / Cleaner generator
    proofs assume about the maze (values, origin free, at least two free cells)."""
    from jumanji.environments.commons.maze_utils import maze_generation as MZ
    cells = ((R + 1) // 2) * ((C + 1) // 2)

    def ens(key):
        maze = MZ.generate_maze(C, R, key)      # (width, height, key) as the Maze / Cleaner generators call it
        free = maze == MZ.EMPTY
        reach = jnp.zeros((R, C), bool).at[0, 0].set(True) & free
        Z = jnp.zeros((R, C), bool)
        for _ in range(R * C):
            nb = Z.at[1:, :].set(reach[:-1, :]) | Z.at[:-1, :].set(reach[1:, :]) | Z.at[:, 1:].set(reach[:, :-1]) | Z.at[:, :-1].set(reach[:, 1:])
            reach = reach | (nb & free)
        return {"C10.maze_values_are_EMPTY_or_WALL": jnp.all((maze == MZ.EMPTY) | (maze == MZ.WALL)),
                "C10.origin_cell_free": free[0, 0],
                "C10.every_free_cell_reachable_from_the_origin": jnp.all(reach == free),
                "C10.at_least_two_free_cells": jnp.sum(free) >= 2,
                "C10.maze_shape_is_rows_by_cols": jnp.asarray(tuple(maze.shape) == (R, C)),
                "canary.maze_has_no_wall": jnp.all(free)}

    _prove(ctx, f"maze_utils.generate_maze[{R}x{C}]", (KEY0,), ens, targets=[MZ.generate_maze, MZ.split_next_chamber, MZ.split_horizontally, MZ.split_vertically, MZ.create_chamber,
                                                                         MZ.draw_horizontal_wall, MZ.draw_vertical_wall, MZ.create_chambers_stack],
              while_bound=max(cells, R, C) + 1, workers=4, note="complete unwinding: the `unwind@` side obligations prove the bound is never exceeded")


def _flood(free, r0, c0):
    """cells reachable from (r0, c0) through free cells (4-neighbourhood); numpy bool array"""
    R, C = free.shape
    seen = np.zeros_like(free, bool)
    if not free[r0, c0]:
        return seen
    seen[r0, c0] = True
    todo = [(r0, c0)]
    while todo:
        r, c = todo.pop()
        for dr, dc in ((1, 0), (-1, 0), (0, 1), (0, -1)):
            a, b = r + dr, c + dc
            if 0 <= a < R and 0 <= b < C and free[a, b] and not seen[a, b]:
                seen[a, b] = True
                todo.append((a, b))
    return seen


def run_maze_connectivity(ctx, sizes, nkeys):
    _fresh()
    from jumanji.environments.routing.maze.generator import RandomGenerator as MGen
    from jumanji.environments.routing.cleaner.generator import RandomGenerator as CGen
    from jumanji.environments.routing.cleaner.constants import WALL
    from jumanji.environments.commons.maze_utils import maze_generation as MZ
    keys = jax.vmap(jax.random.PRNGKey)(jnp.arange(nkeys))
    for (R, C) in sizes:
        ev, bad = 0, []
        st = jax.jit(jax.vmap(MGen(R, C)))(keys)
        walls, ar, ac, tr, tc = (np.asarray(x) for x in (st.walls, st.agent_position.row, st.agent_position.col, st.target_position.row, st.target_position.col))
        for k in range(nkeys):
            free = ~walls[k]
            reach = _flood(free, 0, 0)
            ok = free[0, 0] and np.array_equal(reach, free) and free[ar[k], ac[k]] and free[tr[k], tc[k]] and (ar[k], ac[k]) != (tr[k], tc[k]) \
                and 0 <= ar[k] < R and 0 <= tr[k] < R and 0 <= ac[k] < C and 0 <= tc[k] < C
            ev += 1
            if not ok and len(bad) < 3:
                bad.append({"key": f"PRNGKey({k})", "walls": walls[k].astype(int).tolist(), "agent": [int(ar[k]), int(ac[k])], "target": [int(tr[k]), int(tc[k])]})
        ctx.bounded_check(f"Maze.RandomGenerator[{R}x{C}]/C10.maze_fully_connected_start_and_target_free_and_mutually_reachable", ev, len(bad),
                          f"flood fill on PRNGKey(0..{nkeys - 1}) at {R}x{C}", bad[0] if bad else None)
        ev, bad = 0, []
        grid = np.asarray(jax.jit(jax.vmap(CGen(R, C, 2)))(keys).grid)
        for k in range(nkeys):
            free = grid[k] != WALL
            ok = free[0, 0] and np.array_equal(_flood(free, 0, 0), free)
            ev += 1
            if not ok and len(bad) < 3:
                bad.append({"key": f"PRNGKey({k})", "grid": grid[k].tolist()})
        ctx.bounded_check(f"Cleaner.RandomGenerator[{R}x{C}a2]/C10.every_dirty_tile_reachable_from_the_origin", ev, len(bad),
                          f"flood fill on PRNGKey(0..{nkeys - 1}) at {R}x{C}", bad[0] if bad else None)


# ======================================================================================================================
# 4. FlatPack random generator: the blocks exactly tile the grid; finite generators (databases, toy, dummy): native exhaustive checks
# ======================================================================================================================
def _flatpack_tiling_clauses(blocks, solved, extracted, N, R, C):
    """blocks: (N,3,3) as returned by the generator (shuffled, rotated); solved: (R,C) the generator's own solved grid, used as the WITNESS of the
    existential 'there is a placement of every block (rotation, top-left offset inside the action space) such that every cell is covered exactly once'.
    Sound for any witness: if every cell of `solved` carries one block number in 1..N, every number is carried by exactly one returned block, and each
    returned block, suitably rotated and placed, covers exactly the cells of `solved` carrying its number, then the blocks tile the grid."""
    rows, cols = jnp.arange(R)[:, None], jnp.arange(C)[None, :]
    ident = jnp.stack([jnp.max(blocks[i]) for i in range(N)])          # the number carried by block slot i
    uniform = jnp.stack([jnp.all((blocks[i] == 0) | (blocks[i] == ident[i])) for i in range(N)])
    placed = []
    for i in range(N):
        region = solved == ident[i]
        ok = jnp.asarray(False)
        for r in range(4):
            b = jnp.rot90(blocks[i], r) != 0
            for oy in range(R - 2):
                for ox in range(C - 2):
                    canvas = jnp.zeros((R, C), bool).at[oy:oy + 3, ox:ox + 3].set(b)
                    ok = ok | jnp.all(canvas == region)
        placed.append(ok)
    return {"C10.solved_grid_cells_carry_one_block_number_each": (solved >= 1) & (solved <= N),
            "C10.each_block_is_one_piece_number": uniform & (ident >= 1) & (ident <= N),
            # 'every block number is returned exactly once', decomposed: extracted block j carries number j+1, and the returned blocks are a permutation of them
            "C10.extracted_block_j_carries_exactly_the_number_j_plus_1": jnp.stack(
                [jnp.all((extracted[j] == 0) | (extracted[j] == j + 1)) & jnp.any(extracted[j] == j + 1) for j in range(N)]),
            "C10.every_extracted_block_is_returned": jnp.stack([_any([jnp.all(blocks[i] == extracted[j]) for i in range(N)]) for j in range(N)]),
            "C10.every_returned_block_is_an_extracted_block": jnp.stack([_any([jnp.all(blocks[i] == extracted[j]) for j in range(N)]) for i in range(N)]),
            "C10.each_block_rotated_and_placed_covers_exactly_its_region": jnp.stack(placed)}


def _capture_solved_grid(gen, key):
    """runs the REAL generator; the `init` of its block-extraction scan (the solved grid) and that scan's result (the extracted, rotated, not yet shuffled
    blocks) are recorded on the way (nothing is replaced).  Returns (state, solved grid, extracted blocks)."""
    real_scan = jax.lax.scan
    seen = {}

    def scan(f, init, xs=None, *a, **kw):
        out = real_scan(f, init, xs, *a, **kw)
        if getattr(f, "__name__", "") == "_extract_block":
            seen["solved"], seen["extracted"] = init[0], out[1]
        return out

    with K.with_attr(jax.lax, "scan", scan):
        st = gen(key)
    return st, seen["solved"], seen["extracted"]


def run_flatpack(ctx, nr, nc):
    from jumanji.environments.packing.flat_pack.generator import RandomFlatPackGenerator as G
    gen = G(nr, nc)
    N, R, C = nr * nc, 2 * nr + 1, 2 * nc + 1
    name = f"FlatPack.RandomFlatPackGenerator[{nr}x{nc}]"

    def ens(key):
        st, solved, extracted = _capture_solved_grid(gen, key)
        out = _flatpack_tiling_clauses(st.blocks, solved, extracted, N, R, C)
        out["C10.grid_empty_nothing_placed"] = jnp.all(st.grid == 0) & jnp.all(~st.placed_blocks) & (tuple(st.grid.shape) == (R, C))
        out["canary.first_block_is_piece_one"] = jnp.max(st.blocks[0]) == 1
        return out

    _prove(ctx, name, (KEY0,), ens, targets=[G.__call__, G._extract_block, G._crop_nonzero, G._select_col_interlocks, G._select_row_interlocks, G._select_sides,
                                           G._fill_grid_columns, G._fill_grid_rows], merge_over=64, workers=4)
    _not_constant(ctx, name, gen, lambda s: s.blocks, [G.__call__], keys=8)


def _exact_cover(blocks, R, C):
    """native decision procedure for 'the blocks admit a complete solution': every block placed once (any of the 4 rotations, top-left corner of its
    3x3 window at a position of the action space [0,R-3]x[0,C-3]) so that every grid cell is covered exactly once.  Returns the placement or None."""
    blocks = [np.asarray(b) != 0 for b in blocks]
    N = len(blocks)
    if sum(int(b.sum()) for b in blocks) != R * C:
        return None
    opts = []
    for b in blocks:
        o = {}
        for r in range(4):
            m = np.rot90(b, r)
            for oy in range(R - 2):
                for ox in range(C - 2):
                    o.setdefault(frozenset((oy + a) * C + ox + c for a in range(3) for c in range(3) if m[a, c]), (r, oy, ox))
        opts.append(o)

    def rec(used, covered):
        if len(used) == N:
            return []
        cell = next(c for c in range(R * C) if c not in covered)  # the first uncovered cell has to be covered by some unused block
        for i in range(N):
            if i in used:
                continue
            for cells, how in opts[i].items():
                if cell in cells and not (covered & cells):
                    sub = rec(used | {i}, covered | cells)
                    if sub is not None:
                        return [(i,) + how] + sub
        return None

    return rec(frozenset(), frozenset())


def run_flatpack_bounded(ctx, sizes, nkeys):
    _fresh()
    from jumanji.environments.packing.flat_pack.generator import RandomFlatPackGenerator as G
    for (nr, nc) in sizes:
        R, C = 2 * nr + 1, 2 * nc + 1
        blocks = np.asarray(jax.jit(jax.vmap(G(nr, nc)))(jax.vmap(jax.random.PRNGKey)(jnp.arange(nkeys))).blocks)
        bad = [k for k in range(nkeys) if _exact_cover(blocks[k], R, C) is None]
        wit = {"key": f"PRNGKey({bad[0]})", "blocks": blocks[bad[0]].tolist(), "unsolvable_keys": bad[:20],
               "how": "exhaustive exact-cover search over all rotations and all positions of the action space finds no complete placement"} if bad else None
        ctx.bounded_check(f"FlatPack.RandomFlatPackGenerator[{nr}x{nc}]/C10.block_set_admits_a_complete_solution", nkeys, len(bad),
                          f"exhaustive exact-cover search on PRNGKey(0..{nkeys - 1}) at {nr}x{nc} blocks", wit)


def _sudoku_conflicts(boards):
    """boards: (n,9,9) ints, 0 = empty.  Returns indices of boards with a value outside 0..9 or a repeated digit in a row, column or 3x3 box."""
    b = np.asarray(boards)
    bad = np.zeros(b.shape[0], bool) | np.any((b < 0) | (b > 9), axis=(1, 2))
    units = [b[:, r, :] for r in range(9)] + [b[:, :, c] for c in range(9)] + [b[:, 3 * i:3 * i + 3, 3 * j:3 * j + 3].reshape(-1, 9) for i in range(3) for j in range(3)]
    for u in units:
        for d in range(1, 10):
            bad |= (u == d).sum(axis=1) > 1
    return np.nonzero(bad)[0]


def _sudoku_solve(board):
    """bitmask DFS (most constrained cell first); returns a completed 9x9 list or None.  The result is re-checked independently by the caller."""
    rows, cols, boxes, g, empty = [0] * 9, [0] * 9, [0] * 9, [list(map(int, r)) for r in board], []
    for r in range(9):
        for c in range(9):
            v = g[r][c]
            if v:
                b = 1 << v
                if rows[r] & b or cols[c] & b or boxes[r // 3 * 3 + c // 3] & b:
                    return None
                rows[r] |= b
                cols[c] |= b
                boxes[r // 3 * 3 + c // 3] |= b
            else:
                empty.append((r, c))

    def rec():
        if not empty:
            return True
        best, bi, bm = None, -1, 0
        for i, (r, c) in enumerate(empty):
            m = 0x3FE & ~(rows[r] | cols[c] | boxes[r // 3 * 3 + c // 3])
            n = bin(m).count("1")
            if n == 0:
                return False
            if best is None or n < best:
                best, bi, bm = n, i, m
                if n == 1:
                    break
        r, c = empty.pop(bi)
        bx = r // 3 * 3 + c // 3
        m = bm
        while m:
            b = m & -m
            m ^= b
            rows[r] |= b
            cols[c] |= b
            boxes[bx] |= b
            g[r][c] = b.bit_length() - 1
            if rec():
                return True
            rows[r] ^= b
            cols[c] ^= b
            boxes[bx] ^= b
        g[r][c] = 0
        empty.insert(bi, (r, c))
        return False

    return g if rec() else None


def run_sudoku(ctx):
    _fresh()
    import os
    from jumanji.environments.logic.sudoku import generator as SG, constants as SC, data
    from jumanji.environments import Sudoku
    backend = "exhaustive enumeration of the finite database"
    d = os.path.dirname(data.__file__)
    for fn in sorted(f for f in os.listdir(d) if f.endswith(".npy")):
        db = np.load(os.path.join(d, fn))
        bad = _sudoku_conflicts(db)
        ok = db.ndim == 3 and db.shape[1:] == (9, 9) and len(bad) == 0 and bool(np.all((db == 0).sum(axis=(1, 2)) >= 1))
        sols = [_sudoku_solve(b) for b in db]
        unsolved = [i for i, sl in enumerate(sols) if sl is None]
        solved = np.asarray([sl for sl in sols if sl is not None])
        puzzles = np.asarray([db[i] for i, sl in enumerate(sols) if sl is not None])
        ok_sol = not unsolved and len(_sudoku_conflicts(solved)) == 0 and bool(np.all(solved >= 1)) and bool(np.all((puzzles == 0) | (puzzles == solved)))
        ctx.structural(f"Sudoku.database[{fn}]/C10.every_puzzle_has_a_solution", bool(ok_sol), backend + " (search; each completed board re-checked: full, conflict-free, extends the puzzle)",
                       detail={"puzzles": int(db.shape[0]), "unsolvable": unsolved[:5]}, witness=None if ok_sol else {"file": fn, "puzzle_index": unsolved[:5]},
                       targets=[SG.DatabaseGenerator.__init__])
        ctx.structural(f"Sudoku.database[{fn}]/C10.every_puzzle_conflict_free_digits_in_range_some_cell_empty", ok, backend,
                       detail={"puzzles": int(db.shape[0]), "conflicting": bad[:5].tolist()}, witness=None if ok else {"file": fn, "puzzle_index": bad[:5].tolist()},
                       targets=[SG.DatabaseGenerator.__init__])
    env = Sudoku()
    gen = getattr(env, "generator", None) or env._generator
    db = np.asarray(gen._boards)
    ctx.structural("Sudoku.default_generator/C10.default_database_conflict_free", len(_sudoku_conflicts(db)) == 0, backend, detail={"puzzles": int(db.shape[0])},
                   targets=[Sudoku.__init__])
    init, solved = np.asarray(SC.INITIAL_BOARD_SAMPLE), np.asarray(SC.SOLVED_BOARD_SAMPLE)
    st = SG.DummyGenerator()(KEY0)
    ok = len(_sudoku_conflicts(init[None])) == 0 and len(_sudoku_conflicts(solved[None])) == 0 and bool(np.all(solved >= 1)) \
        and bool(np.all((init == 0) | (init == solved))) and np.array_equal(np.asarray(st.board), init - 1)
    ctx.structural("Sudoku.DummyGenerator/C10.puzzle_conflict_free_and_extended_by_the_shipped_solution", ok, "native evaluation (constant instance)", targets=[SG.DummyGenerator.__init__])
    # DatabaseGenerator over a SYMBOLIC database: the generated board is one of the database's puzzles (shifted by one), for every key
    nB = 3

    def ens(key, boards):
        st = SG.DatabaseGenerator(boards)(key)
        hit = jnp.asarray(False)
        for i in range(nB):
            hit = hit | jnp.all(st.board == boards[i] - 1)
        return {"C10.generated_board_is_a_database_puzzle_unchanged": hit, "canary.always_the_first_puzzle": jnp.all(st.board == boards[0] - 1)}

    _prove(ctx, f"Sudoku.DatabaseGenerator[symbolic database of {nB}]", (KEY0, jnp.zeros((nB, 9, 9), jnp.int32)), ens,
              lambda k, b: {"digits": (b >= 0) & (b <= 9)}, targets=[SG.DatabaseGenerator.__call__])
    _not_constant(ctx, "Sudoku.DatabaseGenerator[default]", gen, lambda s: s.board, [SG.DatabaseGenerator.__call__], keys=8)


def _boxes_disjoint_inside(x1, x2, y1, y2, z1, z2, cx, cy, cz):
    n = len(x1)
    inside = all(0 <= x1[i] < x2[i] <= cx and 0 <= y1[i] < y2[i] <= cy and 0 <= z1[i] < z2[i] <= cz for i in range(n))
    disjoint = all(x2[i] <= x1[j] or x2[j] <= x1[i] or y2[i] <= y1[j] or y2[j] <= y1[i] or z2[i] <= z1[j] or z2[j] <= z1[i] for i in range(n) for j in range(i + 1, n))
    vol = sum(int(x2[i] - x1[i]) * int(y2[i] - y1[i]) * int(z2[i] - z1[i]) for i in range(n))
    return inside, disjoint, vol


def _binpack_instance_ok(gen, key):
    """items of generator(key) are those of generate_solution(key); the solution places them inside the container, pairwise disjoint, filling its volume"""
    st, sol = gen(key), gen.generate_solution(key)
    m = np.asarray(sol.items_mask)
    same = all(np.array_equal(np.asarray(a), np.asarray(b)) for a, b in zip(jax.tree_util.tree_leaves((st.items, st.items_mask, st.container)),
                                                                            jax.tree_util.tree_leaves((sol.items, sol.items_mask, sol.container))))
    fresh = not np.any(np.asarray(st.items_placed)) and np.array_equal(np.asarray(st.ems_mask), np.arange(len(st.ems_mask)) == 0) and np.array_equal(np.asarray(sol.items_placed), m)
    it, loc, c = sol.items, sol.items_location, sol.container
    x1, y1, z1 = (np.asarray(v)[m].astype(np.int64) for v in (loc.x, loc.y, loc.z))
    xl, yl, zl = (np.asarray(v)[m].astype(np.int64) for v in (it.x_len, it.y_len, it.z_len))
    cx, cy, cz = int(c.x2) - int(c.x1), int(c.y2) - int(c.y1), int(c.z2) - int(c.z1)
    inside, disjoint, vol = _boxes_disjoint_inside(x1, x1 + xl, y1, y1 + yl, z1, z1 + zl, cx, cy, cz)
    ems0 = all(int(np.asarray(getattr(st.ems, f))[0]) == int(getattr(c, f)) for f in ("x1", "x2", "y1", "y2", "z1", "z2"))
    return {"same_items_as_solution": bool(same), "nothing_placed_one_ems_the_container": bool(fresh and ems0), "solution_items_inside_container": bool(inside),
            "solution_items_pairwise_disjoint": bool(disjoint), "solution_fills_the_container_volume": vol == cx * cy * cz, "at_least_one_item": int(m.sum()) >= 1}


def run_toys(ctx):
    """finite / constant generators: native check of their advertised invariants"""
    _fresh()
    nat = "native evaluation (constant instance)"
    # --- FlatPack toys
    from jumanji.environments.packing.flat_pack import generator as FG
    for cls in (FG.ToyFlatPackGeneratorWithRotation, FG.ToyFlatPackGeneratorNoRotation):
        st = cls()(KEY0)
        R, C = st.grid.shape
        sol = _exact_cover(np.asarray(st.blocks), R, C)
        ok = sol is not None and not np.any(np.asarray(st.grid)) and not np.any(np.asarray(st.placed_blocks)) and (R, C) == (5, 5)
        if cls is FG.ToyFlatPackGeneratorNoRotation:   # advertised: solvable WITHOUT rotating
            ok = ok and _exact_cover_no_rotation(np.asarray(st.blocks), R, C)
        ctx.structural(f"FlatPack.{cls.__name__}/C10.block_set_admits_a_complete_solution", bool(ok), "native exhaustive exact-cover search (constant instance)",
                       detail={"placement(block,rot,row,col)": sol}, witness=None if ok else {"blocks": np.asarray(st.blocks).tolist()}, targets=[cls.__call__])
    # --- JobShop toy
    from jumanji.environments.packing.job_shop.generator import ToyGenerator as JT
    g = JT()
    st = g(KEY0)
    m, d, mask = (np.asarray(x) for x in (st.ops_machine_ids, st.ops_durations, st.ops_mask))
    ok = m.shape == (g.num_jobs, g.max_num_ops) and np.all(~mask | ((m >= 0) & (m < g.num_machines))) and np.all(~mask | ((d >= 1) & (d <= g.max_op_duration))) \
        and np.all(mask | ((m == -1) & (d == -1))) and np.all(mask[:, 0]) and np.all(~mask[:, 1:] | mask[:, :-1]) and np.array_equal(mask, m != -1) \
        and np.all(np.asarray(st.machines_job_ids) == g.num_jobs) and np.all(np.asarray(st.scheduled_times) == -1) and int(st.step_count) == 0
    # advertised optimal makespan 8: lower bound = busiest machine / longest job
    load = max(int(d[(m == k) & mask].sum()) for k in range(g.num_machines))
    ctx.structural("JobShop.ToyGenerator/C10.instance_well_formed", bool(ok), nat, detail={"busiest_machine_load": load, "longest_job": int((d * mask).sum(axis=1).max())}, targets=[JT.__call__])
    # --- BinPack toy
    from jumanji.environments.packing.bin_pack.generator import ToyGenerator as BT
    res = _binpack_instance_ok(BT(), KEY0)
    ctx.structural("BinPack.ToyGenerator/C10.items_exactly_fill_the_container_and_generate_solution_is_feasible", all(res.values()), nat, detail=res,
                   witness=None if all(res.values()) else res, targets=[BT._generate_solved_instance, BT.generate_solution, BT.__call__])
    # --- Maze toy
    from jumanji.environments.routing.maze.generator import ToyGenerator as MT
    st = MT()(KEY0)
    free = ~np.asarray(st.walls)
    a, t = (int(st.agent_position.row), int(st.agent_position.col)), (int(st.target_position.row), int(st.target_position.col))
    ok = free[a] and free[t] and a != t and np.array_equal(_flood(free, *a), free)
    ctx.structural("Maze.ToyGenerator/C10.maze_fully_connected_start_and_target_free", bool(ok), "native flood fill (constant instance)", targets=[MT.__call__])
    # --- Sokoban toy levels (both levels of ToyGenerator, SimpleSolveGenerator)
    from jumanji.environments.routing.sokoban import generator as SK
    seen = {}
    for k in range(32):
        st = SK.ToyGenerator()(jax.random.PRNGKey(k))
        seen.setdefault(np.asarray(st.fixed_grid).tobytes(), st)
    levels = [("ToyGenerator.level%d" % i, st) for i, st in enumerate(seen.values())] + [("SimpleSolveGenerator", SK.SimpleSolveGenerator()(KEY0))]
    for nm, st in levels:
        fx, vr = np.asarray(st.fixed_grid), np.asarray(st.variable_grid)
        ag = np.argwhere(vr == 3)
        ok = fx.shape == (10, 10) and len(ag) == 1 and tuple(ag[0]) == tuple(int(v) for v in np.asarray(st.agent_location)) and int((vr == 4).sum()) == 4 \
            and int((fx == 2).sum()) == 4 and not np.any((fx == 1) & (vr != 0)) and int(st.step_count) == 0 and np.all(fx[0] == 1) and np.all(fx[:, 0] == 1)
        ctx.structural(f"Sokoban.{nm}/C10.one_agent_four_boxes_four_targets_none_on_a_wall", bool(ok), nat, targets=[SK.convert_level_to_array, SK.Generator.get_agent_coordinates])
    ctx.structural("Sokoban.ToyGenerator/C10.generator_depends_on_the_key", len(seen) == 2, "native witness (both levels are produced)", detail={"levels_seen": len(seen)},
                   witness=None if len(seen) == 2 else {"levels_seen": len(seen)}, targets=[SK.ToyGenerator.__call__])
    # --- PacMan ascii maze
    from jumanji.environments import PacMan
    env = PacMan()
    st = env.generator(KEY0)
    grid = np.asarray(st.grid)
    H, W = grid.shape
    on_free = lambda col, row: 0 <= row < H and 0 <= col < W and grid[row, col] == 1
    pel, pw, gh = np.asarray(st.pellet_locations), np.asarray(st.power_up_locations), np.asarray(st.ghost_locations)
    ok = on_free(int(st.player_locations.y), int(st.player_locations.x)) and all(on_free(c, r) for c, r in pel) and all(on_free(c, r) for c, r in pw) \
        and all(on_free(c, r) for c, r in gh) and len(gh) == 4 and int(st.pellets) == len(pel) == len({tuple(p) for p in pel.tolist()}) and int(st.step_count) == 0 \
        and all(len(row) == W for row in env.generator.maze)
    ctx.structural("PacMan.AsciiGenerator[DEFAULT_MAZE]/C10.player_ghosts_pellets_powerups_on_free_cells_inside_the_maze", bool(ok), nat, targets=[type(env.generator).__init__, type(env.generator).__call__])


def _exact_cover_no_rotation(blocks, R, C):
    blocks = [np.asarray(b) != 0 for b in blocks]

    def rec(i, covered):
        if i == len(blocks):
            return len(covered) == R * C
        for oy in range(R - 2):
            for ox in range(C - 2):
                cells = frozenset((oy + a) * C + ox + c for a in range(3) for c in range(3) if blocks[i][a, c])
                if not (covered & cells) and rec(i + 1, covered | cells):
                    return True
        return False

    return rec(0, frozenset())


from contracts.bin_pack import split_loop_inv as _binpack_split_inv  # noqa: E402


def run_binpack_step(ctx, NI, S, cover):
    """BinPack RandomGenerator: the body of the splitting loop, `_split_space_into_sub_spaces`, on SYMBOLIC item spaces and mask: it preserves 'items inside the
    container and pairwise disjoint' (so generate_solution is feasible, by induction over the loop) and replaces exactly one item by slabs that exactly cover it
    along one axis, everything else untouched (so the items keep partitioning the container; volumes add up by the 1-D cover: linear arithmetic only)."""
    from jumanji.environments.packing.bin_pack.generator import RandomGenerator as BG
    from jumanji.environments.packing.bin_pack.space import Space
    gen = BG(max_num_items=NI, max_num_ems=4, split_num_same_items=S)
    name = f"BinPack.RandomGenerator[items{NI},same{S}]"
    X, Y, Z = gen.container_dims
    AX, LIM, F6 = ("x", "y", "z"), {"x": X, "y": Y, "z": Z}, ("x1", "x2", "y1", "y2", "z1", "z2")

    inv = _binpack_split_inv(NI, gen.container_dims)

    def req(key, sp, m):
        return {**inv(sp, m), "at_least_one_item": jnp.any(m), "loop_condition_holds": jnp.sum(m) < NI - S + 1}

    def ens(key, sp, m):
        sp2, m2 = gen._split_space_into_sub_spaces(Space(**sp.__dict__), m, key)
        out = {"C10.preserved." + k: v for k, v in inv(sp2, m2).items()}
        if cover:
            ok = jnp.asarray(False)
            for j in range(NI):          # existential over the split item and the axis: finite disjunction
                for a in AX:
                    others = [b for b in AX if b != a]
                    a1, a2 = getattr(sp, a + "1")[j], getattr(sp, a + "2")[j]
                    c, tot = m[j], jnp.int32(0)
                    for i in range(NI):
                        unchanged = m2[i] & jnp.all(jnp.stack([getattr(sp2, k)[i] == getattr(sp, k)[i] for k in F6]))
                        slab = jnp.all(jnp.stack([getattr(sp2, b + e)[i] == getattr(sp, b + e)[j] for b in others for e in "12"])) \
                            & (getattr(sp2, a + "1")[i] >= a1) & (getattr(sp2, a + "2")[i] <= a2)
                        c = c & ((~m2[i] | slab) if i == j else jnp.where(m[i], unchanged, ~m2[i] | slab))
                        tot = tot + jnp.where(m2[i] & ((i == j) | ~m[i]), getattr(sp2, a + "2")[i] - getattr(sp2, a + "1")[i], 0)
                    ok = ok | (c & (tot == a2 - a1))
            out["C10.one_item_replaced_by_disjoint_slabs_that_exactly_cover_it_everything_else_untouched"] = ok
        out["canary.mask_never_changes"] = jnp.all(m2 == m)
        return out

    sp0 = Space(**{k: jnp.zeros((NI,), jnp.int32) for k in F6})
    _prove(ctx, name + "._split_space_into_sub_spaces", (KEY0, sp0, jnp.zeros((NI,), bool)), ens, req, while_bound=S + 1,
           targets=[BG._split_space_into_sub_spaces, BG._split_along_axis, BG._split_item_once, BG._split_item_multiple_times])
    # base case: the loop starts from the container as the only item (observable as the result of the generator when the loop body never runs)
    g1 = BG(max_num_items=1, max_num_ems=4, split_num_same_items=1)
    sol = g1.generate_solution(KEY0)
    ok = bool(sol.items_mask[0]) and (int(sol.items.x_len[0]), int(sol.items.y_len[0]), int(sol.items.z_len[0])) == tuple(g1.container_dims) \
        and (int(sol.items_location.x[0]), int(sol.items_location.y[0]), int(sol.items_location.z[0])) == (0, 0, 0)
    ctx.structural(f"{name}/C10.splitting_starts_from_the_container_as_the_only_item", ok, "native evaluation (the loop body never runs at max_num_items=1)",
                   targets=[BG._split_container_into_items_spaces])


def run_binpack_bounded(ctx, cfgs, nkeys):
    _fresh()
    from jumanji.environments.packing.bin_pack.generator import RandomGenerator as BG
    for (ni, ne, same) in cfgs:
        gen = BG(max_num_items=ni, max_num_ems=ne, split_num_same_items=same)
        both = jax.jit(lambda k: (gen(k), gen.generate_solution(k)))

        class _G:  # the two real calls, jitted together
            def __call__(self, k):
                return both(k)[0]

            def generate_solution(self, k):
                return both(k)[1]

        bad = []
        for k in range(nkeys):
            res = _binpack_instance_ok(_G(), jax.random.PRNGKey(k))
            if not all(res.values()):
                bad.append({"key": f"PRNGKey({k})", **res})
        ctx.bounded_check(f"BinPack.RandomGenerator[items{ni},ems{ne},same{same}]/C10.items_exactly_partition_the_container_and_generate_solution_is_feasible", nkeys, len(bad),
                          f"native run on PRNGKey(0..{nkeys - 1})", bad[0] if bad else None)
        _not_constant(ctx, f"BinPack.RandomGenerator[items{ni},ems{ne},same{same}]", lambda k: both(k)[0], lambda s: (s.items.x_len, s.items.y_len, s.items.z_len)[0], [BG.__call__], keys=8)


# ======================================================================================================================
# 5. Connector RandomWalkGenerator (the property's clause is EXPECTED TO FAIL on the pinned tree: DESIGN section 8 #11)
# ======================================================================================================================
def _connector_wellformed(G, A, start, target, grid):
    """numpy: every agent has one head and one target inside the grid, all pairwise distinct, and the grid shows exactly those"""
    cells = [tuple(int(v) for v in p) for p in list(start) + list(target)]
    inside = all(0 <= r < G and 0 <= c < G for r, c in cells)
    distinct = len(set(cells)) == 2 * A
    shown = all(int((grid == 2 + 3 * a).sum()) == 1 and int((grid == 3 + 3 * a).sum()) == 1 for a in range(A)) and int((grid != 0).sum()) == 2 * A
    at = inside and all(grid[tuple(start[a])] == 2 + 3 * a and grid[tuple(target[a])] == 3 + 3 * a for a in range(A))
    return inside and distinct and shown and at


def _connector_solved_ok(G, A, start, target, solved):
    """numpy: the generator's own solved grid is a witness of solvability: the cells of wire a form a 4-connected set containing a's head and target"""
    for a in range(A):
        wire = (solved >= 1 + 3 * a) & (solved <= 3 + 3 * a)
        h, t = tuple(int(v) for v in start[a]), tuple(int(v) for v in target[a])
        if not (0 <= h[0] < G and 0 <= h[1] < G and 0 <= t[0] < G and 0 <= t[1] < G and wire[h] and wire[t]):
            return False
        if not np.array_equal(_flood(wire, *h), wire):
            return False
    return True


def run_connector_randomwalk(ctx, G, A, nkeys, symbolic):
    _fresh()
    from jumanji.environments.routing.connector.generator import RandomWalkGenerator as RW
    gen = RW(G, A)
    name = f"Connector.RandomWalkGenerator[{G}x{G}a{A}]"
    keys = jax.vmap(jax.random.PRNGKey)(jnp.arange(nkeys))
    solved, agents, grid = jax.jit(jax.vmap(gen.generate_board))(jax.vmap(lambda k: jax.random.split(k)[1])(keys))   # __call__: key, board_key = split(key)
    st = jax.jit(jax.vmap(gen))(keys)
    same = np.array_equal(np.asarray(st.grid), np.asarray(grid)) and np.array_equal(np.asarray(st.agents.target), np.asarray(agents.target))
    ctx.structural(f"{name}/C10.call_returns_the_board_of_generate_board", bool(same), "native comparison on the checked keys", targets=[RW.__call__])
    start, target, grid, solved = (np.asarray(x) for x in (st.agents.start, st.agents.target, st.grid, solved))
    bad = [k for k in range(nkeys) if not _connector_wellformed(G, A, start[k], target[k], grid[k])]
    wit = {"key": f"PRNGKey({bad[0]})", "start": start[bad[0]].tolist(), "target": target[bad[0]].tolist(), "grid": grid[bad[0]].tolist(), "failing_keys": bad[:30],
           "n_failing": len(bad)} if bad else None
    ctx.bounded_check(f"{name}/C10.every_agent_has_one_head_and_one_target_inside_the_grid_all_pairwise_distinct", nkeys, len(bad), f"native run on PRNGKey(0..{nkeys - 1})", wit)
    bad2 = [k for k in range(nkeys) if k not in set(bad) and not _connector_solved_ok(G, A, start[k], target[k], solved[k])]
    ctx.bounded_check(f"{name}/C10.own_solved_grid_connects_every_head_to_its_target_with_disjoint_wires", nkeys - len(bad), len(bad2),
                      f"native run on the well-formed boards among PRNGKey(0..{nkeys - 1})", {"key": f"PRNGKey({bad2[0]})", "solved": solved[bad2[0]].tolist()} if bad2 else None)
    _not_constant(ctx, name, gen, lambda s: s.grid, [RW.__call__], keys=8)
    if not symbolic:
        return
    # symbolic, all sampler outcomes: ONE step of the placement scan, `_initialize_starts_and_first_move`, for agent `aid` on a symbolic flat grid that
    # holds exactly what the previous steps wrote: for every earlier agent one head marker and one adjacent first-move marker, nothing else
    N = G * G
    adjacent_pairs = [(a, b) for a in range(N) for b in range(N) if abs(a // G - b // G) + abs(a % G - b % G) == 1]

    def make(aid):
        def req(key, fg):
            out = {"cell_values_in_range": (fg >= 0) & (fg <= 3 * A)}
            for i in range(A):
                h, p = fg == 3 * i + 3, fg == 3 * i + 2     # the scan marks the head with get_target(i) and the first move with get_position(i)
                if i < aid:
                    adj = jnp.asarray(False)
                    for (a, b) in adjacent_pairs:
                        adj = adj | (h[a] & p[b])
                    out[f"earlier_agent_{i}_placed_head_and_adjacent_first_move"] = (jnp.sum(h) == 1) & (jnp.sum(p) == 1) & adj & ~jnp.any(fg == 3 * i + 1)
                else:
                    out[f"agent_{i}_not_placed_yet"] = ~jnp.any(h | p | (fg == 3 * i + 1))
            return out

        def ens(key, fg):
            (_, g2), (s_, f_) = gen._initialize_starts_and_first_move((key, fg), jnp.int32(aid))
            inside = lambda x: (x >= 0) & (x < N)
            free = lambda x: fg[jnp.clip(x, 0, N - 1)] == 0
            return {"C10.head_inside_the_grid_on_a_free_cell": inside(s_) & free(s_),
                    "C10.first_move_inside_the_grid_on_a_free_cell": inside(f_) & free(f_),
                    "C10.first_move_is_a_neighbour_of_the_head_hence_distinct": jnp.abs(s_ // G - f_ // G) + jnp.abs(s_ % G - f_ % G) == 1,
                    "canary.head_at_origin": s_ == 0}
        return req, ens

    for aid in range(min(A, 3)):
        req, ens = make(aid)
        _prove(ctx, f"{name}._initialize_starts_and_first_move[agent {aid}]", (KEY0, jnp.zeros((N,), jnp.int32)), ens, req,
                  targets=[RW._initialize_starts_and_first_move, RW._available_cells, RW._adjacent_cells, RW._is_cell_free, RW._is_cell_doubling_back], workers=3)


# ======================================================================================================================
# 6./7. random-walk puzzles (solvable by construction + independent parity criterion), MMST split graphs (bounded), LBF bounded
# ======================================================================================================================
def run_sliding(ctx, g, L):
    from jumanji.environments.logic.sliding_tile_puzzle.generator import RandomWalkGenerator as RW
    gen = RW(g, L)
    name = f"SlidingTilePuzzle.RandomWalkGenerator[{g}x{g},{L} moves]"
    goal = np.asarray(gen._solved_puzzle)
    ok_goal = np.array_equal(goal.ravel(), np.r_[np.arange(1, g * g), 0])
    ctx.structural(f"{name}/C10.walk_starts_from_the_documented_goal", bool(ok_goal), "native evaluation (constant)", targets=[RW.make_solved_puzzle])

    def solvable(puzzle, blank_row):
        f = puzzle.ravel()
        inv = sum(((f[i] > f[j]) & (f[i] != 0) & (f[j] != 0)).astype(jnp.int32) for i in range(g * g) for j in range(i + 1, g * g))
        return (inv + (0 if g % 2 else 1) * (g - 1 - blank_row)) % 2 == 0

    def ens(key):
        s = gen(key)
        r, c = s.empty_tile_position[0], s.empty_tile_position[1]
        return {"C10.puzzle_is_a_permutation_of_the_tiles": jnp.stack([jnp.sum(s.puzzle == v) == 1 for v in range(g * g)]),
                "C10.blank_inside_grid_where_recorded": (r >= 0) & (r < g) & (c >= 0) & (c < g) & (s.puzzle[jnp.clip(r, 0, g - 1), jnp.clip(c, 0, g - 1)] == 0),
                "C10.solvable_by_the_inversion_parity_criterion": solvable(s.puzzle, r),
                "C10.step_count_zero": s.step_count == 0,
                "canary.step_count_is_one": s.step_count == 1}   # (sampler outcomes inside the scan cannot be pinned per iteration in a replay)

    _prove(ctx, name, (KEY0,), ens, targets=[RW.__call__, RW._make_random_move, RW._swap_tiles])
    # default walk length (100 moves): bounded, native
    _fresh()
    n = 200
    gen2 = RW(g, 100)
    st = jax.jit(jax.vmap(gen2))(jax.vmap(jax.random.PRNGKey)(jnp.arange(n)))
    pz, pos = np.asarray(st.puzzle), np.asarray(st.empty_tile_position)
    bad = [k for k in range(n) if not (sorted(pz[k].ravel().tolist()) == list(range(g * g)) and bool(np.all((pos[k] >= 0) & (pos[k] < g))) and pz[k][tuple(pos[k])] == 0
                                       and bool(solvable(jnp.asarray(pz[k]), int(pos[k][0]))))]
    ctx.bounded_check(f"SlidingTilePuzzle.RandomWalkGenerator[{g}x{g},100 moves]/C10.permutation_blank_consistent_and_parity_solvable", n, len(bad),
                      f"native run on PRNGKey(0..{n - 1})", {"key": f"PRNGKey({bad[0]})", "puzzle": pz[bad[0]].tolist()} if bad else None)
    _not_constant(ctx, name, gen2, lambda s_: s_.puzzle, [RW.__call__], keys=8)


def run_rubiks(ctx, n, L):
    from jumanji.environments.logic.rubiks_cube.generator import ScramblingGenerator as SG
    from jumanji.environments.logic.rubiks_cube import utils as U
    gen = SG(n, L)
    name = f"RubiksCube.ScramblingGenerator[{n},{L} scrambles]"
    nA = 18 * (n // 2)

    def ens(key):
        st = gen(key)
        acts = gen.generate_actions_for_scramble(jax.random.split(key)[1])   # the same sampler call => the same (memoised) outcomes
        cube = U.make_solved_cube(n)
        for t in range(L):
            cube = U.rotate_cube(cube, acts[t])
        return {"C10.cube_is_reached_from_the_solved_cube_by_legal_moves": jnp.all(st.cube == cube),
                "C10.scramble_actions_in_range": (acts >= 0) & (acts < nA),
                "C10.step_count_zero": st.step_count == 0,
                "canary.cube_is_solved": U.is_solved(st.cube)}

    _prove(ctx, name, (KEY0,), ens, targets=[SG.__call__, SG.generate_cube, SG.generate_actions_for_scramble, U.scramble_solved_cube], merge_over=8)
    _not_constant(ctx, name, SG(n, 10), lambda s_: s_.cube, [SG.__call__], keys=8)


def run_mmst_bounded(ctx, cfgs, nkeys):
    _fresh()
    from jumanji.environments.routing.mmst.generator import SplitRandomGenerator as G
    from jumanji.environments.routing.mmst.constants import EMPTY_NODE
    for cfg in cfgs:
        gen = G(*cfg)
        nN, nE, deg, A, per, _ = cfg
        name = "MMST.SplitRandomGenerator[n%d,e%d,deg%d,a%d,k%d]" % cfg[:5]
        st = jax.jit(jax.vmap(gen))(jax.vmap(jax.random.PRNGKey)(jnp.arange(nkeys)))
        adj, types, todo, pos = (np.asarray(x) for x in (st.adj_matrix, st.node_types, st.nodes_to_connect, st.positions))
        parts = np.array_split(np.arange(nN), A)       # the documented split: agent i's sub-graph
        bad, bad_par = [], []
        for k in range(nkeys):
            a = adj[k] != 0
            par = {"node_degree_at_most_max_degree": bool(a.sum(axis=1).max() <= deg), "number_of_edges_as_configured": int(a.sum()) // 2 == nE}
            if not all(par.values()):
                bad_par.append({"key": f"PRNGKey({k})", "max_degree_found": int(a.sum(axis=1).max()), "edges_found": int(a.sum()) // 2, **par})
            res = {"adjacency_symmetric_no_self_loops": bool(np.array_equal(a, a.T) and not np.any(np.diag(a))),
                   "nodes_to_connect_distinct_in_range": len(set(todo[k].ravel().tolist())) == A * per and bool(np.all((todo[k] >= 0) & (todo[k] < nN))),
                   "node_types_mark_exactly_the_nodes_to_connect": all(set(np.nonzero(types[k] == i)[0].tolist()) == set(todo[k][i].tolist()) for i in range(A))
                   and int((types[k] == EMPTY_NODE).sum()) == nN - A * per,
                   "agent_starts_on_one_of_its_nodes": all(int(pos[k][i]) in todo[k][i].tolist() for i in range(A))}
            solv = True
            for i in range(A):   # witness of solvability: agent i's nodes lie in its own connected sub-graph; the sub-graphs are node-disjoint
                sub = np.zeros(nN, bool)
                sub[parts[i]] = True
                reach = np.zeros(nN, bool)
                todo_i = todo[k][i]
                stack = [int(todo_i[0])]
                reach[stack[0]] = True
                while stack:
                    u = stack.pop()
                    for v in np.nonzero(a[u] & sub & ~reach)[0]:
                        reach[v] = True
                        stack.append(int(v))
                solv = solv and bool(np.all(sub[todo_i])) and bool(np.all(reach[todo_i]))
            res["each_agent_can_span_its_nodes_inside_its_own_disjoint_subgraph"] = solv
            if not all(res.values()):
                bad.append({"key": f"PRNGKey({k})", **res})
        ctx.bounded_check(f"{name}/C10.graph_symmetric_loop_free_and_split_instance_solvable", nkeys, len(bad), f"native run on PRNGKey(0..{nkeys - 1})", bad[0] if bad else None)
        for par_name, label in (("node_degree_at_most_max_degree", "advertised_max_degree_honoured"), ("number_of_edges_as_configured", "advertised_num_edges_distinct_edges")):
            bp = [b for b in bad_par if not b[par_name]]
            ctx.bounded_check(f"{name}/C10.{label}", nkeys, len(bp), f"native run on PRNGKey(0..{nkeys - 1})", {**bp[0], "n_failing": len(bp)} if bp else None)
        _not_constant(ctx, name, gen, lambda s_: s_.adj_matrix, [G.__call__], keys=4)


# ======================================================================================================================
def tasks(tier):
    q = tier == "quick"
    out = {}
    from jxv import envdriver
    out.update(envdriver.genpost_tasks("C10", tier))
    for n in ((3, 4) if q else (3, 4, 5, 8)):
        out[f"TSP.UniformGenerator[{n}]"] = (run_tsp, {"n": n})
    for (n, cap, d) in (((3, 10, 5), (4, 7, 7)) if q else ((3, 10, 5), (4, 7, 7), (8, 30, 10))):
        out[f"CVRP.UniformGenerator[{n},cap{cap},dem{d}]"] = (run_cvrp, {"n": n, "cap": cap, "dmax": d})
    for (nc, nv) in (((6, 2),) if q else ((6, 2), (6, 3))):
        out[f"MultiCVRP.UniformRandomGenerator[c{nc}v{nv}]"] = (run_multicvrp, {"nc": nc, "nv": nv})
    for n in ((3, 5) if q else (3, 5, 10)):
        out[f"Knapsack.RandomGenerator[{n}]"] = (run_knapsack, {"n": n})
    for n in ((3, 4) if q else (3, 4, 5, 7)):
        out[f"GraphColoring.RandomGenerator[{n}]"] = (run_graph_coloring, {"n": n})
    for (R, C, M) in (((2, 2, 1), (2, 2, 3), (3, 4, 3), (4, 3, 2)) if q else ((2, 2, 1), (2, 2, 3), (3, 4, 3), (4, 3, 2), (3, 3, 8), (5, 5, 6))):
        out[f"Minesweeper.UniformSamplingGenerator[{R}x{C}m{M}]"] = (run_minesweeper, {"R": R, "C": C, "M": M})
    for cfg in (((2, 2, 2, 2), (3, 2, 3, 3)) if q else ((2, 2, 2, 2), (3, 2, 3, 3), (4, 3, 4, 5), (2, 2, 1, 1))):
        out["JobShop.RandomGenerator[%dx%dx%dx%d]" % cfg] = (run_jobshop, dict(zip(("J", "Mc", "O", "D"), cfg)))
    for (R, C) in (((3, 3), (3, 4), (4, 3)) if q else ((3, 3), (3, 4), (4, 3), (5, 6), (2, 2))):
        out[f"Snake.reset[{R}x{C}]"] = (run_snake, {"R": R, "C": C})
    for n in ((2, 3) if q else (2, 3, 4)):
        out[f"Game2048.reset[{n}]"] = (run_2048, {"n": n})
    for (R, C) in (((4, 4), (5, 4)) if q else ((4, 4), (5, 4), (4, 6), (10, 10))):
        out[f"Tetris.reset[{R}x{C}]"] = (run_tetris, {"R": R, "C": C})
    # ---- 2. entities on distinct free cells
    for (G, A) in (((3, 2), (4, 3), (2, 2)) if q else ((3, 2), (4, 3), (2, 2), (5, 4), (6, 6))):
        out[f"Connector.UniformRandomGenerator[{G}x{G}a{A}]"] = (run_connector_uniform, {"G": G, "A": A})
    for kw in (({"G": 6, "A": 2, "F": 2}, {"G": 5, "A": 3, "F": 1, "L": 3}, {"G": 8, "A": 20, "F": 3, "merge_over": 8, "nkeys": 2000, "focus": LBF_FOCUS}) if q else
               ({"G": 6, "A": 2, "F": 2}, {"G": 5, "A": 3, "F": 1, "L": 3}, {"G": 6, "A": 2, "F": 2, "coop": True}, {"G": 7, "A": 4, "F": 3},
                {"G": 8, "A": 20, "F": 3, "merge_over": 8, "nkeys": 20000, "focus": LBF_FOCUS})):
        out["LBF.RandomGenerator[g%da%df%dl%d%s]" % (kw["G"], kw["A"], kw["F"], kw.get("L", 2), "coop" if kw.get("coop") else "")] = (run_lbf, dict(kw))
    for cfg in (((1, 3, 1, 1, 1, 2), (1, 3, 1, 2, 1, 2), (2, 1, 2, 3, 1, 1)) if q else ((1, 3, 1, 1, 1, 2), (1, 3, 1, 2, 1, 2), (2, 1, 2, 3, 1, 1), (2, 3, 1, 4, 1, 4))):
        out["RobotWarehouse.RandomGenerator[%d,%d,%d,a%d,s%d,q%d]" % cfg] = (run_rware, {"cfg": cfg})
    for (R, C) in (((5, 7), (7, 5), (3, 3), (4, 6)) if q else ((5, 7), (7, 5), (3, 3), (4, 6), (10, 10), (2, 2))):
        out[f"Maze.RandomGenerator[{R}x{C}]"] = (run_maze_gen, {"R": R, "C": C})
    for (R, C, A) in (((3, 5, 2), (5, 3, 2), (4, 4, 1)) if q else ((3, 5, 2), (5, 3, 2), (4, 4, 1), (10, 10, 3))):
        out[f"Cleaner.RandomGenerator[{R}x{C}a{A}]"] = (run_cleaner_gen, {"R": R, "C": C, "A": A})
    # ---- 3. maze_utils
    for (N, Fe) in (((4, 2), (6, 4)) if q else ((4, 2), (6, 4), (12, 4))):
        out[f"maze_utils.stack[max{N},feat{Fe}]"] = (run_stack, {"N": N, "Fe": Fe})
    for (R, C) in (((3, 3), (4, 5)) if q else ((3, 3), (4, 5), (5, 4), (5, 7))):
        out[f"maze_utils.split[{R}x{C}]"] = (run_split, {"R": R, "C": C})
    for (R, C) in (((2, 2), (3, 3), (4, 5), (5, 5)) if q else ((2, 2), (3, 3), (4, 5), (5, 4), (5, 5), (5, 7), (7, 5), (4, 6), (6, 4), (2, 5))):
        out[f"maze_utils.generate_maze[{R}x{C}]"] = (run_maze_unwound, {"R": R, "C": C})
    out["maze_utils.random_even_odd"] = (run_random_parity, {})
    sizes = ((3, 3), (5, 7), (7, 5), (4, 6), (6, 4), (2, 2), (2, 5), (10, 10)) if q else ((3, 3), (5, 7), (7, 5), (4, 6), (6, 4), (2, 2), (2, 5), (5, 2), (10, 10), (9, 12), (15, 15), (16, 11))
    out["maze_utils.connectivity[bounded]"] = (run_maze_connectivity, {"sizes": sizes, "nkeys": 200 if q else 1000})
    # ---- 4. FlatPack tiling; finite generators
    for (nr, nc) in (((1, 2), (2, 1), (2, 2)) if q else ((1, 1), (1, 2), (2, 1), (2, 2), (2, 3))):
        out[f"FlatPack.RandomFlatPackGenerator[{nr}x{nc}]"] = (run_flatpack, {"nr": nr, "nc": nc})
    out["FlatPack.RandomFlatPackGenerator[bounded]"] = (run_flatpack_bounded, {"sizes": ((2, 2), (2, 3)) if q else ((1, 3), (2, 2), (2, 3), (3, 3)), "nkeys": 40 if q else 200})
    out["Sudoku.generators"] = (run_sudoku, {})
    out["toy_and_fixed_generators"] = (run_toys, {})
    for (NI, S, cover) in (((2, 1, True), (3, 1, True), (4, 1, True), (3, 2, False)) if q else ((2, 1, True), (3, 1, True), (4, 1, True), (6, 1, True), (3, 2, False), (5, 3, False))):
        out[f"BinPack.RandomGenerator[items{NI},same{S}].split_step"] = (run_binpack_step, {"NI": NI, "S": S, "cover": cover})
    out["BinPack.RandomGenerator[bounded]"] = (run_binpack_bounded, {"cfgs": ((2, 3, 1), (6, 10, 2), (20, 80, 5), (12, 40, 8)) if q else ((2, 3, 1), (3, 4, 1), (6, 10, 2), (20, 80, 5), (12, 40, 8), (40, 100, 5)),
                                                                      "nkeys": 200 if q else 1000})
    # ---- 5. Connector random walk
    for (G, A, n, sym) in (((3, 4, 300, True), (4, 6, 300, False), (10, 10, 600, False)) if q else ((3, 4, 1000, True), (4, 6, 1000, True), (10, 10, 2000, False), (6, 3, 1000, False))):
        out[f"Connector.RandomWalkGenerator[{G}x{G}a{A}]"] = (run_connector_randomwalk, {"G": G, "A": A, "nkeys": n, "symbolic": sym})
    # ---- 6./7.
    for (g, L) in (((2, 3), (3, 3)) if q else ((2, 3), (3, 3), (3, 5), (4, 2))):
        out[f"SlidingTilePuzzle.RandomWalkGenerator[{g}x{g},{L} moves]"] = (run_sliding, {"g": g, "L": L})
    for (n, L) in (((2, 3), (3, 2)) if q else ((2, 3), (3, 3), (4, 2), (5, 2))):
        out[f"RubiksCube.ScramblingGenerator[{n},{L} scrambles]"] = (run_rubiks, {"n": n, "L": L})
    out["MMST.SplitRandomGenerator[bounded]"] = (run_mmst_bounded, {"cfgs": ((36, 72, 5, 3, 4, 70), (12, 18, 4, 2, 3, 20)) if q else ((36, 72, 5, 3, 4, 70), (12, 18, 4, 2, 3, 20), (30, 60, 5, 4, 3, 50)),
                                                                    "nkeys": 100 if q else 1000})
    return out


CONFIG_BOUND = ("sizes enumerated per generator (listed in the task ids: e.g. TSP 3,4; CVRP 3,4; MultiCVRP c6v2; Knapsack 3,5; GraphColoring 3,4; Minesweeper 2x2..4x3; JobShop 2x2x2x2, 3x2x3x3; "
                "Snake 3x3,3x4,4x3; 2048 2,3; Tetris 4x4,5x4; Connector 2..4; LBF g5,g6,g8; RobotWarehouse tiny; Maze/Cleaner generators up to 7x5 with generate_maze as a boundary; "
                "generate_maze completely unwound 2x2..5x5 quick / ..7x5 thorough; FlatPack 1x2,2x2; SlidingTile 2x2,3x3 with 3 moves; Rubik 2,3); keys / sampler outcomes / symbolic "
                "mazes, stacks, chambers, databases unbounded for the proved obligations; the bounded stand-ins state their key ranges")
NOT_VERIFIED = [
    "sizes outside the enumerated configurations (jaxprs are shape-monomorphic)",
    "maze connectivity beyond the completely unwound sizes: function-level contracts (stack LIFO laws, random_even/odd, split_horizontally/vertically) are proved for all values, "
    "the global connectivity of bigger mazes is a bounded flood-fill stand-in only",
    "Connector RandomWalkGenerator / MMST SplitRandomGenerator / BinPack RandomGenerator / SlidingTile with the default 100 moves: solvability is a bounded stand-in on real keys "
    "(the generator's own solved grid / own sub-graph split / generate_solution is checked as the witness); not proved for all keys",
    "BinPack RandomGenerator: the splitting loop is proved by induction on its body (inside container, pairwise disjoint: all listed sizes; exact 1-D cover of the split item: only "
    "split_num_same_items=1, the clause times out (120 s) for >= 2 because of the float division by the symbolic number of copies); termination of the loop is probabilistic and not proved; "
    "end-to-end (volumes add up, generate_solution feasible) is a bounded native check; BinPack CSVGenerator needs a user file: not checked",
    "RubiksCube: 'every colour on n^2 stickers' dropped from the generator problem (counting clause 25-45 s each); it follows from C17 (every move is a proved bijection of stickers) and "
    "the proved clause 'the cube is reached from the solved cube by legal moves'",
    "Sokoban Toy/SimpleSolve levels: well-formedness only (solvability would need a Sokoban solver); DeepMind / HuggingFace dataset generators need a download: not checked",
    "JobShop ToyGenerator's advertised optimal makespan (8) is not checked; PacMan maze connectivity is not checked",
    "MultiCVRP: floats are reals in the encoding; the all-zero-demand draw (0/0 in the demand normalisation, probability 10^-6) is outside the model",
    "samplers inside lax.scan bodies cannot be pinned per iteration in a counterexample replay (engine limitation): such problems use constant canaries / a contract boundary on the scanned callee",
]
ASSUMPTIONS = ["jax.random sampler contracts (jxv/stubs.py): randint in [lo,hi), uniform in [lo,hi), choice lands on p>0 when some p>0 (any index otherwise), choice(replace=False) distinct "
               "and on p>0 when enough entries are positive, permutation is a permutation",
               "jax.random.split is a deterministic function of the key (same key expression => same sampler outcome symbols in generator and contract)",
               "floats as reals (coordinates, MultiCVRP demand normalisation)",
               "generate_maze as a contract boundary inside the Maze / Cleaner generator proofs (its post-condition is itself proved, completely unwound, at the small sizes)"]
LEVEL_TEXT = ("Proof (Engine J, all keys = all sampler outcomes, per enumerated size) for the light generators: TSP/CVRP/MultiCVRP boxes, demands <= capacity, depot demand 0; Knapsack [0,1); "
              "GraphColoring symmetric and loop-free; Minesweeper exactly num_mines distinct mines in range, board unexplored; JobShop ids/durations/prefix mask/>=1 op; Snake, 2048, Tetris "
              "initial states; Connector uniform, LBF, RobotWarehouse entities on distinct cells; Maze/Cleaner start, target, origin free given the maze; generate_maze COMPLETELY unwound with "
              "a reachability fix-point in the formula: every generated maze is fully connected (2x2..5x5 quick); stack LIFO laws, random_even/odd range and parity, split_horizontally/"
              "vertically (one spanning wall on an odd line, one passage at an even offset, frame, sub-chambers partition the chamber) for ALL mazes/stacks/chambers; SlidingTile permutation + "
              "inversion-parity solvability, Rubik cube = legal moves from the goal; Sudoku DatabaseGenerator returns a database puzzle unchanged (symbolic database).  Exhaustive native "
              "enumeration of finite generators: all 11 000 shipped Sudoku puzzles are conflict-free AND have a solution; toy/dummy/ASCII generators satisfy their advertised invariants "
              "(FlatPack toys by exact-cover search, BinPack toy by box arithmetic).  Existential 'not constant in the key': a native witness pair per random generator.")
LEVEL_NOTE = ("Three generator defects found by these clauses were repaired in /repo (FlatPack crop, LBF food mask, Connector random-walk starts: known_findings.json 'fixed'); "
              "known findings kept as the property states them: MMST SplitRandomGenerator exceeds max_degree and has fewer distinct edges than num_edges; Connector "
              "RandomWalkGenerator(3, 4) (over-full board). The generator post-conditions that the environment contracts assume at reset are obligations here "
              "(genpost:* tasks). Bounded stand-ins are labelled and never counted as proved.")
