"""C10 — every generated instance is well-formed and solvable as advertised.

Generators are `reset`'s callees.  Light generators are proved for ALL keys: `ensures(key)` calls the REAL generator, the samplers of
jax.random are replaced at trace time by contract stubs (fresh symbols constrained by the assumed sampler contract), so one proof covers
every outcome a sampler may legally produce (a superset of all keys).  Heavy callees (`generate_maze`) are contract boundaries.
Finite generators (toy / dummy / databases) are checked natively and exhaustively.  Global solvability facts of loop-heavy generators
(maze connectivity, Connector random walk, MMST split) are bounded stand-ins only (labelled, never counted as proved).
"The generator is not a constant function of the key" is an existential: two keys with different outputs are exhibited natively."""
import jax
import jax.numpy as jnp
import numpy as np

from contracts import common as K

LEVEL = "proof"
KEY0 = jax.random.PRNGKey(0)


def _pairwise_distinct(flat):
    """flat: 1-D int array; one bool per unordered pair"""
    n = flat.shape[0]
    return jnp.stack([flat[i] != flat[j] for i in range(n) for j in range(i + 1, n)]) if n > 1 else jnp.asarray(True)


def _not_constant(ctx, name, gen, leaf, targets=(), keys=8):
    """existential: exhibit two keys with different outputs (native run of the real generator)"""
    outs = [np.asarray(leaf(gen(jax.random.PRNGKey(s)))) for s in range(keys)]
    wit = next(((0, s) for s in range(1, keys) if not np.array_equal(outs[0], outs[s])), None)
    ctx.structural(f"{name}/C10.generator_depends_on_the_key", wit is not None, "native witness pair (two keys, different instances)",
                   detail={"keys": list(wit) if wit else None, "tried": keys}, witness=None if wit else {"keys_tried": keys}, targets=list(targets))


# ======================================================================================================================
# 1. light generators: proved for all keys
# ======================================================================================================================
def run_tsp(ctx, n):
    from jumanji.environments.routing.tsp.generator import UniformGenerator
    gen = UniformGenerator(n)
    name = f"TSP.UniformGenerator[{n}]"

    def ens(key):
        s = gen(key)
        c = s.coordinates
        return {"C10.coordinates_in_unit_square": (c >= 0) & (c < 1),
                "C10.nothing_visited": ~s.visited_mask, "C10.num_visited_zero": s.num_visited == 0,
                "C10.trajectory_empty": s.trajectory == -1,
                "canary.first_city_in_lower_half": c[0, 0] < 0.5}

    ctx.prove(name, (KEY0,), ens, targets=[UniformGenerator.__call__])
    _not_constant(ctx, name, gen, lambda s: s.coordinates, [UniformGenerator.__call__])


def run_cvrp(ctx, n, cap, dmax):
    from jumanji.environments.routing.cvrp.generator import UniformGenerator
    gen = UniformGenerator(n, cap, dmax)
    name = f"CVRP.UniformGenerator[{n},cap{cap},dem{dmax}]"

    def ens(key):
        s = gen(key)
        c, d = s.coordinates, s.demands
        return {"C10.coordinates_in_unit_square": (c >= 0) & (c < 1),
                "C10.depot_demand_zero": d[0] == 0,
                "C10.customer_demand_in_documented_range": (d[1:] >= 1) & (d[1:] <= dmax),
                "C10.demand_never_exceeds_capacity": d <= cap,
                "C10.starts_at_depot_with_full_capacity": (s.position == 0) & (s.capacity == cap),
                "C10.only_depot_visited": s.visited_mask == (jnp.arange(n + 1) == 0),
                "canary.first_customer_demand_is_one": d[1] == 1}

    ctx.prove(name, (KEY0,), ens, targets=[UniformGenerator.__call__])
    _not_constant(ctx, name, gen, lambda s: (s.coordinates, s.demands)[0], [UniformGenerator.__call__])


def run_multicvrp(ctx, nc, nv):
    from jumanji.environments.routing.multi_cvrp.generator import UniformRandomGenerator
    from jumanji.environments.routing.multi_cvrp import utils as U
    gen = UniformRandomGenerator(nc, nv)
    name = f"MultiCVRP.UniformRandomGenerator[c{nc}v{nv}]"
    mx, cap, dmax = gen._map_max, gen._max_capacity, gen._customer_demand_max

    def ens(key):
        s = gen(key)
        c, d = s.nodes.coordinates, s.nodes.demands
        return {"C10.coordinates_in_declared_box": (c >= 0) & (c < mx),
                "C10.depot_demand_zero": d[0] == 0,
                "C10.demand_never_exceeds_vehicle_capacity": d <= cap,
                "C10.demand_at_most_documented_max": d <= dmax,
                "C10.vehicles_start_at_depot_full": (s.vehicles.positions == 0) & (s.vehicles.capacities == cap),
                "C10.window_end_after_start": s.windows.end >= s.windows.start,
                "C10.window_start_in_range": (s.windows.start >= 0) & (s.windows.start < gen._max_start_window),
                "C10.no_penalty_at_depot": (s.coeffs.early[0] == 0) & (s.coeffs.late[0] == 0),
                "canary.first_customer_demand_zero": d[1] == 0}

    ctx.prove(name, (KEY0,), ens, targets=[UniformRandomGenerator.__call__, U.generate_uniform_random_problem])
    _not_constant(ctx, name, gen, lambda s: s.nodes.coordinates, [UniformRandomGenerator.__call__])


def run_knapsack(ctx, n):
    from jumanji.environments.packing.knapsack.generator import RandomGenerator
    gen = RandomGenerator(n, 2.0)
    name = f"Knapsack.RandomGenerator[{n}]"

    def ens(key):
        s = gen(key)
        return {"C10.weights_in_unit_interval": (s.weights >= 0) & (s.weights < 1),
                "C10.values_in_unit_interval": (s.values >= 0) & (s.values < 1),
                "C10.nothing_packed": ~s.packed_items, "C10.full_budget": s.remaining_budget == 2.0,
                "canary.first_weight_in_lower_half": s.weights[0] < 0.5}

    ctx.prove(name, (KEY0,), ens, targets=[RandomGenerator.__call__])
    _not_constant(ctx, name, gen, lambda s: s.weights, [RandomGenerator.__call__])


def run_graph_coloring(ctx, n):
    from jumanji.environments.logic.graph_coloring.generator import RandomGenerator
    gen = RandomGenerator(n, 0.5)
    name = f"GraphColoring.RandomGenerator[{n}]"

    def ens(key):
        adj = gen(key)
        return {"C10.adjacency_symmetric": adj == adj.T, "C10.no_self_loops": ~jnp.diagonal(adj),
                "canary.graph_has_no_edge": ~jnp.any(adj)}

    ctx.prove(name, (KEY0,), ens, targets=[RandomGenerator.__call__])
    _not_constant(ctx, name, gen, lambda a: a, [RandomGenerator.__call__], keys=16)


def run_minesweeper(ctx, R, C, M):
    from jumanji.environments.logic.minesweeper.generator import UniformSamplingGenerator
    from jumanji.environments.logic.minesweeper import utils as U
    from jumanji.environments.logic.minesweeper.constants import UNEXPLORED_ID
    gen = UniformSamplingGenerator(R, C, M)
    name = f"Minesweeper.UniformSamplingGenerator[{R}x{C}m{M}]"

    def ens(key):
        s = gen(key)
        loc = s.flat_mine_locations
        mined = U.get_mined_board(s)
        return {"C10.mine_locations_on_the_board": (loc >= 0) & (loc < R * C),
                "C10.mines_pairwise_distinct": _pairwise_distinct(loc),
                "C10.exactly_num_mines_mined_cells": jnp.sum(mined) == M,
                "C10.board_all_unexplored": s.board == UNEXPLORED_ID,
                "C10.step_count_zero": s.step_count == 0,
                "canary.first_mine_at_cell_zero": loc[0] == 0}

    ok_shape = tuple(jax.eval_shape(gen, KEY0).flat_mine_locations.shape) == (M,)
    ctx.structural(f"{name}/C10.number_of_mine_slots_is_num_mines", ok_shape, "jax.eval_shape", targets=[UniformSamplingGenerator.generate_flat_mine_locations])
    ctx.prove(name, (KEY0,), ens, targets=[UniformSamplingGenerator.__call__, U.create_flat_mine_locations])
    _not_constant(ctx, name, gen, lambda s: s.flat_mine_locations, [U.create_flat_mine_locations], keys=16)


def run_jobshop(ctx, J, Mc, O, D):
    from jumanji.environments.packing.job_shop.generator import RandomGenerator
    gen = RandomGenerator(J, Mc, O, D)
    name = f"JobShop.RandomGenerator[{J}x{Mc}x{O}x{D}]"

    def ens(key):
        s = gen(key)
        m, d, mask = s.ops_machine_ids, s.ops_durations, s.ops_mask
        prefix = jnp.stack([~mask[:, k + 1] | mask[:, k] for k in range(O - 1)], axis=1) if O > 1 else jnp.ones((J, 1), bool)
        return {"C10.machine_id_in_range_where_op_exists": ~mask | ((m >= 0) & (m < Mc)),
                "C10.duration_at_least_one_where_op_exists": ~mask | ((d >= 1) & (d <= D)),
                "C10.padding_is_minus_one": mask | ((m == -1) & (d == -1)),
                "C10.ops_mask_is_a_prefix_per_job": prefix,
                "C10.at_least_one_op_per_job": mask[:, 0],
                "C10.machines_idle": (s.machines_job_ids == J) & (s.machines_remaining_times == 0),
                "C10.nothing_scheduled": s.scheduled_times == -1,
                "C10.step_count_zero": s.step_count == 0,
                "canary.every_job_has_max_ops": jnp.all(mask)}

    ctx.prove(name, (KEY0,), ens, targets=[RandomGenerator.__call__])
    _not_constant(ctx, name, gen, lambda s: s.ops_durations, [RandomGenerator.__call__], keys=16)


def run_snake(ctx, R, C):
    from jumanji.environments import Snake
    env = Snake(R, C, time_limit=7)
    name = f"Snake.reset[{R}x{C}]"

    def ens(key):
        s, _ = env.reset(key)
        hr, hc = s.head_position.row, s.head_position.col
        fr, fc = s.fruit_position.row, s.fruit_position.col
        rows, cols = jnp.arange(R)[:, None], jnp.arange(C)[None, :]
        at_head = (rows == hr) & (cols == hc)
        return {"C10.head_inside_grid": (hr >= 0) & (hr < R) & (hc >= 0) & (hc < C),
                "C10.fruit_inside_grid": (fr >= 0) & (fr < R) & (fc >= 0) & (fc < C),
                "C10.fruit_on_a_free_cell": ~((fr == hr) & (fc == hc)),
                "C10.body_is_exactly_the_head": s.body == at_head,
                "C10.tail_is_the_head": s.tail == at_head,
                "C10.body_state_is_one_at_head": s.body_state == at_head.astype(jnp.int32),
                "C10.length_one_step_zero": (s.length == 1) & (s.step_count == 0),
                "canary.head_in_first_row": hr == 0}

    ctx.prove(name, (KEY0,), ens, targets=[Snake.reset, Snake._sample_fruit_coord])
    _not_constant(ctx, name, lambda k: env.reset(k)[0], lambda s: jnp.stack([s.head_position.row, s.head_position.col, s.fruit_position.row, s.fruit_position.col]),
                  [Snake.reset], keys=16)


def run_2048(ctx, n):
    from jumanji.environments import Game2048
    env = Game2048(board_size=n)
    name = f"Game2048.reset[{n}]"

    def ens(key):
        s, _ = env.reset(key)
        b = s.board
        return {"C10.exactly_one_initial_tile": jnp.sum(b != 0) == 1,
                "C10.initial_tile_is_2_or_4": (b == 0) | (b == 1) | (b == 2),
                "C10.score_and_step_count_zero": (s.step_count == 0) & (s.score == 0),
                "canary.tile_in_first_cell": b[0, 0] != 0}

    ctx.prove(name, (KEY0,), ens, targets=[Game2048.reset, Game2048._generate_board, Game2048._add_random_cell])
    _not_constant(ctx, name, lambda k: env.reset(k)[0], lambda s: s.board, [Game2048.reset], keys=16)


def run_tetris(ctx, R, C):
    from jumanji.environments import Tetris
    from jumanji.environments.packing.tetris import utils as U
    env = Tetris(R, C, time_limit=7)
    name = f"Tetris.reset[{R}x{C}]"
    T = env.TETROMINOES_LIST
    nT = len(T)

    def ens(key):
        s, _ = env.reset(key)
        want = T[0, 0]
        for i in range(1, nT):
            want = jnp.where(s.tetromino_index == i, T[i, 0], want)
        return {"C10.tetromino_index_valid": (s.tetromino_index >= 0) & (s.tetromino_index < nT),
                "C10.tetromino_is_the_indexed_piece_unrotated": s.new_tetromino == want,
                "C10.grid_empty": s.grid_padded == 0,
                "C10.score_and_step_count_zero": (s.step_count == 0) & (s.score == 0),
                "canary.first_piece_is_piece_zero": s.tetromino_index == 0}

    ctx.prove(name, (KEY0,), ens, targets=[Tetris.reset, U.sample_tetromino_list], merge_over=8)
    ok = all(int(np.asarray(T[i, r]).sum()) == 4 for i in range(nT) for r in range(T.shape[1]))
    ctx.structural(f"{name}/C10.every_piece_has_four_cells", ok, "native evaluation of the constant piece table", targets=[Tetris.__init__])
    _not_constant(ctx, name, lambda k: env.reset(k)[0], lambda s: s.tetromino_index, [Tetris.reset], keys=16)


# ======================================================================================================================
# 2. entities start on distinct free cells
# ======================================================================================================================
def run_connector_uniform(ctx, G, A):
    from jumanji.environments.routing.connector.generator import UniformRandomGenerator
    from jumanji.environments.routing.connector.utils import get_position, get_target
    gen = UniformRandomGenerator(G, A)
    name = f"Connector.UniformRandomGenerator[{G}x{G}a{A}]"

    def ens(key):
        s = gen(key)
        st, tg = s.agents.start, s.agents.target
        flat = jnp.concatenate([st[:, 0] * G + st[:, 1], tg[:, 0] * G + tg[:, 1]])
        rows, cols = jnp.arange(G)[:, None], jnp.arange(G)[None, :]
        want = jnp.zeros((G, G), jnp.int32)
        for a in range(A):
            want = jnp.where((rows == st[a, 0]) & (cols == st[a, 1]), get_position(a), want)
            want = jnp.where((rows == tg[a, 0]) & (cols == tg[a, 1]), get_target(a), want)
        return {"C10.heads_inside_grid": (st >= 0) & (st < G), "C10.targets_inside_grid": (tg >= 0) & (tg < G),
                "C10.heads_and_targets_pairwise_distinct": _pairwise_distinct(flat),
                "C10.grid_shows_exactly_one_head_and_one_target_per_agent": s.grid == want,
                "C10.agents_start_at_their_heads": s.agents.position == st,
                "C10.agent_ids_and_step_count": (s.agents.id == jnp.arange(A)) & (s.step_count == 0),
                "canary.first_head_in_first_row": st[0, 0] == 0}

    ctx.prove(name, (KEY0,), ens, targets=[UniformRandomGenerator.__call__])
    _not_constant(ctx, name, gen, lambda s: s.grid, [UniformRandomGenerator.__call__], keys=16)


def run_lbf(ctx, G, A, F, L=2, coop=False):
    from jumanji.environments.routing.lbf.generator import RandomGenerator
    gen = RandomGenerator(G, A, F, G, max_agent_level=L, force_coop=coop)
    name = f"LBF.RandomGenerator[g{G}a{A}f{F}l{L}{'coop' if coop else ''}]"

    def ens(key):
        s = gen(key)
        ap, fp = s.agents.position, s.food_items.position
        aflat = ap[:, 0] * G + ap[:, 1]
        fflat = fp[:, 0] * G + fp[:, 1]
        out = {"C10.agents_inside_grid": (ap >= 0) & (ap < G),
               "C10.agents_pairwise_distinct": _pairwise_distinct(aflat),
               "C10.food_not_on_the_edge": (fp >= 1) & (fp <= G - 2),
               "C10.no_agent_on_a_food_cell": jnp.stack([aflat[i] != fflat[j] for i in range(A) for j in range(F)]),
               "C10.agent_levels_in_range": (s.agents.level >= 1) & (s.agents.level <= L),
               "C10.food_levels_at_least_one": s.food_items.level >= 1,
               "C10.every_food_can_be_loaded_by_all_agents_together": s.food_items.level <= jnp.sum(s.agents.level),
               "C10.nothing_eaten_nobody_loading": jnp.all(~s.food_items.eaten) & jnp.all(~s.agents.loading) & (s.step_count == 0),
               "canary.first_agent_in_first_row": ap[0, 0] == 0}
        if F > 1:
            out["C10.food_pairwise_distinct_and_not_adjacent"] = jnp.stack(
                [jnp.abs(fp[i, 0] - fp[j, 0]) + jnp.abs(fp[i, 1] - fp[j, 1]) > 1 for i in range(F) for j in range(i + 1, F)])
        return out

    ctx.prove(name, (KEY0,), ens, targets=[RandomGenerator.__call__, RandomGenerator.sample_food, RandomGenerator.sample_agents, RandomGenerator.sample_levels])
    _not_constant(ctx, name, gen, lambda s: s.agents.position, [RandomGenerator.__call__], keys=16)


def run_rware(ctx, cfg):
    from jumanji.environments.routing.robot_warehouse.generator import RandomGenerator
    from jumanji.environments.routing.robot_warehouse import utils_spawn as US
    gen = RandomGenerator(*cfg)
    name = "RobotWarehouse.RandomGenerator[%d,%d,%d,a%d,s%d,q%d]" % cfg
    H, W = (int(x) for x in gen._grid_size)
    A, Q = cfg[3], cfg[5]
    nS = int(gen._shelf_ids.shape[0])
    spos = np.asarray(gen._shelf_positions)

    def ens(key):
        s = gen(key)
        x, y = s.agents.position.x, s.agents.position.y
        rows, cols = jnp.arange(H)[:, None], jnp.arange(W)[None, :]
        want = jnp.zeros((H, W), jnp.int32)
        for a in range(A):
            want = jnp.where((rows == x[a]) & (cols == y[a]), a + 1, want)
        q = s.request_queue
        requested = jnp.stack([jnp.any(q == i) for i in range(nS)])
        out = {"C10.agents_inside_grid": (x >= 0) & (x < H) & (y >= 0) & (y < W),
               "C10.agent_channel_shows_each_agent_on_its_cell": s.grid[1] == want,
               "C10.agent_direction_valid": (s.agents.direction >= 0) & (s.agents.direction < 4),
               "C10.nobody_carrying": s.agents.is_carrying == 0,
               "C10.request_queue_ids_valid": (q >= 0) & (q < nS),
               "C10.requested_shelves_are_exactly_the_queue": (s.shelves.is_requested == 1) == requested,
               "C10.shelves_on_their_rack_cells": (s.shelves.position.x == spos[:, 0]) & (s.shelves.position.y == spos[:, 1]),
               "canary.first_agent_in_first_row": x[0] == 0}
        if A > 1:
            out["C10.agents_pairwise_distinct"] = _pairwise_distinct(x * W + y)
        if Q > 1:
            out["C10.request_queue_pairwise_distinct"] = _pairwise_distinct(q)
        return out

    ctx.prove(name, (KEY0,), ens, targets=[RandomGenerator.__call__, US.spawn_random_entities, US.place_entities_on_grid], merge_over=64)
    shelf_grid = np.zeros((H, W), np.int64)
    for i, (a, b) in enumerate(spos):
        shelf_grid[a, b] = i + 1
    st = gen(KEY0)
    ok = np.array_equal(np.asarray(st.grid[0]), shelf_grid) and not np.any(np.asarray(gen.highways)[spos[:, 0], spos[:, 1]]) and len({tuple(p) for p in spos}) == nS
    ctx.structural(f"{name}/C10.shelves_on_distinct_non_highway_cells", bool(ok), "native evaluation (the shelf layout is a constant of the configuration)",
                   targets=[type(gen).__mro__[1]._make_warehouse])
    _not_constant(ctx, name, gen, lambda s: jnp.concatenate([s.agents.position.x, s.agents.position.y, s.request_queue]), [US.spawn_random_entities], keys=16)


def run_maze_gen(ctx, R, C):
    from jumanji.environments.routing.maze import generator as MG
    gen = MG.RandomGenerator(R, C)
    name = f"Maze.RandomGenerator[{R}x{C}]"
    walls0 = jnp.zeros((R, C), jnp.int8)

    def req(key, maze):
        return {"generate_maze.values_are_EMPTY_or_WALL": (maze == 0) | (maze == 1),
                "generate_maze.at_least_two_free_cells": jnp.sum(maze == 0) >= 2}

    def ens(key, maze):
        with K.with_attr(MG.maze_generation, "generate_maze", lambda w, h, k: maze):
            s = gen(key)
        ar, ac, tr, tc = s.agent_position.row, s.agent_position.col, s.target_position.row, s.target_position.col
        inside = lambda r, c: (r >= 0) & (r < R) & (c >= 0) & (c < C)
        free = lambda r, c: maze[jnp.clip(r, 0, R - 1), jnp.clip(c, 0, C - 1)] == 0
        return {"C10.start_inside_grid": inside(ar, ac), "C10.target_inside_grid": inside(tr, tc),
                "C10.start_cell_free": inside(ar, ac) & free(ar, ac), "C10.target_cell_free": inside(tr, tc) & free(tr, tc),
                "C10.start_differs_from_target": (ar != tr) | (ac != tc),
                "C10.walls_are_the_generated_maze": s.walls == (maze == 1),
                "C10.step_count_zero": s.step_count == 0,
                "canary.start_at_origin": (ar == 0) & (ac == 0)}

    ctx.prove(name, (KEY0, walls0), ens, req, targets=[MG.RandomGenerator.__call__], merge_over=64,
              note="generate_maze is a contract boundary: its result is a symbolic maze with >= 2 free cells")
    # the boundary is called with (width=num_cols, height=num_rows): checked on the abstract value of the real call
    shp = tuple(jax.eval_shape(lambda k: MG.maze_generation.generate_maze(gen.num_cols, gen.num_rows, k), KEY0).shape)
    ctx.structural(f"{name}/C10.maze_shape_is_rows_by_cols", shp == (R, C) and tuple(jax.eval_shape(gen, KEY0).walls.shape) == (R, C), "jax.eval_shape",
                   targets=[MG.RandomGenerator.__call__])
    _not_constant(ctx, name, gen, lambda s: jnp.concatenate([s.walls.ravel().astype(jnp.int32), jnp.stack([s.agent_position.row, s.agent_position.col])]),
                  [MG.RandomGenerator.__call__])


def run_cleaner_gen(ctx, R, C, A):
    from jumanji.environments.routing.cleaner import generator as CG
    from jumanji.environments.routing.cleaner.constants import CLEAN, DIRTY, WALL
    gen = CG.RandomGenerator(R, C, A)
    name = f"Cleaner.RandomGenerator[{R}x{C}a{A}]"
    maze0 = jnp.zeros((R, C), jnp.int8)

    def req(key, maze):
        return {"generate_maze.values_are_EMPTY_or_WALL": (maze == 0) | (maze == 1)}

    def ens(key, maze):
        with K.with_attr(CG.maze_generation, "generate_maze", lambda w, h, k: maze):
            s = gen(key)
        rows, cols = jnp.arange(R)[:, None], jnp.arange(C)[None, :]
        origin = (rows == 0) & (cols == 0)
        want = jnp.where(origin, CLEAN, jnp.where(maze == 1, WALL, DIRTY))
        return {"C10.origin_cell_free_and_clean": s.grid[0, 0] == CLEAN,
                "C10.all_agents_start_at_the_origin": s.agents_locations == 0,
                "C10.grid_is_the_maze_walls_else_dirty": s.grid == want,
                "C10.step_count_zero": s.step_count == 0,
                "canary.grid_has_no_wall": jnp.all(s.grid != WALL)}

    ctx.prove(name, (KEY0, maze0), ens, req, targets=[CG.RandomGenerator.__call__, CG.RandomGenerator._adapt_values], merge_over=64,
              note="generate_maze is a contract boundary: its result is a symbolic maze")
    ctx.structural(f"{name}/C10.grid_shape_is_rows_by_cols", tuple(jax.eval_shape(gen, KEY0).grid.shape) == (R, C), "jax.eval_shape", targets=[CG.RandomGenerator.__call__])
    _not_constant(ctx, name, gen, lambda s: s.grid, [CG.RandomGenerator.__call__])


# ======================================================================================================================
# 3. maze_utils: function-level contracts (all values) + connectivity as a bounded stand-in
# ======================================================================================================================
def run_stack(ctx, N, Fe):
    from jumanji.environments.commons.maze_utils import stack as ST
    name = f"maze_utils.stack[max{N},feat{Fe}]"
    data0 = jnp.zeros((N, Fe), jnp.int32)
    el0 = jnp.zeros((Fe,), jnp.int32)
    rows = jnp.arange(N)[:, None]

    def ens_push(data, idx, el):
        s = ST.Stack(data, idx)
        s2 = ST.stack_push(s, el)
        s3, top = ST.stack_pop(s2)
        below = rows < idx
        return {"C10.push_increments_size": s2.insertion_index == idx + 1,
                "C10.push_writes_the_element_on_top": s2.data[jnp.clip(idx, 0, N - 1)] == el,
                "C10.push_leaves_other_rows_untouched": (rows == idx) | (s2.data == data),
                "C10.pop_after_push_returns_the_element": top == el,
                "C10.pop_after_push_restores_the_size": s3.insertion_index == idx,
                "C10.pop_after_push_restores_the_live_rows": ~below | (s3.data == data),
                "C10.pushed_stack_is_not_empty": ~ST.empty_stack(s2),
                "canary.push_leaves_data_unchanged": jnp.all(s2.data == data)}

    ctx.prove(name + ".push", (data0, jnp.int32(0), el0), ens_push, lambda d, i, e: {"room_left": (i >= 0) & (i < N)},
              targets=[ST.stack_push, ST.stack_pop, ST.empty_stack], use_stubs=False, merge_over=16)

    def ens_pop(data, idx):
        s2, top = ST.stack_pop(ST.Stack(data, idx))
        s3 = ST.stack_push(s2, top)
        return {"C10.pop_returns_the_top_row": top == data[jnp.clip(idx - 1, 0, N - 1)],
                "C10.pop_decrements_size": s2.insertion_index == idx - 1,
                "C10.pop_leaves_data_untouched": s2.data == data,
                "C10.push_after_pop_restores_the_stack": (s3.data == data) & (s3.insertion_index == idx),
                "C10.empty_iff_size_zero": ST.empty_stack(s2) == (idx == 1),
                "canary.pop_returns_row_zero": jnp.all(top == data[0])}

    ctx.prove(name + ".pop", (data0, jnp.int32(1)), ens_pop, lambda d, i: {"not_empty": (i >= 1) & (i <= N)},
              targets=[ST.stack_pop, ST.stack_push, ST.empty_stack], use_stubs=False, merge_over=16)
    s0 = ST.create_stack(N, Fe)
    ok = bool(ST.empty_stack(s0)) and tuple(s0.data.shape) == (N, Fe) and int(s0.insertion_index) == 0 and jnp.issubdtype(s0.data.dtype, jnp.integer)
    ctx.structural(f"{name}.create/C10.created_stack_is_empty_with_the_requested_capacity", ok, "native evaluation (constant)", targets=[ST.create_stack])


def run_random_parity(ctx):
    from jumanji.environments.commons.maze_utils import maze_generation as MZ
    name = "maze_utils.maze_generation"

    def ens_even(key, m):
        r = MZ.random_even(key, m)
        return {"C10.random_even_in_range": (r >= 0) & (r < m), "C10.random_even_is_even": r % 2 == 0, "canary.random_even_is_zero": r == 0}

    ctx.prove(name + ".random_even", (KEY0, jnp.int32(3)), ens_even, lambda k, m: {"max_val_positive": (m >= 1) & (m <= 1 << 20)}, targets=[MZ.random_even])

    def ens_odd(key, m):
        r = MZ.random_odd(key, m)
        return {"C10.random_odd_in_range": (r >= 1) & (r < m), "C10.random_odd_is_odd": r % 2 == 1, "canary.random_odd_is_one": r == 1}

    ctx.prove(name + ".random_odd", (KEY0, jnp.int32(3)), ens_odd, lambda k, m: {"max_val_at_least_two": (m >= 2) & (m <= 1 << 20)}, targets=[MZ.random_odd])


def run_split(ctx, R, C):
    """split_horizontally / split_vertically on a symbolic maze, stack and chamber: the wall is on an odd line strictly inside the chamber, spans it,
    has exactly one passage at an even offset, nothing else is written, and the pushed sub-chambers are the two sides of the wall."""
    from jumanji.environments.commons.maze_utils import maze_generation as MZ
    from jumanji.environments.commons.maze_utils.stack import Stack
    N = R * C
    maze0, data0, ch0 = jnp.zeros((R, C), jnp.int8), jnp.zeros((N, 4), jnp.int32), jnp.array([0, 0, C, R], jnp.int32)
    rows, cols = jnp.arange(R)[:, None], jnp.arange(C)[None, :]
    srow = jnp.arange(N)[:, None]

    def req(key, maze, data, idx, ch):
        x, y, w, h = ch[0], ch[1], ch[2], ch[3]
        return {"maze_values": (maze == 0) | (maze == 1), "chamber_inside_maze": (x >= 0) & (y >= 0) & (x + w <= C) & (y + h <= R),
                "chamber_splittable": (w >= 2) & (h >= 2), "chamber_origin_even": (x % 2 == 0) & (y % 2 == 0),
                "stack_has_room_for_two": (idx >= 0) & (idx <= N - 2)}

    def make(horizontal):
        fn = MZ.split_horizontally if horizontal else MZ.split_vertically

        def ens(key, maze, data, idx, ch):
            x, y, w, h = ch[0], ch[1], ch[2], ch[3]
            out = fn(MZ.MazeGenerationState(maze, Stack(data, idx), key), ch)
            m2, d2, i2 = out.maze, out.chambers.data, out.chambers.insertion_index
            inside = (cols >= x) & (cols < x + w) & (rows >= y) & (rows < y + h)
            ok = jnp.asarray(False)
            # existential over the wall line (odd) and the passage position (even): finite disjunction over the grid
            for wl in range(1, (C if horizontal else R), 2):
                for ps in range(0, (R if horizontal else C), 2):
                    if horizontal:   # vertical wall in column wl, passage in row ps
                        d, rest = wl - x, w - (wl - x) - 1
                        valid = (wl > x) & (wl < x + w) & (ps >= y) & (ps < y + h)
                        on_wall = inside & (cols == wl)
                        passage = on_wall & (rows == ps)
                        first, second = jnp.stack([x, y, d, h]), jnp.stack([wl + 1, y, rest, h])
                    else:            # horizontal wall in row wl, passage in column ps
                        d, rest = wl - y, h - (wl - y) - 1
                        valid = (wl > y) & (wl < y + h) & (ps >= x) & (ps < x + w)
                        on_wall = inside & (rows == wl)
                        passage = on_wall & (cols == ps)
                        first, second = jnp.stack([x, y, w, d]), jnp.stack([x, wl + 1, w, rest])
                    want = jnp.where(passage, 0, jnp.where(on_wall, 1, maze))
                    p1, p2 = d > 1, rest > 1
                    n_push = p1.astype(jnp.int32) + p2.astype(jnp.int32)
                    live = srow < idx
                    st_ok = (i2 == idx + n_push) & jnp.all(~live | (d2 == data)) \
                        & (~p1 | jnp.all(d2[jnp.clip(idx, 0, N - 1)] == first)) \
                        & (~p2 | jnp.all(d2[jnp.clip(idx + p1.astype(jnp.int32), 0, N - 1)] == second))
                    ok = ok | (valid & jnp.all(m2 == want) & st_ok)
            return {"C10.one_spanning_wall_on_an_odd_line_one_passage_at_an_even_offset_frame_and_subchambers_partition": ok,
                    "C10.cells_outside_the_chamber_untouched": inside | (m2 == maze),
                    "canary.maze_unchanged": jnp.all(m2 == maze)}
        return fn, ens

    for horizontal in (True, False):
        fn, ens = make(horizontal)
        ctx.prove(f"maze_utils.{fn.__name__}[{R}x{C}]", (KEY0, maze0, data0, jnp.int32(1), ch0), ens, req,
                  targets=[fn, MZ.draw_vertical_wall if horizontal else MZ.draw_horizontal_wall, MZ.create_chamber, MZ.random_odd, MZ.random_even],
                  while_bound=max(R, C) + 1, merge_over=8)


def _flood(free, r0, c0):
    """cells reachable from (r0, c0) through free cells (4-neighbourhood); numpy bool array"""
    R, C = free.shape
    seen = np.zeros_like(free, bool)
    if not free[r0, c0]:
        return seen
    seen[r0, c0] = True
    todo = [(r0, c0)]
    while todo:
        r, c = todo.pop()
        for dr, dc in ((1, 0), (-1, 0), (0, 1), (0, -1)):
            a, b = r + dr, c + dc
            if 0 <= a < R and 0 <= b < C and free[a, b] and not seen[a, b]:
                seen[a, b] = True
                todo.append((a, b))
    return seen


def run_maze_connectivity(ctx, sizes, nkeys):
    from jumanji.environments.routing.maze.generator import RandomGenerator as MGen
    from jumanji.environments.routing.cleaner.generator import RandomGenerator as CGen
    from jumanji.environments.routing.cleaner.constants import WALL
    from jumanji.environments.commons.maze_utils import maze_generation as MZ
    keys = jax.vmap(jax.random.PRNGKey)(jnp.arange(nkeys))
    for (R, C) in sizes:
        ev, bad = 0, []
        st = jax.jit(jax.vmap(MGen(R, C)))(keys)
        walls, ar, ac, tr, tc = (np.asarray(x) for x in (st.walls, st.agent_position.row, st.agent_position.col, st.target_position.row, st.target_position.col))
        for k in range(nkeys):
            free = ~walls[k]
            reach = _flood(free, 0, 0)
            ok = free[0, 0] and np.array_equal(reach, free) and free[ar[k], ac[k]] and free[tr[k], tc[k]] and (ar[k], ac[k]) != (tr[k], tc[k]) \
                and 0 <= ar[k] < R and 0 <= tr[k] < R and 0 <= ac[k] < C and 0 <= tc[k] < C
            ev += 1
            if not ok and len(bad) < 3:
                bad.append({"key": f"PRNGKey({k})", "walls": walls[k].astype(int).tolist(), "agent": [int(ar[k]), int(ac[k])], "target": [int(tr[k]), int(tc[k])]})
        ctx.bounded_check(f"Maze.RandomGenerator[{R}x{C}]/C10.maze_fully_connected_start_and_target_free_and_mutually_reachable", ev, len(bad),
                          f"flood fill on PRNGKey(0..{nkeys - 1}) at {R}x{C}", bad[0] if bad else None)
        ev, bad = 0, []
        grid = np.asarray(jax.jit(jax.vmap(CGen(R, C, 2)))(keys).grid)
        for k in range(nkeys):
            free = grid[k] != WALL
            ok = free[0, 0] and np.array_equal(_flood(free, 0, 0), free)
            ev += 1
            if not ok and len(bad) < 3:
                bad.append({"key": f"PRNGKey({k})", "grid": grid[k].tolist()})
        ctx.bounded_check(f"Cleaner.RandomGenerator[{R}x{C}a2]/C10.every_dirty_tile_reachable_from_the_origin", ev, len(bad),
                          f"flood fill on PRNGKey(0..{nkeys - 1}) at {R}x{C}", bad[0] if bad else None)


# ======================================================================================================================
# 4. FlatPack random generator: the blocks exactly tile the grid; finite generators (databases, toy, dummy): native exhaustive checks
# ======================================================================================================================
def _flatpack_tiling_clauses(blocks, solved, N, R, C):
    """blocks: (N,3,3) as returned by the generator (shuffled, rotated); solved: (R,C) the generator's own solved grid, used as the WITNESS of the
    existential 'there is a placement of every block (rotation, top-left offset inside the action space) such that every cell is covered exactly once'.
    Sound for any witness: if every cell of `solved` carries one block number in 1..N, every number is carried by exactly one returned block, and each
    returned block, suitably rotated and placed, covers exactly the cells of `solved` carrying its number, then the blocks tile the grid."""
    rows, cols = jnp.arange(R)[:, None], jnp.arange(C)[None, :]
    ident = jnp.stack([jnp.max(blocks[i]) for i in range(N)])          # the number carried by block slot i
    uniform = jnp.stack([jnp.all((blocks[i] == 0) | (blocks[i] == ident[i])) for i in range(N)])
    each_once = jnp.stack([jnp.sum(ident == n) == 1 for n in range(1, N + 1)])
    placed = []
    for i in range(N):
        region = solved == ident[i]
        ok = jnp.asarray(False)
        for r in range(4):
            b = jnp.rot90(blocks[i], r) != 0
            for oy in range(R - 2):
                for ox in range(C - 2):
                    canvas = jnp.zeros((R, C), bool).at[oy:oy + 3, ox:ox + 3].set(b)
                    ok = ok | jnp.all(canvas == region)
        placed.append(ok)
    return {"C10.solved_grid_cells_carry_one_block_number_each": (solved >= 1) & (solved <= N),
            "C10.each_block_is_one_piece_number": uniform & (ident >= 1) & (ident <= N),
            "C10.each_block_number_returned_exactly_once": each_once,
            "C10.each_block_rotated_and_placed_covers_exactly_its_region": jnp.stack(placed)}


def _capture_solved_grid(gen, key):
    """runs the REAL generator; the `init` of its block-extraction scan (the solved grid) is recorded on the way (nothing is replaced)"""
    real_scan = jax.lax.scan
    seen = {}

    def scan(f, init, xs=None, *a, **kw):
        if getattr(f, "__name__", "") == "_extract_block":
            seen["solved"] = init[0]
        return real_scan(f, init, xs, *a, **kw)

    with K.with_attr(jax.lax, "scan", scan):
        st = gen(key)
    return st, seen["solved"]


def run_flatpack(ctx, nr, nc):
    from jumanji.environments.packing.flat_pack.generator import RandomFlatPackGenerator as G
    gen = G(nr, nc)
    N, R, C = nr * nc, 2 * nr + 1, 2 * nc + 1
    name = f"FlatPack.RandomFlatPackGenerator[{nr}x{nc}]"

    def ens(key):
        st, solved = _capture_solved_grid(gen, key)
        out = _flatpack_tiling_clauses(st.blocks, solved, N, R, C)
        out["C10.grid_empty_nothing_placed"] = jnp.all(st.grid == 0) & jnp.all(~st.placed_blocks) & (tuple(st.grid.shape) == (R, C))
        out["canary.first_block_is_piece_one"] = jnp.max(st.blocks[0]) == 1
        return out

    ctx.prove(name, (KEY0,), ens, targets=[G.__call__, G._extract_block, G._crop_nonzero, G._select_col_interlocks, G._select_row_interlocks, G._select_sides,
                                           G._fill_grid_columns, G._fill_grid_rows], merge_over=64)
    _not_constant(ctx, name, gen, lambda s: s.blocks, [G.__call__], keys=8)


# ======================================================================================================================
def tasks(tier):
    q = tier == "quick"
    out = {}
    for n in ((3, 4) if q else (3, 4, 5, 8)):
        out[f"TSP.UniformGenerator[{n}]"] = (run_tsp, {"n": n})
    for (n, cap, d) in (((3, 10, 5), (4, 7, 7)) if q else ((3, 10, 5), (4, 7, 7), (8, 30, 10))):
        out[f"CVRP.UniformGenerator[{n},cap{cap},dem{d}]"] = (run_cvrp, {"n": n, "cap": cap, "dmax": d})
    for (nc, nv) in (((6, 2),) if q else ((6, 2), (6, 3))):
        out[f"MultiCVRP.UniformRandomGenerator[c{nc}v{nv}]"] = (run_multicvrp, {"nc": nc, "nv": nv})
    for n in ((3, 5) if q else (3, 5, 10)):
        out[f"Knapsack.RandomGenerator[{n}]"] = (run_knapsack, {"n": n})
    for n in ((3, 4) if q else (3, 4, 5, 7)):
        out[f"GraphColoring.RandomGenerator[{n}]"] = (run_graph_coloring, {"n": n})
    for (R, C, M) in (((2, 2, 1), (2, 2, 3), (3, 4, 3), (4, 3, 2)) if q else ((2, 2, 1), (2, 2, 3), (3, 4, 3), (4, 3, 2), (3, 3, 8), (5, 5, 6))):
        out[f"Minesweeper.UniformSamplingGenerator[{R}x{C}m{M}]"] = (run_minesweeper, {"R": R, "C": C, "M": M})
    for cfg in (((2, 2, 2, 2), (3, 2, 3, 3)) if q else ((2, 2, 2, 2), (3, 2, 3, 3), (4, 3, 4, 5), (2, 2, 1, 1))):
        out["JobShop.RandomGenerator[%dx%dx%dx%d]" % cfg] = (run_jobshop, dict(zip(("J", "Mc", "O", "D"), cfg)))
    for (R, C) in (((3, 3), (3, 4), (4, 3)) if q else ((3, 3), (3, 4), (4, 3), (5, 6), (2, 2))):
        out[f"Snake.reset[{R}x{C}]"] = (run_snake, {"R": R, "C": C})
    for n in ((2, 3) if q else (2, 3, 4)):
        out[f"Game2048.reset[{n}]"] = (run_2048, {"n": n})
    for (R, C) in (((4, 4), (5, 4)) if q else ((4, 4), (5, 4), (4, 6), (10, 10))):
        out[f"Tetris.reset[{R}x{C}]"] = (run_tetris, {"R": R, "C": C})
    # ---- 2. entities on distinct free cells
    for (G, A) in (((3, 2), (4, 3), (2, 2)) if q else ((3, 2), (4, 3), (2, 2), (5, 4), (6, 6))):
        out[f"Connector.UniformRandomGenerator[{G}x{G}a{A}]"] = (run_connector_uniform, {"G": G, "A": A})
    for kw in (({"G": 6, "A": 2, "F": 2}, {"G": 5, "A": 3, "F": 1, "L": 3}) if q else
               ({"G": 6, "A": 2, "F": 2}, {"G": 5, "A": 3, "F": 1, "L": 3}, {"G": 6, "A": 2, "F": 2, "coop": True}, {"G": 7, "A": 4, "F": 3})):
        out["LBF.RandomGenerator[g%da%df%dl%d%s]" % (kw["G"], kw["A"], kw["F"], kw.get("L", 2), "coop" if kw.get("coop") else "")] = (run_lbf, kw)
    for cfg in (((1, 3, 1, 1, 1, 2), (1, 3, 1, 2, 1, 2), (2, 1, 2, 3, 1, 1)) if q else ((1, 3, 1, 1, 1, 2), (1, 3, 1, 2, 1, 2), (2, 1, 2, 3, 1, 1), (2, 3, 1, 4, 1, 4))):
        out["RobotWarehouse.RandomGenerator[%d,%d,%d,a%d,s%d,q%d]" % cfg] = (run_rware, {"cfg": cfg})
    for (R, C) in (((5, 7), (7, 5), (3, 3), (4, 6)) if q else ((5, 7), (7, 5), (3, 3), (4, 6), (10, 10), (2, 2))):
        out[f"Maze.RandomGenerator[{R}x{C}]"] = (run_maze_gen, {"R": R, "C": C})
    for (R, C, A) in (((3, 5, 2), (5, 3, 2), (4, 4, 1)) if q else ((3, 5, 2), (5, 3, 2), (4, 4, 1), (10, 10, 3))):
        out[f"Cleaner.RandomGenerator[{R}x{C}a{A}]"] = (run_cleaner_gen, {"R": R, "C": C, "A": A})
    # ---- 3. maze_utils
    for (N, Fe) in (((4, 2), (6, 4)) if q else ((4, 2), (6, 4), (12, 4))):
        out[f"maze_utils.stack[max{N},feat{Fe}]"] = (run_stack, {"N": N, "Fe": Fe})
    for (R, C) in (((3, 3), (4, 5)) if q else ((3, 3), (4, 5), (5, 4), (5, 7))):
        out[f"maze_utils.split[{R}x{C}]"] = (run_split, {"R": R, "C": C})
    out["maze_utils.random_even_odd"] = (run_random_parity, {})
    sizes = ((3, 3), (5, 7), (7, 5), (4, 6), (6, 4), (2, 2), (2, 5), (10, 10)) if q else ((3, 3), (5, 7), (7, 5), (4, 6), (6, 4), (2, 2), (2, 5), (5, 2), (10, 10), (9, 12), (15, 15), (16, 11))
    out["maze_utils.connectivity[bounded]"] = (run_maze_connectivity, {"sizes": sizes, "nkeys": 200 if q else 1000})
    # ---- 4. FlatPack tiling; finite generators
    for (nr, nc) in (((1, 2), (2, 2)) if q else ((1, 1), (1, 2), (2, 1), (2, 2), (2, 3))):
        out[f"FlatPack.RandomFlatPackGenerator[{nr}x{nc}]"] = (run_flatpack, {"nr": nr, "nc": nc})
    return out


CONFIG_BOUND = "sizes enumerated per generator (see task ids); keys / sampler outcomes unbounded for the proved obligations"
NOT_VERIFIED = []
ASSUMPTIONS = ["jax.random sampler contracts (jxv/stubs.py): randint in range, uniform in [lo,hi), choice lands on p>0 / replace=False distinct, permutation is a permutation"]
LEVEL_TEXT = ""
LEVEL_NOTE = ""
