from jxv import envdriver


def tasks(tier):
    return envdriver.tasks("C12", tier)


LEVEL_TEXT = "wip"
LEVEL_NOTE = "wip"
