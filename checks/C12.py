"""C12 — Observations are faithful views of the state.  Driver over the per-environment sidecar contracts (contracts/<env>.py): keeps the clauses named C12.*"""
from jxv import envdriver

LEVEL = "proof"
CONFIG_BOUND = "configurations listed in contracts/envs.py or in the contract module itself (small and adversarial: non-square, minimum sizes, >1 agents); values unbounded"
NOT_VERIFIED = ["environments / clauses for which no C12 clause is present in the contract module (the evidence lists, per task, which clauses were discharged)",
                "configurations outside the list"]
ASSUMPTIONS = ["sampler contracts of jax.random (DESIGN.md section 5)", "induction over the episode from the per-step obligations (reset establishes Inv, step preserves it)"]


def tasks(tier):
    return envdriver.tasks("C12", tier)


LEVEL_TEXT = ('Proof: for every listed configuration and ALL states, every observation field returned by reset/step equals the documented function of the returned state (copied fields syntactically, normalisations / feature planes / sorted EMS / field-of-view windows by SMT), element by element.')
LEVEL_NOTE = ('spec_obs functions transcribed from the observation docstrings; per-configuration; floats as reals.')
