"""C07 — Game and grid worlds stay physically consistent under any actions.  Driver over the per-environment sidecar contracts (contracts/<env>.py): keeps the clauses named C07.*"""
from jxv import envdriver

LEVEL = "proof"
CONFIG_BOUND = "configurations listed in contracts/envs.py or in the contract module itself (small and adversarial: non-square, minimum sizes, >1 agents); values unbounded"
NOT_VERIFIED = ["environments / clauses for which no C07 clause is present in the contract module (the evidence lists, per task, which clauses were discharged)",
                "configurations outside the list"]
ASSUMPTIONS = ["sampler contracts of jax.random (DESIGN.md section 5)", "induction over the episode from the per-step obligations (reset establishes Inv, step preserves it)"]


def tasks(tier):
    return envdriver.tasks("C07", tier)


LEVEL_TEXT = ('Proof: the physical-consistency predicate Phys(state) is an inductive invariant under ANY in-spec action (legal or not) on every step from which the episode continues; conserved quantities (boxes, mines, tile sum, cell counts, body chain) are two-state clauses, stated as local frame + balance where a global count would not discharge.')
LEVEL_NOTE = ("per-configuration; frame+balance => global count by the finite-sum lemma (part of the verifier's logic).")
