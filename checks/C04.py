"""C04 — The action mask is exactly the set of legal moves.  Driver over the per-environment sidecar contracts (contracts/<env>.py): keeps the clauses named C04.*"""
from jxv import envdriver

LEVEL = "proof"
CONFIG_BOUND = "configurations listed in contracts/envs.py or in the contract module itself (small and adversarial: non-square, minimum sizes, >1 agents); values unbounded"
NOT_VERIFIED = ["environments / clauses for which no C04 clause is present in the contract module (the evidence lists, per task, which clauses were discharged)",
                "configurations outside the list"]
ASSUMPTIONS = ["sampler contracts of jax.random (DESIGN.md section 5)", "induction over the episode from the per-step obligations (reset establishes Inv, step preserves it)"]


def tasks(tier):
    return envdriver.tasks("C04", tier)


LEVEL_TEXT = ('Proof: per environment a rule predicate legal(state, a) written from the documented rules; for every listed configuration and ALL states satisfying the environment invariant, the mask handed out by step and by reset (and cached in the state) equals legal(new state) for EVERY action of the action space (element-wise obligations), legal actions are never treated as invalid and illegal ones always are (own reaction).')
LEVEL_NOTE = ('rule predicates transcribed from the docs (contracts/<env>.py); per-configuration; invariants inductive (re-proved for the successor state); floats as reals; MMST and MultiCVRP masks have their own modules (mmst_c04.py, multi_cvrp_c04.py); the generator post-conditions assumed at reset are discharged on the real generators (genpost:* tasks).')
