"""C05 — Illegal actions have only their documented effect.  Driver over the per-environment sidecar contracts (contracts/<env>.py): keeps the clauses named C05.*"""
from jxv import envdriver

LEVEL = "proof"
CONFIG_BOUND = "configurations listed in contracts/envs.py or in the contract module itself (small and adversarial: non-square, minimum sizes, >1 agents); values unbounded"
NOT_VERIFIED = ["environments / clauses for which no C05 clause is present in the contract module (the evidence lists, per task, which clauses were discharged)",
                "configurations outside the list"]
ASSUMPTIONS = ["sampler contracts of jax.random (DESIGN.md section 5)", "induction over the episode from the per-step obligations (reset establishes Inv, step preserves it)"]


def tasks(tier):
    return envdriver.tasks("C05", tier)


LEVEL_TEXT = ("Proof: under the invariant, for every in-spec action that the rule predicate forbids: terminate-on-invalid environments return LAST with the documented invalid-move reward and, where promised, an untouched problem state (field-by-field frame); ignore-invalid environments leave the acting entity's position and holdings and the board unchanged, advance the counter, and the episode continues exactly as for a no-op.")
LEVEL_NOTE = ('documented reactions transcribed in contracts/<env>.py; per-configuration; floats as reals.')
