from jxv import envdriver


def tasks(tier):
    return envdriver.tasks("C06", tier)


LEVEL_TEXT = "wip"
LEVEL_NOTE = "wip"
