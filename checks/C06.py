"""C06 — Mask-respecting play never violates the hard constraints.  Driver over the per-environment sidecar contracts (contracts/<env>.py): keeps the clauses named C06.*"""
from jxv import envdriver

LEVEL = "proof"
CONFIG_BOUND = "configurations listed in contracts/envs.py or in the contract module itself (small and adversarial: non-square, minimum sizes, >1 agents); values unbounded"
NOT_VERIFIED = ["environments / clauses for which no C06 clause is present in the contract module (the evidence lists, per task, which clauses were discharged)",
                "configurations outside the list"]
ASSUMPTIONS = ["sampler contracts of jax.random (DESIGN.md section 5)", "induction over the episode from the per-step obligations (reset establishes Inv, step preserves it)"]


def tasks(tier):
    return envdriver.tasks("C06", tier)


LEVEL_TEXT = ('Proof: Feasible(state), recomputed from raw state arrays, is part of the inductive invariant: reset establishes it for every key / sampler outcome and every legal action preserves it; an episode ending by completion yields a complete feasible solution. By induction every state reached by mask-respecting play is feasible.')
LEVEL_NOTE = ('instance sizes enumerated (tiny for BinPack); coordinates, durations, demands unbounded; MultiCVRP (contracts/multi_cvrp_c06.py) and MMST (contracts/mmst_c04.py: utility-node exclusivity, completion) have their own modules; the generator post-conditions assumed at reset are discharged on the real generators (genpost:* tasks).')
