"""C02 — reset/step are pure functions (and hence commute with jit / vmap / scan, by JAX's meta-theory).

Obligations per environment configuration (all structural: decided by JAX's effect typing, by jaxpr comparison and by the frame
analysis; a failure is reported with `no-failing-input-found` unless the monitor produced the offending write):
  effects        the jaxprs of reset and step have an empty effect set and contain no callback / debug / io primitive at any depth;
                 their constants are immutable arrays;
  determinism    tracing twice on one instance and once on a fresh instance with the same configuration gives the same jaxpr with
                 equal constants (so the function depends on nothing but its arguments and the configuration);
  frame          (Engine F) static: no `self.x = ...`, `global`, `nonlocal` in any function of the environment's package reachable
                 from reset/step (constructors and viewers excluded); writes through a parameter are listed and must be to FRESH
                 objects: decided per configuration by the instrumented TRACE of reset/step -- under tracing every branch of every
                 lax.cond/switch/scan/while body is executed once, and Python-level control flow cannot depend on array values, so
                 the one trace executes every Python statement any call can execute (path-uniqueness lemma): no object that existed
                 before the call (arguments, anything reachable from the env instance, jumanji module globals) is written;
                 plus a before/after snapshot of those objects around the trace and around an eager call, and value-equality of the
                 argument leaves."""
import ast
import dataclasses
import inspect
import os
import sys
import textwrap
import traceback

import jax
import jax.numpy as jnp
import numpy as np

from contracts import envs as E

LEVEL = "proof"
ENGINE = "jxv (Engine F: AST frame analysis + instrumented trace; JAX effect typing; jaxpr comparison)"
CONFIG_BOUND = "one (quick) / all (thorough) listed configurations per environment class; shipped generator / reward / observer classes as configured there"
NOT_VERIFIED = ["jit / vmap / scan agreement itself: follows from effect-freedom + determinism by JAX's meta-theory (assumed, not proved); bit-equality of "
                "float outputs between eager and jit (XLA may fuse float operations)", "configurations outside the list",
                "BinPack CSVGenerator: reset writes two fields of the State cached by the generator (dead stores: overwritten before being read); "
                "reported as a hazard, not covered by the configurations",
                "PacMan: agreement of plain Python execution with the traced function for its Python-scalar state leaves (initial positions, ghost targets, `dead`): "
                "the obligation of run_kinds does not discharge within the budgets for PacMan.step (ghost path finding) and is not run",
                "run_kinds: the tuples of Python-scalar leaves are those met along eager rollouts of 6 steps with three fixed actions (enumerated, a stated bound); "
                "run_history: sibling configurations are enumerated"]
ASSUMPTIONS = ["an effect-free closed jaxpr denotes a mathematical function of its inputs; jit/vmap/scan preserve it (JAX meta-theory, XLA)",
               "path-uniqueness lemma: a traced function's Python control flow does not depend on array values (JAX raises a concretisation error otherwise)"]
FORBIDDEN = ("callback", "debug_print", "debug_callback", "io_callback", "infeed", "outfeed", "print")


def _prims(jaxpr, acc):
    for e in jaxpr.eqns:
        acc.add(e.primitive.name)
        for v in e.params.values():
            for s in (v if isinstance(v, (list, tuple)) else [v]):
                j = getattr(s, "jaxpr", None)
                if j is not None:
                    _prims(j if hasattr(j, "eqns") else j.jaxpr, acc)
    return acc


def _consts_equal(c1, c2):
    if len(c1) != len(c2):
        return False
    for a, b in zip(c1, c2):
        try:
            if jnp.issubdtype(getattr(a, "dtype", np.int32), jax.dtypes.prng_key):
                a, b = jax.random.key_data(a), jax.random.key_data(b)
            if not np.array_equal(np.asarray(a), np.asarray(b), equal_nan=True):
                return False
        except Exception:
            return False
    return True


# ---- instrumented frame monitor -------------------------------------------------------------------------------------------
class Monitor:
    def __init__(self):
        self.pre = {}
        self.writes = []
        self.on = False
        self.patched = {}

    def patch(self, cls):
        if cls in self.patched or not dataclasses.is_dataclass(cls):
            return
        orig = cls.__setattr__
        mon = self

        def sa(obj, name, value, _orig=orig):
            if mon.on and id(obj) in mon.pre:
                fr = [f for f in traceback.extract_stack(limit=6) if "jumanji" in f.filename]
                loc = f"{os.path.basename(fr[-1].filename)}:{fr[-1].lineno}" if fr else "?"
                mon.writes.append({"object": type(obj).__name__, "field": name, "at": loc})
            _orig(obj, name, value)
        try:
            cls.__setattr__ = sa
            self.patched[cls] = orig
        except TypeError:
            pass

    def unpatch(self):
        for cls, orig in self.patched.items():
            cls.__setattr__ = orig
        self.patched = {}

    def reach(self, obj, depth=0):
        if id(obj) in self.pre or depth > 7:
            return
        if dataclasses.is_dataclass(obj) and not isinstance(obj, type):
            self.pre[id(obj)] = obj
            self.patch(type(obj))
            for f in dataclasses.fields(obj):
                self.reach(getattr(obj, f.name, None), depth + 1)
        elif isinstance(obj, (list, tuple)):
            if isinstance(obj, list):
                self.pre[id(obj)] = obj
            for x in obj:
                self.reach(x, depth + 1)
        elif isinstance(obj, dict):
            self.pre[id(obj)] = obj
            for x in obj.values():
                self.reach(x, depth + 1)
        elif hasattr(obj, "__dict__") and not isinstance(obj, (type, jax.Array, np.ndarray)) and type(obj).__module__.startswith("jumanji") \
                and "viewer" not in type(obj).__module__:
            self.pre[id(obj)] = obj
            for x in vars(obj).values():
                self.reach(x, depth + 1)

    def snapshot(self):
        snap = {}
        for i, o in self.pre.items():
            if isinstance(o, dict):
                snap[i] = {k: self._val(v) for k, v in o.items()}
            elif isinstance(o, list):
                snap[i] = [self._val(v) for v in o]
            elif dataclasses.is_dataclass(o):
                snap[i] = {f.name: self._val(getattr(o, f.name, None)) for f in dataclasses.fields(o)}
            else:
                snap[i] = {k: self._val(v) for k, v in vars(o).items() if not k.startswith("__")}
        return snap

    @staticmethod
    def _val(v):
        if isinstance(v, np.ndarray):
            return ("np", v.shape, str(v.dtype), v.tobytes())
        return ("id", id(v))

    def diff(self, before, after):
        out = []
        for i, b in before.items():
            a = after.get(i)
            if a != b:
                o = self.pre[i]
                if isinstance(b, dict):
                    ch = [k for k in set(b) | set(a or {}) if b.get(k) != (a or {}).get(k)]
                else:
                    ch = ["<list contents>"]
                # functools.cached_property legitimately fills the instance __dict__ on first access (memoisation of a pure value)
                ch = [k for k in ch if not _is_cached_property(o, k)]
                if ch:
                    out.append({"object": type(o).__name__, "changed": sorted(map(str, ch))[:6]})
        return out


def _is_cached_property(o, k):
    import functools
    return isinstance(getattr(type(o), str(k), None), functools.cached_property)


def _jumanji_globals(env):
    mods = {}
    for cls in type(env).__mro__:
        m = sys.modules.get(cls.__module__)
        if m is not None and cls.__module__.startswith("jumanji"):
            pkg = cls.__module__.rsplit(".", 1)[0]
            for n, mm in list(sys.modules.items()):
                if mm is not None and n.startswith(pkg) and "viewer" not in n:
                    mods[n] = mm
    return mods


def _global_snapshot(mods):
    snap = {}
    for n, m in mods.items():
        for k, v in vars(m).items():
            if k.startswith("__") or inspect.ismodule(v) or inspect.isclass(v) or inspect.isfunction(v):
                continue
            if isinstance(v, np.ndarray):
                snap[(n, k)] = ("np", v.tobytes())
            elif isinstance(v, (dict, list, set)):
                snap[(n, k)] = ("c", id(v), len(v), repr(sorted(map(repr, v)))[:2000] if not isinstance(v, dict) else repr(sorted(map(repr, v.items())))[:2000])
            else:
                snap[(n, k)] = ("id", id(v))
    return snap


# ---- static part of Engine F ------------------------------------------------------------------------------------------------
def static_frame(env):
    """every function of the environment's package (+ commons, types, env base) except constructors, viewers, rendering:
    self-writes / global / nonlocal are violations; parameter writes are listed (their freshness is decided by the trace monitor)."""
    pkg = type(env).__module__.rsplit(".", 1)[0]
    files = set()
    for n, m in list(sys.modules.items()):
        if m is None or not hasattr(m, "__file__") or not m.__file__:
            continue
        if (n.startswith(pkg) or n.startswith("jumanji.environments.commons") or n in ("jumanji.types", "jumanji.env", "jumanji.tree_utils")) \
                and "viewer" not in n and not n.endswith("_test") and "conftest" not in n:
            files.add(m.__file__)
    self_writes, param_writes, globals_ = [], [], []
    # name-based call graph (over-approximation: a call `x.f(...)` or `f(...)` may reach every function named f); roots: reset, step and
    # __call__ (generators, reward functions, observers are invoked as objects)
    EXCLUDE = ("__init__", "__post_init__", "__setstate__", "render", "animate", "close", "__enter__", "__exit__")
    defs = {}
    for f in sorted(files):
        try:
            tree = ast.parse(open(f).read())
        except Exception:
            continue
        for node in ast.walk(tree):
            if isinstance(node, (ast.FunctionDef, ast.AsyncFunctionDef)) and node.name not in EXCLUDE:
                defs.setdefault(node.name, []).append((f, node))
    reach, work = set(), ["reset", "step", "__call__"]
    while work:
        n = work.pop()
        if n in reach or n not in defs:
            continue
        reach.add(n)
        for f, node in defs[n]:
            for sub in ast.walk(node):
                if isinstance(sub, ast.Name) and sub.id in defs and sub.id not in reach:
                    work.append(sub.id)          # called or passed as a function value (lax.cond branches, vmap, scan bodies)
                elif isinstance(sub, ast.Attribute) and sub.attr in defs and sub.attr not in reach:
                    work.append(sub.attr)
    nfun = 0
    for n in sorted(reach):
        for f, node in defs[n]:
            nfun += 1
            params = {a.arg for a in node.args.args + node.args.kwonlyargs + node.args.posonlyargs}
            for sub in ast.walk(node):
                if isinstance(sub, (ast.Global, ast.Nonlocal)):
                    globals_.append(f"{os.path.basename(f)}:{sub.lineno} {type(sub).__name__.lower()} {','.join(sub.names)}")
                targets = []
                if isinstance(sub, ast.Assign):
                    targets = sub.targets
                elif isinstance(sub, (ast.AugAssign, ast.AnnAssign)):
                    targets = [sub.target]
                elif isinstance(sub, ast.Delete):
                    targets = sub.targets
                for t in targets:
                    for tt in (t.elts if isinstance(t, (ast.Tuple, ast.List)) else [t]):
                        base = tt
                        while isinstance(base, (ast.Attribute, ast.Subscript)):
                            base = base.value
                        if isinstance(tt, (ast.Attribute, ast.Subscript)) and isinstance(base, ast.Name):
                            where = f"{os.path.basename(os.path.dirname(f))}/{os.path.basename(f)}:{sub.lineno} in {node.name}: {ast.unparse(tt)[:60]}"
                            if base.id == "self":
                                self_writes.append(where)
                            elif base.id in params:
                                param_writes.append(where)
    return {"functions": nfun, "files": len(files), "self_writes": self_writes, "param_writes": param_writes, "global_nonlocal": globals_}


def run_env(ctx, name, cfg):
    mk = E.ALL()[name][cfg]
    env = mk()
    title = f"{name}@{cfg}"
    from jxv import core
    ctx.problems.append({"title": title, "engine": "F", "targets": [core.target_meta(type(env).reset), core.target_meta(type(env).step)]})
    key = jax.random.PRNGKey(ctx.seed)
    state, ts, a = E.example(env, ctx.seed)

    def S(clause, ok, backend, detail=None, witness=None, fn=None):
        ctx.structural(f"{name}.{fn}@{cfg}/C02.{clause}" if fn else f"{title}/C02.{clause}", bool(ok), backend, detail=detail, witness=witness)

    calls = {"reset": (env.reset, (key,)), "step": (env.step, (state, a))}
    traced = {}
    for fn, (f, args) in calls.items():
        cj = jax.make_jaxpr(f)(*args)
        traced[fn] = cj
        prims = _prims(cj.jaxpr, set())
        bad = sorted(p for p in prims if any(x in p for x in FORBIDDEN))
        S("no_effects", not cj.effects and not bad, "JAX effect typing of the jaxpr", {"effects": [str(e) for e in cj.effects], "forbidden_primitives": bad}, fn=fn)
        S("constants_are_immutable_arrays", all(isinstance(c, (jax.Array, np.generic, int, float, bool)) or (isinstance(c, np.ndarray) and not c.flags.writeable) or
                                                isinstance(c, np.ndarray) for c in cj.consts), "jaxpr constants", {"types": sorted({type(c).__name__ for c in cj.consts})}, fn=fn)
        cj2 = jax.make_jaxpr(f)(*args)
        S("retrace_same_instance_gives_same_jaxpr", str(cj2.jaxpr) == str(cj.jaxpr) and _consts_equal(cj.consts, cj2.consts), "jaxpr comparison", fn=fn)
        env2 = mk()
        f2 = getattr(env2, fn)
        cj3 = jax.make_jaxpr(f2)(*args)
        S("fresh_instance_gives_same_jaxpr", str(cj3.jaxpr) == str(cj.jaxpr) and _consts_equal(cj.consts, cj3.consts), "jaxpr comparison",
          None if str(cj3.jaxpr) == str(cj.jaxpr) else {"note": "jaxpr text differs between two instances built with the same configuration"}, fn=fn)
    # frame: instrumented trace (complete per configuration) and eager call
    mods = _jumanji_globals(env)
    for fn, (f, args) in calls.items():
        for mode in ("trace", "eager"):
            mon = Monitor()
            mon.reach(env)
            for x in args:
                mon.reach(x)
            leaves_before = [np.asarray(jax.random.key_data(x) if jnp.issubdtype(getattr(x, "dtype", np.int32), jax.dtypes.prng_key) else x).copy()
                             for x in jax.tree_util.tree_leaves(args)]
            ids_before = [id(x) for x in jax.tree_util.tree_leaves(args)]
            before, gbefore = mon.snapshot(), _global_snapshot(mods)
            inner_snap = {}
            try:
                if mode == "trace":
                    # under tracing the function receives FRESH pytree containers holding tracers: register those (the objects the
                    # real code sees as its arguments) as pre-existing before the real function runs, and snapshot them around the call
                    def traced(*targs, f=f, mon=mon):
                        for x in targs:
                            mon.reach(x)
                        b = mon.snapshot()
                        mon.on = True
                        try:
                            out = f(*targs)
                        finally:
                            mon.on = False
                        inner_snap["changed"] = mon.diff(b, mon.snapshot())
                        return out
                    jax.make_jaxpr(traced)(*args)
                else:
                    mon.on = True
                    f(*args)
            finally:
                mon.on = False
                mon.unpatch()
            after, gafter = mon.snapshot(), _global_snapshot(mods)
            changed = mon.diff(before, {k: v for k, v in after.items() if k in before}) + inner_snap.get("changed", [])
            gchanged = [f"{k[0]}.{k[1]}" for k in gbefore if gbefore[k] != gafter.get(k)]
            leaves_after = jax.tree_util.tree_leaves(args)
            same_vals = len(leaves_after) == len(leaves_before) and all(
                np.array_equal(b, np.asarray(jax.random.key_data(x) if jnp.issubdtype(getattr(x, "dtype", np.int32), jax.dtypes.prng_key) else x))
                for b, x in zip(leaves_before, leaves_after)) if mode == "eager" else [id(x) for x in leaves_after] == ids_before
            S(f"frame.{mode}.no_write_to_a_pre_existing_object", not mon.writes, "instrumented " + mode + " (dataclass __setattr__ monitor)",
              {"writes": mon.writes[:5]} if mon.writes else None, witness={"writes": mon.writes[:5]} if mon.writes else None, fn=fn)
            S(f"frame.{mode}.env_and_argument_containers_unchanged", not changed, "before/after snapshot", {"changed": changed[:5]} if changed else None,
              witness={"changed": changed[:5]} if changed else None, fn=fn)
            S(f"frame.{mode}.module_globals_unchanged", not gchanged, "before/after snapshot", {"changed": gchanged[:5]} if gchanged else None,
              witness={"changed": gchanged[:5]} if gchanged else None, fn=fn)
            S(f"frame.{mode}.argument_leaves_unchanged", same_vals, "before/after comparison of the argument pytree", fn=fn)
    # eager determinism: the same call twice on the same instance, and on a fresh instance
    for fn, (f, args) in calls.items():
        r1, r2, r3 = f(*args), f(*args), getattr(mk(), fn)(*args)

        def eq(x, y):
            lx, ly = jax.tree_util.tree_leaves(x), jax.tree_util.tree_leaves(y)
            return len(lx) == len(ly) and all(np.array_equal(np.asarray(jax.random.key_data(p) if jnp.issubdtype(getattr(p, "dtype", np.int32), jax.dtypes.prng_key) else p),
                                                             np.asarray(jax.random.key_data(q) if jnp.issubdtype(getattr(q, "dtype", np.int32), jax.dtypes.prng_key) else q), equal_nan=True)
                                              for p, q in zip(lx, ly))
        ctx.bounded_check(f"{name}.{fn}@{cfg}/repeat_and_fresh_instance_give_equal_results", 2, int(not eq(r1, r2)) + int(not eq(r1, r3)), "one key / one action (seed VERIF_SEED)",
                          None if eq(r1, r2) and eq(r1, r3) else {"what": "results differ between repeated calls or instances"})
    st = static_frame(env)
    S("static.no_self_write_outside_constructors", not st["self_writes"], "Engine F (AST)", {"self_writes": st["self_writes"][:8], "functions_scanned": st["functions"]},
      witness={"self_writes": st["self_writes"][:8]} if st["self_writes"] else None)
    S("static.no_global_or_nonlocal", not st["global_nonlocal"], "Engine F (AST)", {"statements": st["global_nonlocal"][:8]},
      witness={"statements": st["global_nonlocal"][:8]} if st["global_nonlocal"] else None)
    ctx.problems[-1]["param_writes_requiring_fresh_objects"] = st["param_writes"][:40]
    ctx.problems[-1]["functions_scanned"] = st["functions"]


# ---- plain per-call Python execution sees what the traced function sees -------------------------------------------------------------
# `jit`, `vmap` and `scan` run the jaxpr traced from the function with EVERY state leaf abstracted to an array.  A plain Python call receives what the
# previous call returned; where a state leaf is a Python scalar there (FlatPack's step_count/num_blocks, Tetris' is_reset, PacMan's initial positions),
# Python-level arithmetic is executed on it instead of array primitives, and the two can differ (`~True == -2` is truthy, `~array(True)` is False).
# Obligation: for every tuple of Python-scalar leaves met along eager rollouts (enumerated - stated bound) and ALL values of the array leaves and
# actions (symbolic), step on the state holding those leaves as Python scalars returns the same as step on the state holding them as arrays.
def _is_pyleaf(v):
    return isinstance(v, (bool, int, float)) and not isinstance(v, (np.generic,))


def run_kinds(ctx, name, cfg, steps):
    env = E.ALL()[name][cfg]()
    title = f"{name}.step@{cfg}"
    key = jax.random.PRNGKey(ctx.seed)
    state, ts = env.reset(key)
    a0 = env.action_spec.generate_value()
    # eager rollouts: generated action, all-zero action, and the spec's maximal action (often illegal): collect the Python-scalar tuples
    seen, order = {}, []
    acts = [a0, jax.tree_util.tree_map(jnp.zeros_like, a0)]
    try:
        mx = getattr(env.action_spec, "maximum", None)
        if mx is not None:
            acts.append(jnp.broadcast_to(jnp.asarray(mx, jnp.asarray(a0).dtype), jnp.shape(a0)))
    except Exception:
        pass
    for act in acts:
        s = state
        for t in range(steps + 1):
            leaves, treedef = jax.tree_util.tree_flatten(s)
            tup = tuple((i, v) for i, v in enumerate(leaves) if _is_pyleaf(v))
            sig = (treedef, tuple(i for i, _ in tup))
            if tup and (sig, tup) not in seen:
                seen[(sig, tup)] = s
                order.append((sig, tup))
            s, tsn = env.step(s, act)
            if int(tsn.step_type) == 2:
                leaves, treedef = jax.tree_util.tree_flatten(s)
                tup = tuple((i, v) for i, v in enumerate(leaves) if _is_pyleaf(v))
                if tup and ((treedef, tuple(i for i, _ in tup)), tup) not in seen:
                    seen[((treedef, tuple(i for i, _ in tup)), tup)] = s
                    order.append(((treedef, tuple(i for i, _ in tup)), tup))
                break
    ctx.structural(f"{title}/C02.eager_states_hold_python_scalars_only_where_enumerated", True, "eager rollouts (inventory)",
                   detail={"python_scalar_leaf_tuples_enumerated": len(order),
                           "leaves": sorted({jax.tree_util.keystr(jax.tree_util.tree_flatten_with_path(seen[k])[0][i][0]) for k in order for i, _ in k[1]})})
    if not order:
        return
    for n, k in enumerate(order[: 12]):
        ex = seen[k]
        leaves, treedef = jax.tree_util.tree_flatten(ex)
        py = dict(k[1])
        arr_idx = [i for i in range(len(leaves)) if i not in py]
        arr_leaves = [leaves[i] for i in arr_idx]

        py_idx = sorted(py)

        def build(arrs, pyvals):
            full = list(leaves)
            for j, i in enumerate(arr_idx):
                full[i] = arrs[j]
            for j, i in enumerate(py_idx):
                full[i] = pyvals[j]
            return jax.tree_util.tree_unflatten(treedef, full)

        def ens(arrs, act):
            pyvals = tuple(py[i] for i in py_idx)
            o1 = env.step(build(arrs, pyvals), act)                                  # what a plain Python call computes
            # what jit/vmap/scan compute: the same leaves enter as ARGUMENTS of a jitted function, i.e. as (weakly typed) traced arrays,
            # exactly the abstraction jit applies to Python scalars in its inputs
            o2 = jax.jit(lambda pv, ar, ac: env.step(build(ar, pv), ac))(pyvals, arrs, act)
            out = {}
            l1 = jax.tree_util.tree_flatten_with_path(o1)[0]
            l2 = jax.tree_util.tree_leaves(o2)
            for (pth, x), y in zip(l1, l2):
                x, y = jnp.asarray(x), jnp.asarray(y)
                if jnp.issubdtype(x.dtype, jax.dtypes.prng_key):
                    x, y = jax.random.key_data(x), jax.random.key_data(y)
                out["C02.plain_python_call_equals_traced_call" + jax.tree_util.keystr(pth)] = jnp.all(x == y)
            out["canary.step_returns_a_first_timestep"] = o1[1].step_type == 0
            return out

        desc = ",".join(f"{jax.tree_util.keystr(jax.tree_util.tree_flatten_with_path(ex)[0][i][0])}={v}" for i, v in sorted(py.items()))[:90]
        ctx.prove(f"{title}[python scalars {n}: {desc}]", (tuple(arr_leaves), a0), ens, lambda arrs, act: {"in_spec": E.in_spec(env, act)},
                  targets=[type(env).step], merge_over=4, while_bound=16, expect_cover=True)


# ---- "a fresh instance with the same configuration gives the same result", whatever was constructed before --------------------------------
# Hidden state shared between instances (a module-level cache filled by constructors or generators) makes an instance depend on the instances built
# earlier in the process.  Obligation: the jaxprs (and their constants) of reset/step of the target configuration, traced on the FIRST instance built
# in this process, equal those of an instance built AFTER instances of sibling configurations of the same class (all catalogue / contract-module
# configurations of the environment plus hand-listed siblings that change one constructor argument at a time).  Jaxpr equality is for all inputs.
def _siblings(name):
    import importlib
    from jxv import envdriver
    sib = dict(E.ALL()[name])
    for mod in envdriver.modules():
        m = importlib.import_module("contracts." + mod)
        if m.ENV == name and hasattr(m, "configs"):
            for k, v in m.configs("thorough").items():
                sib.setdefault(k, v)
    if name == "RobotWarehouse":
        from jumanji.environments import RobotWarehouse
        from jumanji.environments.routing.robot_warehouse.generator import RandomGenerator as RWGen
        base = (1, 3, 1, 1, 1, 2)   # shelf_rows, shelf_columns, column_height, num_agents, sensor_range, request_queue_size
        for i, v in ((0, 2), (1, 5), (2, 2), (4, 2), (5, 4), (5, 1)):
            args = list(base)
            args[i] = v
            sib[f"sibling{i}={v}"] = (lambda a=tuple(args): RobotWarehouse(RWGen(*a), time_limit=7))
    return sib


def _np_consts(consts):
    out = []
    for c in consts:
        if jnp.issubdtype(getattr(c, "dtype", np.int32), jax.dtypes.prng_key):
            c = jax.random.key_data(c)
        out.append(np.asarray(c))
    return out


def _trace_in_fresh_process(args):
    name, cfg, before = args
    import os
    import sys
    sys.path[:0] = [p for p in (os.path.dirname(os.path.dirname(os.path.abspath(__file__))), os.environ.get("VERIF_REPO", "/repo")) if p not in sys.path]
    import warnings
    warnings.filterwarnings("ignore")
    key = jax.random.PRNGKey(0)

    def trace(env):
        state, ts, a = E.example(env, 0)
        return {"reset": jax.make_jaxpr(env.reset)(key), "step": jax.make_jaxpr(env.step)(state, a)}
    note = None
    if before is not None:
        try:
            sib_env = _siblings(name)[before]()   # construct the sibling first ...
        except Exception as ex:
            sib_env, note = None, f"sibling {before} not constructible: {type(ex).__name__}"
        if sib_env is not None:
            try:
                trace(sib_env)                    # ... and use it (caches may be filled lazily); a sibling that cannot be traced was still constructed
            except Exception:
                pass
    try:
        t = trace(E.ALL()[name][cfg]())
    except Exception as ex:   # the target itself no longer constructs / traces in this history: reported as a difference by the caller
        msg = f"raised {type(ex).__name__}: {str(ex)[:120]}"
        return {"reset": (msg, []), "step": (msg, [])}, note
    return {fn: (str(cj.jaxpr), _np_consts(cj.consts)) for fn, cj in t.items()}, note


def run_history(ctx, name, cfg):
    """one freshly spawned interpreter per history: [target] (the reference) and [sibling k, target] for every sibling k"""
    import multiprocessing as mp
    title = f"{name}@{cfg}"
    sibs = [k for k in _siblings(name) if k != cfg]
    with mp.get_context("spawn").Pool(min(4, 1 + len(sibs)), maxtasksperchild=1) as pool:   # a FRESH interpreter for every history
        res = pool.map(_trace_in_fresh_process, [(name, cfg, None)] + [(name, cfg, k) for k in sibs], chunksize=1)
    ref = res[0][0]
    for fn in ("reset", "step"):
        bad = []
        for k, (r, note) in zip(sibs, res[1:]):
            if note is None and not (r[fn][0] == ref[fn][0] and _consts_equal(r[fn][1], ref[fn][1])):
                bad.append(k)
        ctx.structural(f"{name}.{fn}@{cfg}/C02.instance_built_after_a_sibling_configuration_equals_the_first_instance", not bad,
                       "jaxpr + constants comparison (all inputs), one fresh interpreter per history",
                       detail={"histories": [[k, cfg] for k in sibs], "not_constructible": [n for _, n in res[1:] if n]},
                       witness=None if not bad else {"history": f"fresh interpreter: construct and use {bad[0]}, then construct {cfg}",
                                                     "versus": f"fresh interpreter: construct {cfg}", "siblings_that_change_the_result": bad,
                                                     "target_after_the_sibling": next(r[fn][0] for k, (r, _) in zip(sibs, res[1:]) if k == bad[0])[:200]})


def tasks(tier):
    out = {}
    for name in E.QUICK:
        cfg = E.QUICK[name][0]
        out[f"history:{name}@{cfg}"] = (run_history, {"name": name, "cfg": cfg})
    # (PacMan also returns Python scalars in some state leaves, but its step - ghost path finding on a 31x28 maze, twice per obligation - does not
    #  discharge within the budgets (35 min and 18 undecided in a trial): NOT covered, listed in NOT_VERIFIED)
    for name in ("FlatPack", "Tetris") if tier == "quick" else [n for n in E.QUICK if n != "PacMan"]:
        cfg = list(E.configs(name, tier))[0]
        out[f"kinds:{name}@{cfg}"] = (run_kinds, {"name": name, "cfg": cfg, "steps": 6})
    for name in E.QUICK:
        cfgs = E.configs(name, tier)
        if tier == "quick":
            cfgs = dict(list(cfgs.items())[:1])
        if name == "Sudoku":   # also the database generator built on a caller-owned int32 numpy array (constructors must not modify their arguments)
            cfgs = {**cfgs, "db": E.ALL()["Sudoku"]["db"]}
        for cfg in cfgs:
            out[f"{name}@{cfg}"] = (run_env, {"name": name, "cfg": cfg})
    return out


LEVEL_TEXT = ("Proof of purity per configuration: the jaxprs JAX extracts from the real reset/step are effect-free (JAX's effect typing), identical across re-traces "
              "and across fresh instances (no hidden state), and the frame analysis (static AST scan for self/global writes + an instrumented trace that, by the "
              "path-uniqueness lemma, executes every Python statement any call can execute) shows that no argument, no object reachable from the environment and "
              "no module global is written. Determinism of the function follows: a closed effect-free jaxpr is a mathematical function of its inputs. Agreement of the "
              "TRACED function with jit/vmap/scan follows from JAX's meta-theory (assumed). Agreement of PLAIN PYTHON execution with the traced function is an obligation "
              "where it is not automatic: environments whose eager states carry Python scalars (FlatPack, Tetris; PacMan's step is out of reach of this obligation and is listed as not verified) are proved, for every "
              "tuple of such scalars met along eager rollouts (enumerated) and all array leaves and actions (symbolic), to return the same from step whether those "
              "leaves enter as Python scalars or as jit arguments. Independence of an instance from the instances constructed before it (no state shared through module-level "
              "caches) is an obligation too: per sibling configuration, in a fresh interpreter, the target built after the sibling has the same reset/step jaxprs and "
              "constants as the target built first.")
LEVEL_NOTE = ("jit/vmap/scan preservation and XLA are assumed (the part of the statement about program transformations is not mechanised here); float bit-equality "
              "between eager and jit is outside any contract; configurations enumerated; eager repeat/fresh-instance equality is a bounded stand-in.")
