"""C14 — VmapWrapper == per-instance execution; VmapAutoResetWrapper == VmapWrapper(AutoResetWrapper(env)); render of element 0.
Abstract environment (uninterpreted reset/step whose batching rule is "call the function once per batch element")."""
import jax
import jax.numpy as jnp

from checks.C13 import leaves_eq
from contracts import absenv as A
from contracts import envs as E

LEVEL = "proof"
CONFIG_BOUND = "batch sizes 1..3 (quick) / 1..5 (thorough) x signatures (3 synthetic + 23 real); values, keys, per-element LAST flags unbounded"
NOT_VERIFIED = ["that jax.vmap of a REAL environment equals per-element execution (JAX meta-theory, C02)", "batch sizes outside the list"]
ASSUMPTIONS = ["wrapped environment = uninterpreted functions; vmap of an uninterpreted function = the function applied to each slice"]


def batch(tree, B):
    return jax.tree_util.tree_map(lambda x: jnp.zeros((B,) + x.shape, x.dtype), tree)


def stack(trees):
    return jax.tree_util.tree_map(lambda *xs: jnp.stack(xs), *trees)


def tslice(tree, i):
    return jax.tree_util.tree_map(lambda x: x[i], tree)


def all_eq(a, b):
    return jax.tree_util.tree_reduce(lambda r, x: r & x, jax.tree_util.tree_map(lambda x, y: jnp.all(x == y), a, b), jnp.asarray(True))


def run_sig(ctx, sig, kind, batches):
    from jumanji import wrappers
    if kind == "synthetic":
        st, ts, a = A.synthetic()[sig]
    else:
        name, cfg = sig.split("@")
        st, ts, a = A.real_signature(E.ALL()[name][cfg]())
    key = jnp.zeros((2,), jnp.uint32)
    env = A.AbsEnv(st, ts, a)
    for B in batches:
        SB, AB, KB = batch(st, B), batch(a, B), batch(key, B)
        vw = wrappers.VmapWrapper(env)

        def ens_v(S, Ac, K, B=B, vw=vw):
            out = leaves_eq("C14.vmap_step", vw.step(S, Ac), stack([env.step(tslice(S, i), Ac[i]) for i in range(B)]))
            out.update(leaves_eq("C14.vmap_reset", vw.reset(K), stack([env.reset(K[i]) for i in range(B)])))
            out["canary.all_elements_equal_element0"] = all_eq(vw.step(S, Ac)[0], stack([env.step(tslice(S, 0), Ac[0])[0]] * B)) if B > 1 \
                else all_eq(vw.step(S, Ac)[0], S)
            return out

        ctx.prove(f"VmapWrapper[{sig},B={B}]", (SB, AB, KB), ens_v, targets=[wrappers.VmapWrapper.step, wrappers.VmapWrapper.reset],
                  use_stubs=False, selfcheck=False, merge_over=8)
        for nobs in (False, True):
            w1 = wrappers.VmapAutoResetWrapper(env, next_obs_in_extras=nobs)
            w2 = wrappers.VmapWrapper(wrappers.AutoResetWrapper(env, next_obs_in_extras=nobs))

            def ens_a(S, Ac, K, w1=w1, w2=w2):
                out = leaves_eq("C14.vmapautoreset_step", w1.step(S, Ac), w2.step(S, Ac))
                out.update(leaves_eq("C14.vmapautoreset_reset", w1.reset(K), w2.reset(K)))
                out["canary.never_resets"] = all_eq(w1.step(S, Ac)[0], vw.step(S, Ac)[0])
                return out

            ctx.prove(f"VmapAutoResetWrapper[{sig},B={B},next_obs={nobs}]", (SB, AB, KB), ens_a,
                      targets=[wrappers.VmapAutoResetWrapper.step, wrappers.VmapAutoResetWrapper.reset, wrappers.VmapAutoResetWrapper._maybe_reset,
                               wrappers.VmapAutoResetWrapper._auto_reset], use_stubs=False, selfcheck=False, merge_over=8)

    # render: both batched wrappers hand element 0 of the batch to the wrapped render
    class Rec(A.AbsEnv):
        def render(self, state):
            return state
    renv = Rec(st, ts, a)
    B = max(batches)
    for wname, w in (("VmapWrapper", wrappers.VmapWrapper(renv)), ("VmapAutoResetWrapper", wrappers.VmapAutoResetWrapper(renv))):
        def ens_r(S, w=w):
            out = leaves_eq("C14.render_first_element", w.render(S), tslice(S, 0))
            if B > 1:
                out["canary.renders_last_element"] = all_eq(w.render(S), tslice(S, B - 1))
            return out
        ctx.prove(f"{wname}.render[{sig},B={B}]", (batch(st, B),), ens_r, targets=[type(w).render], use_stubs=False, selfcheck=False, merge_over=8)


def tasks(tier):
    batches = (1, 2, 3) if tier == "quick" else (1, 2, 3, 4, 5)
    out = {}
    for sig in A.synthetic():
        out[f"syn:{sig}"] = (run_sig, {"sig": sig, "kind": "synthetic", "batches": batches})
    for name in E.QUICK:
        cfg = E.QUICK[name][0]
        if tier == "quick" and name in ("PacMan", "MMST", "Sudoku", "Tetris", "Sokoban"):
            continue   # large signatures: thorough tier only (cost; the proof is signature-generic)
        out[f"sig:{name}@{cfg}"] = (run_sig, {"sig": f"{name}@{cfg}", "kind": "real", "batches": (2,) if tier == "quick" else (1, 2, 3)})
    return out


LEVEL_TEXT = ("Proof over an abstract environment: for each batch size and signature, VmapWrapper.reset/step equal, leaf by leaf and index by "
              "index, the stack of per-element calls; VmapAutoResetWrapper.reset/step equal VmapWrapper(AutoResetWrapper(env)) on every leaf with "
              "per-element LAST flags symbolic (every subset of terminating elements); both render element 0 of the batch.")
LEVEL_NOTE = ("env.reset/env.step uninterpreted with the batching rule 'once per element'; batch sizes enumerated; "
              "vmap of a real environment = per-element execution is JAX meta-theory (assumed).")
