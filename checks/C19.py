"""C19 — pytree helpers.  tree_transpose / tree_slice / tree_add_element: Engine J (leaves and the index symbolic) over an enumerated
structure family and the real State pytree of every environment.  is_equal_pytree / assert_trees_are_*: Engine P (the real
functions run on proxy leaves; numpy iterates scalar proxies that fork on bool())."""
import collections
import itertools
from typing import NamedTuple

import chex
import jax
import jax.numpy as jnp
import numpy as np
import z3

from checks.C13 import leaves_eq
from contracts import envs as E
from jxv import pyexec as P
from jxv import symeval as S

LEVEL = "proof"
CONFIG_BOUND = ("structure family: nested dict/list/tuple/namedtuple/chex-dataclass trees with leaf ranks 0-2 and dtypes bool/int8/int32/float32 plus the "
                "real State pytree of each of the 23 environments; batch sizes 1..4 quick / 1..8 thorough; every index i of the batch; leaf contents unbounded")
NOT_VERIFIED = ["structures and batch sizes outside the family", "dm-tree / numpy internals (np.array_equal, tree.map_structure executed natively on proxies)"]
ASSUMPTIONS = ["np.array_equal(a, b) == (a.shape == b.shape and (a == b).all()) and dm-tree map_structure/flatten are structure-preserving (executed natively)"]


class NT(NamedTuple):
    u: chex.Array
    v: chex.Array


@chex.dataclass
class DC:
    p: chex.Array
    q: chex.Array


def _z(shape, dt):
    return jnp.zeros(shape, dt)


def family():
    return {
        "dict_list": {"a": _z((), jnp.int32), "b": [_z((2,), jnp.float32), _z((2, 2), jnp.bool_)]},
        "namedtuple_tuple": NT(u=(_z((3,), jnp.int8), _z((), jnp.float32)), v=_z((1, 2), jnp.int32)),
        "dataclass_nested": DC(p=NT(u=_z((), jnp.bool_), v=_z((2,), jnp.int32)), q={"k": _z((2,), jnp.float32)}),
        "single_leaf": _z((2,), jnp.int32),
    }


def batch(tree, B):
    return jax.tree_util.tree_map(lambda x: jnp.zeros((B,) + x.shape, x.dtype), tree)


def sel(trees, i):
    """element i (symbolic) of a python list of trees"""
    out = trees[-1]
    for j in range(len(trees) - 2, -1, -1):
        out = jax.tree_util.tree_map(lambda a, b, j=j: jnp.where(i == j, a, b), trees[j], out)
    return out


def run_tree(ctx, which, kind, batches):
    from jumanji import tree_utils as TU
    if kind == "family":
        ex = family()[which]
    else:
        name, cfg = which.split("@")
        env = E.ALL()[name][cfg]()
        ex = jax.tree_util.tree_map(lambda x: jnp.zeros(x.shape, x.dtype), jax.eval_shape(env.reset, jax.random.PRNGKey(0))[0])
    for B in batches:
        trees = tuple(ex for _ in range(B))
        i0 = jnp.int32(0)

        def req(ts, t, e, i):
            # every index the helpers accept on arrays: 0..B-1 and, with Python's convention, -B..-1 (element B+i)
            return {"i_in_range": (i >= -B) & (i < B)}

        def ens(ts, t, e, i):
            out = {}
            ii = jnp.where(i < 0, i + B, i)     # the element that index i names
            st = TU.tree_transpose(list(ts))
            for j in range(B):
                out.update(leaves_eq(f"C19.slice_of_transpose[{j}]", TU.tree_slice(st, j), ts[j]))
            # traced (symbolic) index: one clause per value of i (the case split keeps each obligation a unit-propagation problem; as one clause
            # over the symbolic selection the 3888-element leaf of MMST's state took 230 s)
            sl = TU.tree_slice(st, i)
            for k in range(-B, B):
                for n_, v_ in leaves_eq(f"C19.slice_of_transpose[i={k}]", sl, ts[k % B]).items():
                    out[n_] = v_ | (i != k)
            added = TU.tree_add_element(t, i, e)
            for j in range(B):
                want = jax.tree_util.tree_map(lambda a, b: jnp.where(ii == j, a, b[j]), e, t)
                out.update(leaves_eq(f"C19.add_element_then_slice[{j}]", TU.tree_slice(added, j), want))
            out.update(leaves_eq("C19.add_element_then_slice[i]", TU.tree_slice(added, i), e))
            out["canary.add_element_is_identity"] = jax.tree_util.tree_reduce(
                lambda r, x: r & x, jax.tree_util.tree_map(lambda a, b: jnp.all(a == b), added, t), jnp.asarray(True))
            return out

        ctx.prove(f"tree_utils[{which},B={B}]", (trees, batch(ex, B), ex, i0), ens, req,
                  targets=[TU.tree_transpose, TU.tree_slice, TU.tree_add_element], use_stubs=False, merge_over=8)
        # structure and dtypes preserved (abstract evaluation: holds for all values)
        st_shape = jax.eval_shape(lambda ts: TU.tree_transpose(list(ts)), trees)
        ok = jax.tree_util.tree_structure(st_shape) == jax.tree_util.tree_structure(ex) and all(
            a.shape == (B,) + b.shape and a.dtype == b.dtype for a, b in zip(jax.tree_util.tree_leaves(st_shape), jax.tree_util.tree_leaves(ex)))
        ctx.structural(f"tree_utils[{which},B={B}]/C19.transpose_preserves_structure_and_dtypes", ok, "jax.eval_shape", targets=[TU.tree_transpose])
        sl = jax.eval_shape(lambda t: TU.tree_slice(t, 0), batch(ex, B))
        ok = jax.tree_util.tree_structure(sl) == jax.tree_util.tree_structure(ex) and all(
            a.shape == b.shape and a.dtype == b.dtype for a, b in zip(jax.tree_util.tree_leaves(sl), jax.tree_util.tree_leaves(ex)))
        ctx.structural(f"tree_utils[{which},B={B}]/C19.slice_preserves_structure_and_dtypes", ok, "jax.eval_shape", targets=[TU.tree_slice])
        ad = jax.eval_shape(lambda t, e: TU.tree_add_element(t, 0, e), batch(ex, B), ex)
        ok = jax.tree_util.tree_structure(ad) == jax.tree_util.tree_structure(ex) and all(
            a.shape == (B,) + b.shape and a.dtype == b.dtype for a, b in zip(jax.tree_util.tree_leaves(ad), jax.tree_util.tree_leaves(ex)))
        ctx.structural(f"tree_utils[{which},B={B}]/C19.add_element_preserves_structure_and_dtypes", ok, "jax.eval_shape", targets=[TU.tree_add_element])


# ---- equality helper (Engine P) -----------------------------------------------------------------------------------
Pt = collections.namedtuple("Pt", ["x", "y"])


def eq_family(E_, tag):
    """nests of dicts, lists, tuples and namedtuples with proxy leaves; returns (tree1, tree2, list of leaf pairs)"""
    mk = lambda n, shape, dt: E_.arr(n, shape, dt)
    if tag == "dict_list":
        a = {"a": mk("a1", (2,), jnp.int32), "b": [mk("a2", (), jnp.float32), mk("a3", (2, 2), jnp.bool_)]}
        b = {"a": mk("b1", (2,), jnp.int32), "b": [mk("b2", (), jnp.float32), mk("b3", (2, 2), jnp.bool_)]}
        return a, b, [(a["a"], b["a"]), (a["b"][0], b["b"][0]), (a["b"][1], b["b"][1])]
    if tag == "namedtuple_tuple":
        a = Pt(x=(mk("a1", (3,), jnp.int8), mk("a2", (), jnp.int32)), y=mk("a3", (1, 2), jnp.float32))
        b = Pt(x=(mk("b1", (3,), jnp.int8), mk("b2", (), jnp.int32)), y=mk("b3", (1, 2), jnp.float32))
        return a, b, [(a.x[0], b.x[0]), (a.x[1], b.x[1]), (a.y, b.y)]
    if tag == "shape_mismatch":
        a = {"a": mk("a1", (2,), jnp.int32), "b": mk("a2", (2,), jnp.int32)}
        b = {"a": mk("b1", (2,), jnp.int32), "b": mk("b2", (3,), jnp.int32)}
        return a, b, [(a["a"], b["a"]), (a["b"], b["b"])]
    if tag == "same_size_other_shape":   # equal number of elements, equal flattened contents possible, but different shapes: never equal
        a = {"a": mk("a1", (2, 3), jnp.int32), "b": [mk("a2", (2,), jnp.float32), mk("a3", (), jnp.int32)]}
        b = {"a": mk("b1", (3, 2), jnp.int32), "b": [mk("b2", (1, 2), jnp.float32), mk("b3", (1,), jnp.int32)]}
        return a, b, [(a["a"], b["a"]), (a["b"][0], b["b"][0]), (a["b"][1], b["b"][1])]
    if tag == "single":
        a, b = mk("a1", (2,), jnp.float32), mk("b1", (2,), jnp.float32)
        return a, b, [(a, b)]
    raise KeyError(tag)


def run_equal(ctx, tag):
    from checks.C16 import Rec, exc_cond, ret_cond
    from jumanji.testing import pytrees as PT
    E_ = P.reset_engine()
    R = Rec(ctx, f"is_equal_pytree[{tag}]", targets=[PT.is_equal_pytree, PT.assert_trees_are_different, PT.assert_trees_are_equal])
    t1, t2, pairs = eq_family(E_, tag)
    want = True
    for x, y in pairs:
        if x.shape != y.shape:
            want = False
            break
        k = S.kind(x.dtype)
        for idx in np.ndindex(*x.shape):
            want = S.b_and(want, S.cmp("eq", x._el[idx], y._el[idx], k))
    p12 = P.explore(lambda: PT.is_equal_pytree(t1, t2))
    p21 = P.explore(lambda: PT.is_equal_pytree(t2, t1))
    p11 = P.explore(lambda: PT.is_equal_pytree(t1, t1))
    T = lambda paths: ret_cond(paths, lambda r: bool(r) if isinstance(r, (bool, np.bool_)) else P.truth(r))
    R.complete("paths_complete", p12)
    R.total("total_never_raises", p12, ())
    R.ob("returns_a_python_bool", all(isinstance(o[1], bool) for _, o in p12 if o[0] == "ret"))
    def rp_eq(m):
        """native replay: the model's leaves in the same structures, the real function, an exact comparison as oracle"""
        from checks.C16 import concrete
        c1 = jax.tree_util.tree_map(lambda x: np.asarray(concrete(m, x)), t1, is_leaf=lambda x: isinstance(x, P.SymArr))
        c2 = jax.tree_util.tree_map(lambda x: np.asarray(concrete(m, x)), t2, is_leaf=lambda x: isinstance(x, P.SymArr))
        got, got21 = PT.is_equal_pytree(c1, c2), PT.is_equal_pytree(c2, c1)
        exact = all(a.shape == b.shape and np.array_equal(a, b) for a, b in zip(jax.tree_util.tree_leaves(c1), jax.tree_util.tree_leaves(c2)))

        def raises(f):
            try:
                f(c1, c2)
                return False
            except AssertionError:
                return True
        return {"inputs": {"tree1": repr(c1)[:300], "tree2": repr(c2)[:300]}, "native is_equal_pytree": [got, got21], "exact": exact,
                "confirmed": got != exact or got21 != exact or raises(PT.assert_trees_are_different) != exact or raises(PT.assert_trees_are_equal) == exact}
    R.ob("true_iff_every_leaf_pair_has_equal_shape_and_elements", S.zbool(T(p12)) == S.zbool(want), replay=rp_eq)
    R.ob("symmetric", S.zbool(T(p12)) == S.zbool(T(p21)), replay=rp_eq)
    R.ob("reflexive", T(p11))
    if tag not in ("shape_mismatch", "same_size_other_shape"):
        R.ob("canary.always_equal", T(p12), replay=lambda m: {"confirmed": True})
    d = P.explore(lambda: PT.assert_trees_are_different(t1, t2))
    R.ob("assert_trees_are_different.raises_AssertionError_iff_equal", S.zbool(exc_cond(d, AssertionError)) == S.zbool(want), replay=rp_eq)
    R.total("assert_trees_are_different.no_other_exception", d, (AssertionError,))
    e = P.explore(lambda: PT.assert_trees_are_equal(t1, t2))
    R.ob("assert_trees_are_equal.raises_AssertionError_iff_not_equal", S.zbool(exc_cond(e, AssertionError)) == S.zbool(S.b_not(want)), replay=rp_eq)
    R.total("assert_trees_are_equal.no_other_exception", e, (AssertionError,))


def run_equal_mixed_dtypes(ctx):
    """leaf pairs of DIFFERENT dtypes (finite list of concrete cases: the proxies of Engine P carry no numpy dtype, so dtype-dependent behaviour
    is checked natively): equal exactly when shapes agree and the elements are numerically equal; symmetric; assertions consistent"""
    from fractions import Fraction

    from jumanji.testing import pytrees as PT
    from jxv import core
    title = "is_equal_pytree[mixed dtypes]"
    ctx.problems.append({"title": title, "engine": "native (finite list)", "targets": [core.target_meta(PT.is_equal_pytree)]})
    A = np.asarray
    cases = [
        ("int_vs_float_unequal", {"a": A([1, 2])}, {"a": A([1.5, 2.25])}),
        ("int_vs_float_equal", {"a": A([1, 2])}, {"a": A([1.0, 2.0])}),
        ("float_vs_int_unequal", {"a": A([1.5, 2.0])}, {"a": A([1, 2])}),
        ("f32_vs_f64_unequal", [A([0.1], np.float32)], [A([0.1], np.float64)]),
        ("f32_vs_f64_equal", [A([0.5], np.float32)], [A([0.5], np.float64)]),
        ("i32_vs_i64_unequal", (A([7], np.int32),), (A([2**32 + 7], np.int64),)),
        ("i8_vs_i32_unequal", (A([1], np.int8),), (A([257], np.int32),)),
        ("bool_vs_int_unequal", {"m": A([True, False])}, {"m": A([2, 0])}),
        ("bool_vs_int_equal", {"m": A([True, False])}, {"m": A([1, 0])}),
        ("uint8_vs_int32_unequal", [A([255], np.uint8)], [A([-1], np.int32)]),
        ("jax_int_vs_float_unequal", {"a": jnp.asarray([1, 2])}, {"a": jnp.asarray([1.5, 2.0])}),
        ("nested_mixed", {"a": A([1, 2]), "b": (A(3),)}, {"a": A([1.5, 2.25]), "b": (A(3.0),)}),
    ]

    def exact(t1, t2):
        l1, l2 = jax.tree_util.tree_leaves(t1), jax.tree_util.tree_leaves(t2)
        for x, y in zip(l1, l2):
            x, y = np.asarray(x), np.asarray(y)
            if x.shape != y.shape:
                return False
            for u, v in zip(x.reshape(-1).tolist(), y.reshape(-1).tolist()):
                if Fraction(u) != Fraction(v):
                    return False
        return True

    def raises(f, *a):
        try:
            f(*a)
            return False
        except AssertionError:
            return True
    for name, t1, t2 in cases:
        want = exact(t1, t2)
        r12, r21 = PT.is_equal_pytree(t1, t2), PT.is_equal_pytree(t2, t1)
        wit = {"tree1": repr(t1), "tree2": repr(t2), "is_equal(t1,t2)": r12, "is_equal(t2,t1)": r21, "exact": want}
        ctx.structural(f"{title}/C19.{name}.true_iff_shapes_and_elements_equal", r12 == want and r21 == want, "native execution (finite special cases)", witness=wit)
        ctx.structural(f"{title}/C19.{name}.symmetric", r12 == r21, "native execution (finite special cases)", witness=wit)
        ctx.structural(f"{title}/C19.{name}.different_assertion_fails_iff_equal", raises(PT.assert_trees_are_different, t1, t2) == want, "native execution (finite special cases)",
                       witness=wit)


def tasks(tier):
    batches = (1, 2, 3) if tier == "quick" else (1, 2, 3, 4, 5, 8)
    out = {}
    for k in family():
        out[f"family:{k}"] = (run_tree, {"which": k, "kind": "family", "batches": batches})
    for name in E.QUICK:
        cfg = E.QUICK[name][0]
        out[f"state:{name}@{cfg}"] = (run_tree, {"which": f"{name}@{cfg}", "kind": "state", "batches": (2,) if tier == "quick" else (1, 2, 3)})
    for tag in ("dict_list", "namedtuple_tuple", "shape_mismatch", "same_size_other_shape", "single"):
        out[f"equal:{tag}"] = (run_equal, {"tag": tag})
    out["equal:mixed_dtypes"] = (run_equal_mixed_dtypes, {})
    return out


LEVEL_TEXT = ("Proof: for each structure of the family (and the real State pytree of all 23 environments) and each batch size, with all leaf contents and the "
              "index i symbolic: slice(transpose(ts), i) = ts[i]; slice(add_element(t,i,e), j) = e if j=i else slice(t,j); structure and dtypes preserved "
              "(abstract evaluation). is_equal_pytree is total, reflexive, symmetric and true exactly when every leaf pair has equal shape and elements; the "
              "'different' assertion raises exactly when it is true (all paths of the real functions enumerated on proxy leaves).")
LEVEL_NOTE = "Structures and batch sizes enumerated; numpy/dm-tree executed natively on proxies; floats as reals (NaN != NaN not modelled)."
