"""C16 — spec algebra (generate / validate / replace / equality / pickling) by Engine P: the REAL methods of jumanji/specs.py run
on proxies (symbolic bounds, values, num_values; concrete shape/dtype/name families), all paths enumerated, one VC per path
and clause.  Counterexamples are replayed natively on the unshimmed module."""
import contextlib
import itertools
import time
import traceback

import jax
import jax.numpy as jnp
import numpy as np
import z3

from jxv import pyexec as P
from jxv import symeval as S

LEVEL = "proof"
ENGINE = "jxv (Engine P: path-complete symbolic execution of the real Python on proxies, jnp calls lifted through Engine J)"
CONFIG_BOUND = ("structure family enumerated: shapes of rank 0-3 with dims 0-3 (incl. size-0), dtypes bool/int8/int16/int32/uint8/float16/float32, "
                "names from {'', 'x', 'y'}, scalar and per-element bounds, DiscreteArray num_values 1..4, nestings of depth <= 2; "
                "bounds / values / MultiDiscrete num_values symbolic (unbounded)")
NOT_VERIFIED = ["membership in converted gym spaces / dm_env specs (third-party code): attributes of the converted spaces are compared, the "
                "membership contract of gym/dm_env is assumed (bounded part)", "NaN / Inf semantics of float leaves (floats are reals): covered by a "
                "finite special-value check", "pickle itself (assumed to rebuild through __reduce__)"]
ASSUMPTIONS = ["pickle.loads(pickle.dumps(s)) rebuilds s as cls(*args) from s.__reduce__() (Python data model)",
               "gymnasium.spaces.*.contains and dm_env.specs.*.validate accept exactly shape/dtype/inclusive-bounds members (assumed, used for the bounded part)"]
TRUSTED_EXTRA = ["Engine P proxies (cross-checked by native re-execution of one witness per path)"]


@contextlib.contextmanager
def shimmed():
    from jumanji import specs
    old = specs.jnp, specs.np
    specs.jnp, specs.np = P.ModShim(jnp), P.ModShim(np, jnp)
    try:
        yield specs
    finally:
        specs.jnp, specs.np = old


def outcome_kind(o):
    return "ret" if o[0] == "ret" else type(o[1]).__name__


class Rec:
    """collects obligations of one task"""

    def __init__(self, ctx, title, targets=None):
        from jxv import core
        self.ctx, self.title = ctx, title
        if targets is None:
            from jumanji import specs as sp
            targets = [sp.Array.validate, sp.BoundedArray.validate, sp.BoundedArray.__init__, sp.BoundedArray.__eq__, sp.Array.__eq__, sp.Array.replace,
                       sp.Array._get_constructor_kwargs, sp.BoundedArray.__reduce__, sp.DiscreteArray.__init__, sp.DiscreteArray.__eq__,
                       sp.MultiDiscreteArray.__init__, sp.MultiDiscreteArray.__eq__, sp.Spec.validate, sp.Spec.generate_value, sp.Spec.replace, sp.Spec.__eq__,
                       sp.jumanji_specs_to_gym_spaces, sp.jumanji_specs_to_dm_env_specs]
        ctx.problems.append({"title": title, "engine": "P", "targets": [core.target_meta(t) for t in targets]})

    def ob(self, clause, term, extra=(), replay=None, note=None):
        """obligation: under the engine assumptions and `extra`, `term` is valid"""
        t0 = time.time()
        name = f"{self.title}/{clause}"
        if S.is_c(term):
            verdict, model = ("unsat", None) if term else ("sat", None)
            if not term:
                r, s = P.ENG.check(*extra)
                verdict, model = ("sat", s.model()) if r == z3.sat else ("unsat" if r == z3.unsat else "unknown", None)
            backend = "normaliser"
        else:
            verdict, model = P.ENG.valid(term, extra)
            backend = "z3-" + z3.get_version_string()
        r = {"name": name, "title": self.title, "verdict": verdict, "backend": backend, "time": round(time.time() - t0, 3), "engine": "P"}
        if note:
            r["note"] = note
        if clause.startswith("canary."):
            r["canary"] = True
            if verdict != "sat":
                self.ctx.errors.append({"title": self.title, "error": f"canary {clause} was not refuted ({verdict})"})
            self.ctx.obligations.append(r)
            return verdict == "sat"
        if verdict == "sat":
            rp = {"obligation": name, "mode": "native run of the unshimmed real function on the model's values"}
            try:
                rp.update(replay(model) if replay else {"confirmed": None, "note": "no replay function"})
            except Exception as ex:
                rp.update({"confirmed": None, "note": "replay failed: " + repr(ex)[:200], "trace": traceback.format_exc()[-800:]})
            r["replay"] = rp
        self.ctx.obligations.append(r)
        return verdict == "unsat"

    def total(self, clause, paths, allowed_exc=(), replay=None):
        """no path ends in an exception outside `allowed_exc`"""
        bad = [pc for pc, o in paths if o[0] == "exc" and not isinstance(o[1], allowed_exc)]
        kinds = sorted({outcome_kind(o) for _, o in paths})
        term = S.b_not(z3.Or(*[P.pc_term(pc) for pc in bad])) if bad else True
        return self.ob(clause, term, replay=replay, note=f"paths={len(paths)} outcomes={kinds}")

    def complete(self, clause, paths):
        """path completeness: the disjunction of the path conditions is valid (no path was lost)"""
        return self.ob(clause, z3.Or(*[P.pc_term(pc) for pc, _ in paths]) if paths else False)


def ret_cond(paths, pred=lambda v: True):
    cs = []
    for pc, o in paths:
        if o[0] == "ret":
            p = pred(o[1])
            if S.is_c(p):
                if p:
                    cs.append(P.pc_term(pc))
            else:
                cs.append(z3.And(P.pc_term(pc), p))
    return z3.Or(*cs) if cs else z3.BoolVal(False)


def exc_cond(paths, exc):
    cs = [P.pc_term(pc) for pc, o in paths if o[0] == "exc" and isinstance(o[1], exc)]
    return z3.Or(*cs) if cs else z3.BoolVal(False)


def all_in(v, lo, hi, shape):
    lo_b, hi_b = np.broadcast_to(lo._el, shape), np.broadcast_to(hi._el, shape)
    k = S.kind(v.dtype)
    cs = [S.b_and(S.cmp("ge", v._el[i], lo_b[i], k), S.cmp("le", v._el[i], hi_b[i], k)) for i in np.ndindex(*shape)]
    r = True
    for c in cs:
        r = S.b_and(r, c)
    return r


def el_eq(a, b, shape):
    A, B = np.broadcast_to(a._el, shape), np.broadcast_to(b._el, shape)
    k = S.kind(a.dtype)
    r = True
    for i in np.ndindex(*shape):
        r = S.b_and(r, S.cmp("eq", A[i], B[i], k))
    return r


def concrete(model, proxy):
    return jnp.asarray(P.model_value(model, proxy))


# ---- native replays ---------------------------------------------------------------------------------------------
def native(thunk):
    try:
        return ("ret", thunk())
    except Exception as ex:
        return ("exc", ex)


def run_bounded(ctx, shape, dtype, per_element, name="x"):
    """BoundedArray over one (shape, dtype, bound-kind): constructor, validate, generate_value, replace, ==, __reduce__."""
    from jumanji import specs as real_specs
    E = P.reset_engine()
    dt = jnp.dtype(dtype)
    bshape = shape if per_element else ()
    title = f"BoundedArray[{shape},{dt.name},{'per-element' if per_element else 'scalar'} bounds]"
    R = Rec(ctx, title)
    lo, hi = E.arr("lo", bshape, dt), E.arr("hi", bshape, dt)
    k = S.kind(dt)
    with shimmed() as specs:
        # -- constructor: raises ValueError  <=>  some minimum > maximum
        cpaths = P.explore(lambda: specs.BoundedArray(shape, dt, lo, hi, name))
        R.complete("ctor.paths_complete", cpaths)
        some_gt = S.b_not(all_in(lo, lo, hi, bshape)) if bshape != () or True else None
        anygt = True
        for i in np.ndindex(*bshape):
            pass
        gt = False
        for i in np.ndindex(*bshape):
            gt = S.b_or(gt, S.cmp("gt", lo._el[i], hi._el[i], k))
        if np.prod(shape) == 0:
            gt = False  # empty arrays: nothing to compare after broadcasting

        def rp_ctor(m):
            o = native(lambda: real_specs.BoundedArray(shape, dt, concrete(m, lo), concrete(m, hi), name))
            want_raise = bool(np.any(np.broadcast_to(np.asarray(concrete(m, lo)), shape) > np.broadcast_to(np.asarray(concrete(m, hi)), shape)))
            return {"inputs": {"minimum": np.asarray(concrete(m, lo)).tolist(), "maximum": np.asarray(concrete(m, hi)).tolist()},
                    "native_outcome": outcome_kind(o), "expected": "ValueError" if want_raise else "ret",
                    "confirmed": (outcome_kind(o) == "ValueError") != want_raise}
        R.ob("ctor.raises_ValueError_iff_min_gt_max", z3.BoolVal(True) if False else (S.zbool(exc_cond(cpaths, ValueError)) == S.zbool(gt)), replay=rp_ctor)
        R.total("ctor.no_other_exception", cpaths, (ValueError,), replay=rp_ctor)
        ok = [(pc, o[1]) for pc, o in cpaths if o[0] == "ret"]
        if len(ok) != 1:
            ctx.errors.append({"title": title, "error": f"expected exactly one accepting constructor path, got {len(ok)}"})
            return
        pc0, a = ok[0]
        E.base = list(pc0)  # the constructor's path condition is carried as an assumption from here on
        # -- validate: accept <=> same shape, same dtype, all elements within the inclusive bounds; ValueError otherwise
        vcases = [(shape, dt, "same")]
        alt_shape = (shape + (1,)) if len(shape) < 3 else shape[:-1]
        vcases.append((alt_shape, dt, "other_shape"))
        vcases.append((shape, jnp.dtype(jnp.int16 if dt != jnp.int16 else jnp.int32), "other_dtype"))
        for vs, vd, tag in vcases:
            v = E.arr("v_" + tag, vs, vd)
            paths = P.explore(lambda: a.validate(v))
            R.complete(f"validate[{tag}].paths_complete", paths)
            expect = all_in(v, lo, hi, shape) if tag == "same" else False

            def rp_val(m, v=v, expect=expect, tag=tag):
                spec = real_specs.BoundedArray(shape, dt, concrete(m, lo), concrete(m, hi), name)
                val = concrete(m, v)
                o = native(lambda: spec.validate(val))
                inb = tag == "same" and bool(np.all((np.asarray(val) >= np.asarray(spec.minimum)) & (np.asarray(val) <= np.asarray(spec.maximum))))
                return {"inputs": {"minimum": np.asarray(spec.minimum).tolist(), "maximum": np.asarray(spec.maximum).tolist(),
                                   "value": np.asarray(val).tolist(), "value_dtype": str(val.dtype)},
                        "native_outcome": outcome_kind(o), "expected": "ret" if inb else "ValueError",
                        "confirmed": (outcome_kind(o) == "ret") != inb or (not inb and outcome_kind(o) not in ("ret", "ValueError"))}
            R.ob(f"validate[{tag}].accepts_iff_shape_dtype_and_inclusive_bounds", S.zbool(ret_cond(paths)) == S.zbool(expect), replay=rp_val)
            R.total(f"validate[{tag}].rejects_with_ValueError_only", paths, (ValueError,), replay=rp_val)
            if tag == "same":
                same_val = ret_cond(paths, lambda r: el_eq(r, v, shape) if isinstance(r, P.SymArr) and r.shape == tuple(shape) else False)
                R.ob("validate[same].returns_the_value", S.zbool(ret_cond(paths)) == S.zbool(same_val), replay=rp_val)
                R.ob("canary.validate_always_accepts", ret_cond(paths), replay=rp_val) if np.prod(shape) > 0 else None
        # -- generate_value is accepted
        g = a.generate_value()
        gpaths = P.explore(lambda: a.validate(g))
        R.total("generate_value.is_accepted_by_validate", gpaths, ())
        R.ob("generate_value.aval", isinstance(g, P.SymArr) and g.shape == tuple(shape) and g.dtype == dt)
        # -- replace
        for kw_name, kw in (("none", {}), ("name", {"name": "y"}), ("shape_keep", {"shape": shape})):
            rpaths = P.explore(lambda: a.replace(**kw))
            R.total(f"replace[{kw_name}].total", rpaths, ())
            for pc, o in rpaths:
                if o[0] != "ret":
                    continue
                b = o[1]
                attrs_ok = (type(b) is type(a) and b.shape == a.shape and b.dtype == a.dtype and b.name == kw.get("name", a.name))
                R.ob(f"replace[{kw_name}].only_named_attributes_change", S.b_and(attrs_ok, S.b_and(el_eq(b.minimum, lo, bshape) if b.minimum.shape == lo.shape else False,
                     el_eq(b.maximum, hi, bshape) if b.maximum.shape == hi.shape else False)), extra=pc)
        lo2 = E.arr("lo2", bshape, dt)
        E2 = [S.zbool(all_in(lo2, lo2, hi, bshape))] if True else []
        rpaths = P.explore(lambda: a.replace(minimum=lo2))
        for pc, o in rpaths:
            if o[0] == "ret":
                b = o[1]
                R.ob("replace[minimum].only_minimum_changes", S.b_and(b.shape == a.shape and b.dtype == a.dtype and b.name == a.name,
                     S.b_and(el_eq(b.minimum, lo2, bshape), el_eq(b.maximum, hi, bshape))), extra=pc)

        def rp_eq(m, mk_other=None):
            A = real_specs.BoundedArray(shape, dt, concrete(m, lo), concrete(m, hi), name)
            B = mk_other(m) if mk_other else A.replace()
            o = native(lambda: A == B)
            same_attrs = (A.shape == B.shape and A.dtype == B.dtype and A.name == B.name and np.array_equal(np.broadcast_to(A.minimum, A.shape), np.broadcast_to(B.minimum, B.shape))
                          and np.array_equal(np.broadcast_to(A.maximum, A.shape), np.broadcast_to(B.maximum, B.shape)))
            return {"inputs": {"a": repr(A), "b": repr(B)}, "native_outcome": outcome_kind(o) if o[0] == "exc" else repr(o[1]), "attributes_equal": bool(same_attrs),
                    "confirmed": o[0] == "exc" or not isinstance(o[1], (bool, np.bool_)) or bool(o[1]) != bool(same_attrs)}
        epaths = P.explore(lambda: a.replace() == a)
        R.total("replace().eq_self.total_never_raises", epaths, (), replay=rp_eq)
        R.ob("replace().eq_self.is_True", ret_cond(epaths, lambda r: P.truth(r)), replay=rp_eq)
        # -- equality against another spec of the same kind with independent symbolic bounds
        lo3, hi3 = E.arr("lo3", bshape, dt), E.arr("hi3", bshape, dt)
        c3 = [o[1] for pc, o in P.explore(lambda: specs.BoundedArray(shape, dt, lo3, hi3, name)) if o[0] == "ret"]
        bpaths = P.explore(lambda: specs.BoundedArray(shape, dt, lo3, hi3, name))
        for pcb, ob in bpaths:
            if ob[0] != "ret":
                continue
            b = ob[1]
            mk_b = lambda m: real_specs.BoundedArray(shape, dt, concrete(m, lo3), concrete(m, hi3), name)
            e1 = P.explore(lambda: a == b)
            e2 = P.explore(lambda: b == a)
            same = S.b_and(el_eq(lo, lo3, bshape), el_eq(hi, hi3, bshape))
            R.total("eq.total_never_raises", e1, (), replay=lambda m: rp_eq(m, mk_b))
            R.ob("eq.true_iff_bounds_equal", S.zbool(ret_cond(e1, lambda r: P.truth(r))) == S.zbool(same), extra=pcb, replay=lambda m: rp_eq(m, mk_b))
            R.ob("eq.symmetric", S.zbool(ret_cond(e1, lambda r: P.truth(r))) == S.zbool(ret_cond(e2, lambda r: P.truth(r))), extra=pcb,
                 replay=lambda m: rp_eq(m, mk_b))
            R.ob("canary.eq_always_true", ret_cond(e1, lambda r: P.truth(r)), extra=pcb, replay=lambda m: {**rp_eq(m, mk_b), "confirmed": True}) \
                if np.prod(bshape) > 0 or bshape == () else None
        # different name / dtype / shape are distinguished (concrete attributes)
        for tag, other in (("name", lambda: specs.BoundedArray(shape, dt, lo, hi, name + "2")),
                           ("dtype", lambda: specs.BoundedArray(shape, jnp.int16 if dt != jnp.int16 else jnp.int32, lo.astype(jnp.int16 if dt != jnp.int16 else jnp.int32),
                                                                hi.astype(jnp.int16 if dt != jnp.int16 else jnp.int32), name)),
                           ("shape", lambda: specs.BoundedArray(tuple(shape) + (2,), dt, lo[..., None] if bshape else lo, hi[..., None] if bshape else hi, name))):
            for pcb, ob in P.explore(other):
                if ob[0] != "ret":
                    continue
                e1 = P.explore(lambda: a == ob[1])
                R.total(f"eq.differs_in_{tag}.total", e1, ())
                R.ob(f"eq.differs_in_{tag}.is_False", S.b_not(ret_cond(e1, lambda r: P.truth(r))), extra=pcb)
        # -- pickling: __reduce__ rebuilds an equal spec
        red = a.__reduce__()
        ppaths = P.explore(lambda: red[0](*red[1]) == a)
        R.total("pickle.reduce_roundtrip.total", ppaths, (), replay=rp_eq)
        R.ob("pickle.reduce_roundtrip.equal", ret_cond(ppaths, lambda r: P.truth(r)), replay=rp_eq)
    ctx.assumptions.update(E.sym.uses)


def run_array(ctx, shape, dtype):
    from jumanji import specs as real_specs
    E = P.reset_engine()
    dt = jnp.dtype(dtype)
    R = Rec(ctx, f"Array[{shape},{dt.name}]")
    with shimmed() as specs:
        a = specs.Array(shape, dt, "x")
        for vs, vd, tag in ((shape, dt, "same"), (tuple(shape) + (1,), dt, "other_shape"), (shape, jnp.dtype(jnp.int16 if dt != jnp.int16 else jnp.int8), "other_dtype")):
            v = E.arr("v_" + tag, vs, vd)
            paths = P.explore(lambda: a.validate(v))
            R.complete(f"validate[{tag}].paths_complete", paths)
            R.ob(f"validate[{tag}].accepts_iff_shape_and_dtype", S.zbool(ret_cond(paths)) == z3.BoolVal(tag == "same"))
            R.total(f"validate[{tag}].rejects_with_ValueError_only", paths, (ValueError,))
        R.total("generate_value.is_accepted_by_validate", P.explore(lambda: a.validate(a.generate_value())), ())
        for kw_name, kw in (("none", {}), ("name", {"name": "y"}), ("dtype", {"dtype": jnp.int8}), ("shape", {"shape": (2, 2)})):
            b = a.replace(**kw)
            exp = {"shape": tuple(shape), "dtype": dt, "name": "x"}
            exp.update({k: (jnp.dtype(v) if k == "dtype" else v) for k, v in kw.items()})
            R.ob(f"replace[{kw_name}].only_named_attributes_change", type(b) is type(a) and b.shape == exp["shape"] and b.dtype == exp["dtype"] and b.name == exp["name"])
            R.ob(f"replace[{kw_name}].eq_self_iff_nothing_changed", (a == b) == (not kw or all(getattr(a, k) == exp[k] for k in kw)))
        red = a.__reduce__()
        R.ob("pickle.reduce_roundtrip.equal", (red[0](*red[1]) == a) is True)
        import pickle
        R.ob("pickle.real_roundtrip.equal", pickle.loads(pickle.dumps(real_specs.Array(shape, dt, "x"))) == real_specs.Array(shape, dt, "x"))


def run_multidiscrete(ctx, shape):
    from jumanji import specs as real_specs
    E = P.reset_engine()
    title = f"MultiDiscreteArray[{shape}]"
    R = Rec(ctx, title)
    nv = E.arr("nv", shape, jnp.int32)
    with shimmed() as specs:
        cpaths = P.explore(lambda: specs.MultiDiscreteArray(nv, jnp.int32, "a"))
        R.complete("ctor.paths_complete", cpaths)
        nonpos = False
        for i in np.ndindex(*shape):
            nonpos = S.b_or(nonpos, S.cmp("le", nv._el[i], 0, "i"))
        R.ob("ctor.raises_ValueError_iff_some_num_values_not_positive", S.zbool(exc_cond(cpaths, ValueError)) == S.zbool(nonpos))
        R.total("ctor.no_other_exception", cpaths, (ValueError,))
        ok = [(pc, o[1]) for pc, o in cpaths if o[0] == "ret"]
        if len(ok) != 1:
            ctx.errors.append({"title": title, "error": f"expected one accepting constructor path, got {len(ok)}"})
            return
        pc0, m = ok[0]
        E.base = list(pc0)
        v = E.arr("v", shape, jnp.int32)
        paths = P.explore(lambda: m.validate(v))
        R.complete("validate.paths_complete", paths)
        inr = True
        for i in np.ndindex(*shape):
            inr = S.b_and(inr, S.b_and(S.cmp("ge", v._el[i], 0, "i"), S.cmp("lt", v._el[i], nv._el[i], "i")))

        def rp_val(mod):
            spec = real_specs.MultiDiscreteArray(concrete(mod, nv), jnp.int32, "a")
            val = concrete(mod, v)
            o = native(lambda: spec.validate(val))
            exp = bool(np.all((np.asarray(val) >= 0) & (np.asarray(val) < np.asarray(spec.num_values))))
            return {"inputs": {"num_values": np.asarray(spec.num_values).tolist(), "value": np.asarray(val).tolist()}, "native_outcome": outcome_kind(o),
                    "confirmed": (outcome_kind(o) == "ret") != exp}
        R.ob("validate.accepts_iff_0_le_v_lt_num_values", S.zbool(ret_cond(paths)) == S.zbool(inr), replay=rp_val)
        R.total("validate.rejects_with_ValueError_only", paths, (ValueError,), replay=rp_val)
        R.ob("canary.validate_always_accepts", ret_cond(paths), replay=rp_val) if np.prod(shape) > 0 else None
        R.total("generate_value.is_accepted_by_validate", P.explore(lambda: m.validate(m.generate_value())), ())
        nv2 = E.arr("nw", shape, jnp.int32)
        for pc1, o1 in P.explore(lambda: specs.MultiDiscreteArray(nv2, jnp.int32, "a")):
            if o1[0] != "ret":
                continue
            m2 = o1[1]
            mk = lambda mod: (real_specs.MultiDiscreteArray(concrete(mod, nv), jnp.int32, "a"), real_specs.MultiDiscreteArray(concrete(mod, nv2), jnp.int32, "a"))

            def rp_eq(mod):
                A, B = mk(mod)
                o = native(lambda: A == B)
                return {"inputs": {"a": repr(A), "b": repr(B)}, "native_outcome": outcome_kind(o) if o[0] == "exc" else repr(o[1]),
                        "confirmed": o[0] == "exc" or bool(o[1]) != bool(np.array_equal(np.asarray(A.num_values), np.asarray(B.num_values)))}
            e1, e2 = P.explore(lambda: m == m2), P.explore(lambda: m2 == m)
            R.total("eq.total_never_raises", e1, (), replay=rp_eq)
            R.ob("eq.true_iff_num_values_equal", S.zbool(ret_cond(e1, lambda r: P.truth(r))) == S.zbool(el_eq(nv, nv2, shape)), extra=pc1, replay=rp_eq)
            R.ob("eq.symmetric", S.zbool(ret_cond(e1, lambda r: P.truth(r))) == S.zbool(ret_cond(e2, lambda r: P.truth(r))), extra=pc1, replay=rp_eq)
        # a different shape is distinguished and never raises
        for other_shape in ((shape[0] + 1,) + tuple(shape[1:]), tuple(shape) + (2,)) if shape else ((1,),):
            nv3 = E.arr("nu", other_shape, jnp.int32)
            for pc1, o1 in P.explore(lambda: specs.MultiDiscreteArray(nv3, jnp.int32, "a")):
                if o1[0] != "ret":
                    continue
                def rp_sh(mod, other_shape=other_shape):
                    A = real_specs.MultiDiscreteArray(concrete(mod, nv), jnp.int32, "a")
                    B = real_specs.MultiDiscreteArray(concrete(mod, nv3), jnp.int32, "a")
                    o = native(lambda: A == B)
                    return {"inputs": {"a": repr(A), "b": repr(B)}, "native_outcome": outcome_kind(o) if o[0] == "exc" else repr(o[1]),
                            "confirmed": o[0] == "exc" or bool(o[1])}
                e1 = P.explore(lambda: m == o1[1])
                R.total(f"eq.differs_in_shape{other_shape}.total_never_raises", e1, (), replay=rp_sh)
                R.ob(f"eq.differs_in_shape{other_shape}.is_False", S.b_not(ret_cond(e1, lambda r: P.truth(r))), extra=pc1, replay=rp_sh)
        red = m.__reduce__()
        pp = P.explore(lambda: red[0](*red[1]) == m)
        R.total("pickle.reduce_roundtrip.total", pp, ())
        R.ob("pickle.reduce_roundtrip.equal", ret_cond(pp, lambda r: P.truth(r)))
        rp = P.explore(lambda: m.replace() == m)
        R.total("replace().eq_self.total", rp, ())
        R.ob("replace().eq_self.is_True", ret_cond(rp, lambda r: P.truth(r)))


def run_discrete(ctx, n):
    from jumanji import specs as real_specs
    E = P.reset_engine()
    R = Rec(ctx, f"DiscreteArray[{n}]")
    with shimmed() as specs:
        d = specs.DiscreteArray(n, jnp.int32, "act")
        v = E.arr("v", (), jnp.int32)
        paths = P.explore(lambda: d.validate(v))
        R.complete("validate.paths_complete", paths)
        R.ob("validate.accepts_iff_0_le_v_lt_num_values", S.zbool(ret_cond(paths)) == z3.And(v._el[()] >= 0, v._el[()] < n))
        R.total("validate.rejects_with_ValueError_only", paths, (ValueError,))
        R.ob("canary.validate_always_accepts", ret_cond(paths), replay=lambda m: {"confirmed": True})
        for vs, vd, tag in (((1,), jnp.int32, "other_shape"), ((), jnp.int8, "other_dtype")):
            w = E.arr("w_" + tag, vs, vd)
            p2 = P.explore(lambda: d.validate(w))
            R.ob(f"validate[{tag}].always_rejects_with_ValueError", S.zbool(exc_cond(p2, ValueError)))
        R.total("generate_value.is_accepted_by_validate", P.explore(lambda: d.validate(d.generate_value())), ())
        R.ob("replace().eq_self", (d.replace() == d) is True)
        R.ob("replace[name].only_name_changes", d.replace(name="z").name == "z" and d.replace(name="z").num_values == n and d.replace(name="z").dtype == d.dtype)
        R.ob("replace[num_values].only_num_values_changes", d.replace(num_values=n + 1).num_values == n + 1 and d.replace(num_values=n + 1).name == "act")
        for tag, o, exp in (("same", specs.DiscreteArray(n, jnp.int32, "act"), True), ("num_values", specs.DiscreteArray(n + 1, jnp.int32, "act"), False),
                            ("dtype", specs.DiscreteArray(n, jnp.int8, "act"), False), ("name", specs.DiscreteArray(n, jnp.int32, "b"), False)):
            R.ob(f"eq[{tag}]", ((d == o) is exp) and ((o == d) is exp))
        for bad in (0, -1):
            o = native(lambda: specs.DiscreteArray(bad))
            R.ob(f"ctor.rejects_num_values_{bad}", o[0] == "exc" and isinstance(o[1], ValueError))
        red = d.__reduce__()
        R.ob("pickle.reduce_roundtrip.equal", (red[0](*red[1]) == d) is True)
        import pickle
        rd = real_specs.DiscreteArray(n, jnp.int32, "act")
        R.ob("pickle.real_roundtrip.equal", pickle.loads(pickle.dumps(rd)) == rd)


def run_nested(ctx, variant):
    """nested Spec trees (depth <= 2, mixed kinds, symbolic bounds and values): validate / generate_value / replace / == by structural recursion"""
    from typing import NamedTuple

    from jumanji import specs as real_specs

    class Inner(NamedTuple):
        p: object
        q: object

    class Outer(NamedTuple):
        a: object
        inner: object
        d: object

    E = P.reset_engine()
    R = Rec(ctx, f"Spec[nested:{variant}]")
    lo, hi = E.arr("lo", (2,), jnp.int32), E.arr("hi", (2,), jnp.int32)
    flo, fhi = E.arr("flo", (), jnp.float32), E.arr("fhi", (), jnp.float32)
    with shimmed() as specs:
        def build(lo_, hi_, flo_, fhi_, names=("x", "i", "o")):
            inner = specs.Spec(Inner, names[1], p=specs.BoundedArray((2,), jnp.int32, lo_, hi_, "p"), q=specs.Array((3,), jnp.float32, "q"))
            if variant == "flat":
                return specs.Spec(Inner, names[2], p=specs.BoundedArray((2,), jnp.int32, lo_, hi_, "p"), q=specs.BoundedArray((), jnp.float32, flo_, fhi_, "q"))
            return specs.Spec(Outer, names[2], a=specs.BoundedArray((), jnp.float32, flo_, fhi_, "a"), inner=inner, d=specs.DiscreteArray(3, jnp.int32, "d"))
        cp = [(pc, o[1]) for pc, o in P.explore(lambda: build(lo, hi, flo, fhi)) if o[0] == "ret"]
        if len(cp) != 1:
            ctx.errors.append({"title": R.title, "error": f"expected one accepting constructor path, got {len(cp)}"})
            return
        E.base = list(cp[0][0])
        sp = cp[0][1]
        # value
        vp, vq = E.arr("vp", (2,), jnp.int32), E.arr("vq", (3,), jnp.float32)
        va, vd, vqs = E.arr("va", (), jnp.float32), E.arr("vd", (), jnp.int32), E.arr("vqs", (), jnp.float32)
        if variant == "flat":
            val = Inner(p=vp, q=vqs)
            expect = S.b_and(all_in(vp, lo, hi, (2,)), all_in(vqs, flo, fhi, ()))
        else:
            val = Outer(a=va, inner=Inner(p=vp, q=vq), d=vd)
            expect = S.b_and(S.b_and(all_in(va, flo, fhi, ()), all_in(vp, lo, hi, (2,))), S.b_and(S.cmp("ge", vd._el[()], 0, "i"), S.cmp("le", vd._el[()], 2, "i")))
        paths = P.explore(lambda: sp.validate(val))
        R.complete("validate.paths_complete", paths)
        R.ob("validate.accepts_iff_every_leaf_is_within_its_spec", S.zbool(ret_cond(paths)) == S.zbool(expect))
        R.total("validate.rejects_with_ValueError_only", paths, (ValueError,))
        R.ob("canary.validate_always_accepts", ret_cond(paths), replay=lambda m: {"confirmed": True})
        R.ob("validate.returns_same_structure", all(type(o[1]) is type(val) for pc, o in paths if o[0] == "ret"))
        # wrong structure is rejected
        wrong = P.explore(lambda: sp.validate((vp, vq)))
        R.ob("validate.plain_tuple_is_rejected", all(o[0] == "exc" for _, o in wrong))
        # "validate accepts exactly the values whose STRUCTURE matches": a value with a field the spec does not declare, without a declared field,
        # or with a differently named field is rejected, at the top level and inside a nested child, whatever its leaves hold
        class InnerExtra(NamedTuple):
            p: object
            q: object
            extra: object

        class InnerMissing(NamedTuple):
            p: object

        class InnerRenamed(NamedTuple):
            p: object
            r: object

        class OuterExtra(NamedTuple):
            a: object
            inner: object
            d: object
            extra: object

        leaf_q = vqs if variant == "flat" else vq
        if variant == "flat":
            shapes = {"extra_field": InnerExtra(p=vp, q=leaf_q, extra=vp), "missing_field": InnerMissing(p=vp), "renamed_field": InnerRenamed(p=vp, r=leaf_q)}
        else:
            shapes = {"extra_field": OuterExtra(a=va, inner=Inner(p=vp, q=vq), d=vd, extra=vd),
                      "extra_field_in_nested_child": Outer(a=va, inner=InnerExtra(p=vp, q=vq, extra=vp), d=vd),
                      "missing_field_in_nested_child": Outer(a=va, inner=InnerMissing(p=vp), d=vd),
                      "renamed_field_in_nested_child": Outer(a=va, inner=InnerRenamed(p=vp, r=vq), d=vd)}
        for tag, bad_val in shapes.items():
            def rp_struct(m, _tag=tag, _bad=bad_val):
                # native replay on the real specs module: the same structure with in-range concrete leaves
                def conc(x):
                    if isinstance(x, tuple) and hasattr(x, "_fields"):
                        return type(x)(*[conc(y) for y in x])
                    return jnp.zeros(x.shape, x.dtype)
                rs = real_specs
                inner_r = rs.Spec(Inner, "i", p=rs.BoundedArray((2,), jnp.int32, -5, 5, "p"), q=rs.Array((3,), jnp.float32, "q"))
                spec_r = (rs.Spec(Inner, "o", p=rs.BoundedArray((2,), jnp.int32, -5, 5, "p"), q=rs.BoundedArray((), jnp.float32, -5.0, 5.0, "q")) if variant == "flat"
                          else rs.Spec(Outer, "o", a=rs.BoundedArray((), jnp.float32, -5.0, 5.0, "a"), inner=inner_r, d=rs.DiscreteArray(3, jnp.int32, "d")))
                o = native(lambda: spec_r.validate(conc(_bad)))
                return {"inputs": {"value_structure": repr(type(_bad).__name__) + " " + _tag, "leaves": "all zero (inside every bound)"},
                        "native_outcome": outcome_kind(o) if o[0] == "exc" else "accepted", "confirmed": o[0] != "exc"}
            wpaths = P.explore(lambda: sp.validate(bad_val))
            R.ob(f"validate.structure_mismatch.{tag}_is_rejected", all(o[0] == "exc" for _, o in wpaths), replay=rp_struct)
        g = P.explore(lambda: sp.validate(sp.generate_value()))
        R.total("generate_value.is_accepted_by_validate", g, ())
        # equality: total, reflexive, true iff children equal
        r0 = P.explore(lambda: sp.replace() == sp)
        R.total("replace().eq_self.total_never_raises", r0, ())
        R.ob("replace().eq_self.is_True", ret_cond(r0, lambda r: P.truth(r)))
        lo2, hi2 = E.arr("lo2", (2,), jnp.int32), E.arr("hi2", (2,), jnp.int32)
        for pcb, ob in P.explore(lambda: build(lo2, hi2, flo, fhi)):
            if ob[0] != "ret":
                continue
            e1 = P.explore(lambda: sp == ob[1])
            R.total("eq.total_never_raises", e1, ())
            R.ob("eq.true_iff_children_equal", S.zbool(ret_cond(e1, lambda r: P.truth(r))) == S.zbool(S.b_and(el_eq(lo, lo2, (2,)), el_eq(hi, hi2, (2,)))), extra=pcb)
        # different child key set: must be False, never raise
        other = specs.Spec(Inner, "o", p=specs.Array((2,), jnp.int32, "p"))
        third = specs.Spec(Inner, "o", z=specs.Array((2,), jnp.int32, "p"))

        def rp_keys(m):
            A = real_specs.Spec(Inner, "o", p=real_specs.Array((2,), jnp.int32, "p"))
            B = real_specs.Spec(Inner, "o", z=real_specs.Array((2,), jnp.int32, "p"))
            o = native(lambda: A == B)
            return {"inputs": {"a": "Spec(p=Array)", "b": "Spec(z=Array)"}, "native_outcome": outcome_kind(o) if o[0] == "exc" else repr(o[1]),
                    "confirmed": o[0] == "exc" or bool(o[1])}
        e3 = P.explore(lambda: other == third)
        R.total("eq.different_child_keys.total_never_raises", e3, (), replay=rp_keys)
        R.ob("eq.different_child_keys.is_False", S.b_not(ret_cond(e3, lambda r: P.truth(r))), replay=rp_keys)
        # children are matched by NAME: the keyword order in which a nested spec was built is irrelevant, and same-named children that differ make
        # the specs unequal even if the same child specs occur under swapped names
        cP = lambda: specs.BoundedArray((2,), jnp.int32, 0, 3, "p")   # (concrete children: a finite special case of the equality law)
        cQ = lambda: specs.Array((3,), jnp.float32, "q")
        s_pq = specs.Spec(Inner, "o", p=cP(), q=cQ())
        s_qp = specs.Spec(Inner, "o", q=cQ(), p=cP())
        s_swapped = specs.Spec(Inner, "o", q=cP(), p=cQ())

        def rp_order(m):
            rs = real_specs
            A = rs.Spec(Inner, "o", p=rs.BoundedArray((2,), jnp.int32, 0, 3, "p"), q=rs.Array((3,), jnp.float32, "q"))
            B = rs.Spec(Inner, "o", q=rs.Array((3,), jnp.float32, "q"), p=rs.BoundedArray((2,), jnp.int32, 0, 3, "p"))
            C = rs.Spec(Inner, "o", q=rs.BoundedArray((2,), jnp.int32, 0, 3, "p"), p=rs.Array((3,), jnp.float32, "q"))
            ab, ac = native(lambda: A == B), native(lambda: A == C)
            return {"inputs": {"A": "Spec(p=P, q=Q)", "B": "Spec(q=Q, p=P)", "C": "Spec(q=P, p=Q)"}, "native A==B": repr(ab[1]) if ab[0] == "ret" else outcome_kind(ab),
                    "native A==C": repr(ac[1]) if ac[0] == "ret" else outcome_kind(ac),
                    "confirmed": ab[0] != "ret" or not bool(ab[1]) or ac[0] != "ret" or bool(ac[1])}
        eo = P.explore(lambda: s_pq == s_qp)
        R.total("eq.keyword_order.total_never_raises", eo, (), replay=rp_order)
        R.ob("eq.keyword_order.same_children_in_another_order_are_equal", ret_cond(eo, lambda r: P.truth(r)), replay=rp_order)
        es = P.explore(lambda: s_pq == s_swapped)
        R.total("eq.swapped_children.total_never_raises", es, (), replay=rp_order)
        R.ob("eq.swapped_children.same_named_children_differ_so_unequal", S.b_not(ret_cond(es, lambda r: P.truth(r))), replay=rp_order)
        # replace(child=...) changes that child only
        newp = specs.Array((5,), jnp.int8, "newp")
        key = "p" if variant == "flat" else "d"
        for pc, o in P.explore(lambda: sp.replace(**{key: newp})):
            if o[0] != "ret":
                R.ob("replace[child].total", False, extra=pc)
                continue
            rp = o[1]
            R.ob("replace[child].only_that_child_changes", rp[key] is newp and set(rp._specs) == set(sp._specs) and rp.name == sp.name, extra=pc)
            for k_ in sp._specs:
                if k_ != key:
                    ek = P.explore(lambda: rp[k_] == sp[k_])
                    R.ob(f"replace[child].other_child_{k_}_unchanged", ret_cond(ek, lambda r: P.truth(r)), extra=pc)


def run_real_env_specs(ctx, name, cfg):
    """all clauses concretely on the real specs of an environment (finite: a concrete family) + conversions (bounded part: attributes)"""
    import pickle

    import dm_env.specs
    import gymnasium as gym

    from contracts import envs as E_
    from jumanji import specs
    env = E_.ALL()[name][cfg]()
    title = f"{name}@{cfg}.specs"
    allspecs = {"observation": env.observation_spec, "action": env.action_spec, "reward": env.reward_spec, "discount": env.discount_spec}
    n_eval = 0
    fails = []
    for sname, sp in allspecs.items():
        def chk(clause, thunk):
            nonlocal n_eval
            n_eval += 1
            o = native(thunk)
            ok = o[0] == "ret" and bool(o[1]) is True
            ctx.structural(f"{title}/{sname}.{clause}", ok, "native execution (finite: one concrete spec)", detail=None if ok else {"outcome": repr(o)[:300]},
                           witness=None if ok else {"spec": repr(sp)[:300], "outcome": repr(o[1])[:200]})
        chk("generate_value_is_valid", lambda: (sp.validate(sp.generate_value()), True)[1])
        chk("eq_reflexive_and_total", lambda: sp == sp)
        chk("replace_noarg_equal", lambda: sp.replace() == sp)
        chk("pickle_roundtrip_equal", lambda: pickle.loads(pickle.dumps(sp)) == sp)
        chk("fresh_instance_equal", lambda: getattr(E_.ALL()[name][cfg](), sname + "_spec") == sp)
        # conversions: attribute agreement (bounded part)
        def conv_ok():
            g = specs.jumanji_specs_to_gym_spaces(sp)
            d = specs.jumanji_specs_to_dm_env_specs(sp)
            return _conv_attrs(sp, g, d)
        chk("converted_gym_space_and_dm_env_spec_have_the_same_attributes", conv_ok)
        chk("generated_value_belongs_to_converted_gym_space", lambda: specs.jumanji_specs_to_gym_spaces(sp).contains(
            __import__("jumanji.wrappers", fromlist=["x"]).jumanji_to_gym_obs(sp.generate_value()) if not isinstance(sp, specs.Array) else np.asarray(sp.generate_value())))


def _conv_attrs(sp, g, d):
    import dm_env.specs
    import gymnasium as gym

    from jumanji import specs
    if isinstance(sp, specs.DiscreteArray):
        return isinstance(g, gym.spaces.Discrete) and int(g.n) == sp.num_values and isinstance(d, dm_env.specs.DiscreteArray) and d.num_values == sp.num_values \
            and d.dtype == sp.dtype
    if isinstance(sp, specs.MultiDiscreteArray):
        return isinstance(g, gym.spaces.MultiDiscrete) and np.array_equal(g.nvec, np.asarray(sp.num_values)) and isinstance(d, dm_env.specs.BoundedArray) \
            and d.shape == sp.shape and np.array_equal(np.broadcast_to(d.maximum, sp.shape), np.asarray(sp.num_values) - 1)
    if isinstance(sp, specs.BoundedArray):
        return isinstance(g, gym.spaces.Box) and g.shape == sp.shape and g.dtype == sp.dtype and np.array_equal(g.low, np.broadcast_to(sp.minimum, sp.shape)) \
            and np.array_equal(g.high, np.broadcast_to(sp.maximum, sp.shape)) and isinstance(d, dm_env.specs.BoundedArray) and d.shape == sp.shape \
            and d.dtype == sp.dtype and np.array_equal(np.broadcast_to(d.minimum, sp.shape), np.broadcast_to(sp.minimum, sp.shape)) \
            and np.array_equal(np.broadcast_to(d.maximum, sp.shape), np.broadcast_to(sp.maximum, sp.shape))
    if isinstance(sp, specs.Array):
        return isinstance(g, gym.spaces.Box) and g.shape == sp.shape and g.dtype == sp.dtype and isinstance(d, dm_env.specs.Array) and d.shape == sp.shape and d.dtype == sp.dtype
    return isinstance(g, gym.spaces.Dict) and set(g.spaces) == set(sp._specs) == set(d) and all(_conv_attrs(sp[k], g[k], d[k]) for k in sp._specs)


def run_special_values(ctx):
    """finite special-value obligations for float leaves (floats are reals in the symbolic part): NaN must be rejected"""
    from jumanji import specs
    for dt in (jnp.float32, jnp.float16):
        sp = specs.BoundedArray((2,), dt, 0.0, 1.0, "f")
        o = native(lambda: sp.validate(jnp.asarray([0.5, jnp.nan], dt)))
        ctx.structural(f"BoundedArray[(2,),{jnp.dtype(dt).name}].special/validate.rejects_NaN_leaf", o[0] == "exc" and isinstance(o[1], ValueError),
                       "native execution (finite special value)", detail={"outcome": outcome_kind(o)}, witness={"value": [0.5, "nan"], "bounds": [0.0, 1.0]})
        for v, exp in (([0.0, 1.0], True), ([0.0, 1.0009765625], False), ([-0.0009765625, 1.0], False), ([jnp.inf, 0.0], False)):
            o = native(lambda: sp.validate(jnp.asarray(v, dt)))
            ctx.structural(f"BoundedArray[(2,),{jnp.dtype(dt).name}].special/validate.boundary{v}", (o[0] == "ret") == exp, "native execution (finite special value)",
                           detail={"outcome": outcome_kind(o)}, witness={"value": [float(x) for x in v]})


SHAPES_Q = [(), (2,), (2, 2), (0,), (1, 3)]
SHAPES_T = SHAPES_Q + [(3,), (2, 0, 1), (2, 1, 2), (3, 3)]
DTYPES_Q = [jnp.int32, jnp.float32, jnp.int8]
DTYPES_T = DTYPES_Q + [jnp.uint8, jnp.int16, jnp.float16]


def tasks(tier):
    from contracts import envs as E_
    out = {}
    shapes = SHAPES_Q if tier == "quick" else SHAPES_T
    dtypes = DTYPES_Q if tier == "quick" else DTYPES_T
    for shape, dt in itertools.product(shapes, dtypes):
        for per in ((False, True) if shape != () else (False,)):
            if tier == "quick" and dt is not jnp.int32 and shape not in ((), (2,)):
                continue
            out[f"BoundedArray{shape}{jnp.dtype(dt).name}{'E' if per else 'S'}"] = (run_bounded, {"shape": shape, "dtype": dt, "per_element": per})
    for shape, dt in itertools.product(shapes, (jnp.int32, jnp.float32, jnp.bool_)):
        out[f"Array{shape}{jnp.dtype(dt).name}"] = (run_array, {"shape": shape, "dtype": dt})
    for shape in ((1,), (2,), (3,), (2, 2)) if tier == "quick" else ((1,), (2,), (3,), (2, 2), (2, 3), (4,)):
        out[f"MultiDiscreteArray{shape}"] = (run_multidiscrete, {"shape": shape})
    for n in (1, 2, 4):
        out[f"DiscreteArray{n}"] = (run_discrete, {"n": n})
    for variant in ("flat", "deep"):
        out[f"Spec:{variant}"] = (run_nested, {"variant": variant})
    out["special_values"] = (run_special_values, {})
    for name in E_.QUICK:
        cfg = E_.QUICK[name][0]
        out[f"envspecs:{name}@{cfg}"] = (run_real_env_specs, {"name": name, "cfg": cfg})
    return out


LEVEL_TEXT = ("Proof by path-complete symbolic execution of the real specs.py methods: for every structure of the enumerated family and ALL bounds / "
              "values / num_values, validate accepts exactly shape+dtype+inclusive-bounds members and raises ValueError otherwise; generate_value is "
              "accepted; replace changes only the named attributes and replace()==self; == is total, symmetric and true exactly when shape, dtype, "
              "(broadcast) bounds, num_values and name agree (hence an equivalence); __reduce__ rebuilds an equal spec; nested specs by structural "
              "recursion; all specs of the 23 environments are additionally run concretely through every clause.")
LEVEL_NOTE = ("Structure family enumerated (bound); floats are reals (NaN/Inf handled by finite special-value checks); membership in gym/dm_env "
              "converted spaces: attributes compared, third-party membership contract assumed (bounded part, not counted as proved).")
