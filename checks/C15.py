"""C15 — gym / dm_env / multi-to-single adapters relay the native episode faithfully.

* inner jitted closures of JumanjiToGymWrapper and MultiToSingleWrapper: Engine J over an abstract environment (uninterpreted step/reset);
* stateful Python methods (reset / step / seed of both adapters): executed on OPAQUE TOKENS (free term algebra): keys, states, observations,
  actions are objects without any operation, `jax.random.split` / `PRNGKey` / the jitted env functions are recording constructors, so the
  single concrete-structure run is a proof for all values (the code cannot inspect what it relays), for each enumerated call sequence;
* membership of observations / sampled actions in converted spaces: bounded stand-in (labelled, never counted as proved)."""
import jax
import jax.numpy as jnp
import numpy as np

from checks.C13 import leaves_eq
from contracts import absenv as A
from contracts import envs as E

LEVEL = "proof"
CONFIG_BOUND = ("signatures: 3 synthetic + real signatures of the environments; call sequences of the stateful adapters enumerated up to length 4 "
                "(reset/seed/step in every order); all key / state / observation / action VALUES unbounded (opaque)")
NOT_VERIFIED = ["gymnasium / dm_env library code", "float(reward) / bool(...) conversions of concrete arrays", "membership in converted spaces (bounded stand-in only)"]
ASSUMPTIONS = ["parametricity: code executed on opaque tokens (objects with no operations) behaves identically for every concrete value",
               "jax.jit(f) computes f (JAX meta-theory)", "gymnasium.spaces.*.contains / dm_env.specs.*.validate membership contract (bounded part)"]


class Tok:
    """opaque value: no operations, no __dict__"""
    __slots__ = ("name", "args", "truth")

    def __init__(self, name, *args, truth=None):
        self.name, self.args, self.truth = name, args, truth

    def __repr__(self):
        return f"{self.name}({', '.join(map(repr, self.args))})" if self.args else self.name

    def __eq__(self, o):
        return isinstance(o, Tok) and (self.name, self.args) == (o.name, o.args)

    def __hash__(self):
        return hash((self.name, self.args))

    def __bool__(self):
        if self.truth is None:
            raise TypeError("opaque token inspected")
        return self.truth

    def __float__(self):
        return float(hash(self) % 1000003)


def run_inner(ctx, sig, kind):
    """Engine J: the jitted closures of the gym wrapper and the MultiToSingleWrapper over an abstract environment"""
    from jumanji import specs, wrappers
    if kind == "synthetic":
        st, ts, a = A.synthetic()[sig]
    else:
        name, cfg = sig.split("@")
        st, ts, a = A.real_signature(E.ALL()[name][cfg]())

    class SpecEnv(A.AbsEnv):
        @property
        def observation_spec(self):
            return specs.Array((), jnp.float32)

        @property
        def action_spec(self):
            return specs.DiscreteArray(4)

    env = SpecEnv(st, ts, a)
    key = jnp.zeros((2,), jnp.uint32)
    scalar = jnp.ndim(ts.discount) == 0
    if scalar:
        gw = wrappers.JumanjiToGymWrapper(env)
        inner_step, inner_reset = gw._step.__wrapped__, gw._reset.__wrapped__

        def ens(s, act, k):
            s1, t1 = env.step(s, act)
            gs, gobs, grew, gterm, gtrunc, gextras = inner_step(s, act)
            out = {"C15.gym_terminated_iff_native_discount_is_zero": gterm == (t1.discount == 0),
                   "C15.gym_truncated_iff_native_step_is_LAST": gtrunc == (t1.step_type == 2)}
            out.update(leaves_eq("C15.gym_step_relays", (gs, gobs, grew, gextras), (s1, t1.observation, t1.reward, t1.extras)))
            s0, t0 = env.reset(k)
            out.update(leaves_eq("C15.gym_reset_relays", inner_reset(k), (s0, t0.observation, t0.extras)))
            out["canary.gym_never_terminated"] = ~gterm
            return out

        ctx.prove(f"JumanjiToGymWrapper.inner[{sig}]", (st, a, key), ens, targets=[wrappers.JumanjiToGymWrapper.__init__], use_stubs=False,
                  selfcheck=False, merge_over=8)
    else:
        # multi-agent: behind MultiToSingleWrapper, default aggregators (sum, max) and symbolic (uninterpreted) ones
        from jxv.stubs import uf_call
        for tag, (ar, ad) in {"defaults": (jnp.sum, jnp.max),
                              "custom": (lambda r: uf_call("agg_r", jnp.zeros((), jnp.float32), r), lambda d: uf_call("agg_d", jnp.zeros((), jnp.float32), d))}.items():
            mw = wrappers.MultiToSingleWrapper(env, ar, ad) if tag == "custom" else wrappers.MultiToSingleWrapper(env)

            def ens_m(s, act, k, mw=mw, ar=ar, ad=ad):
                s1, t1 = env.step(s, act)
                ms, mt = mw.step(s, act)
                out = {"C15.multi_reward_is_aggregated": mt.reward == ar(t1.reward), "C15.multi_discount_is_aggregated": mt.discount == ad(t1.discount)}
                out.update(leaves_eq("C15.multi_step_nothing_else_changed", (ms, mt.step_type, mt.observation, mt.extras), (s1, t1.step_type, t1.observation, t1.extras)))
                s0, t0 = env.reset(k)
                rs, rt = mw.reset(k)
                out["C15.multi_reset_reward_is_aggregated"] = rt.reward == ar(t0.reward)
                out["C15.multi_reset_discount_is_aggregated"] = rt.discount == ad(t0.discount)
                out.update(leaves_eq("C15.multi_reset_nothing_else_changed", (rs, rt.step_type, rt.observation, rt.extras), (s0, t0.step_type, t0.observation, t0.extras)))
                out["canary.multi_reward_is_first_agent"] = mt.reward == t1.reward[0]
                return out

            ctx.prove(f"MultiToSingleWrapper[{sig},{tag}]", (st, a, key), ens_m, targets=[wrappers.MultiToSingleWrapper.step, wrappers.MultiToSingleWrapper.reset,
                      wrappers.MultiToSingleWrapper._aggregate_timestep], use_stubs=False, selfcheck=False, merge_over=8)


# ---- stateful adapters on opaque tokens ------------------------------------------------------------------------------
def _patched(fn):
    """run fn with jax.random.split / PRNGKey (as seen by jumanji.wrappers) replaced by free constructors"""
    import jumanji.wrappers as W
    real_split, real_key = W.jax.random.split, W.jax.random.PRNGKey
    W.jax.random.split = lambda k, num=2: tuple(Tok("split", k, i) for i in range(num))
    W.jax.random.PRNGKey = lambda s: Tok("PRNGKey", s)
    try:
        return fn()
    finally:
        W.jax.random.split, W.jax.random.PRNGKey = real_split, real_key


def run_gym_stateful(ctx):
    import jumanji.wrappers as W
    from jumanji import specs
    from jumanji.types import TimeStep

    class Env0(A.AbsEnv):
        @property
        def observation_spec(self):
            return specs.Array((), jnp.float32)

    title = "JumanjiToGymWrapper.stateful"
    from jxv import core
    ctx.problems.append({"title": title, "engine": "P (opaque tokens)", "targets": [core.target_meta(t) for t in (W.JumanjiToGymWrapper.reset, W.JumanjiToGymWrapper.step,
                                                                                                                  W.JumanjiToGymWrapper.seed)]})

    def chk(clause, ok, detail=None):
        ctx.structural(f"{title}/{clause}", bool(ok), "symbolic execution on opaque tokens (free term algebra)", detail=detail, witness=detail if not ok else None)

    def make():
        w = _patched(lambda: W.JumanjiToGymWrapper(Env0(None, None, None), seed=Tok("seed0")))
        log = []
        obs_arr = {}

        def fake_reset(key):
            log.append(("reset", key))
            o = jnp.asarray(float(len(log)))  # a real array so that jumanji_to_gym_obs accepts it; its identity is tracked
            obs_arr[id(o)] = Tok("obs_of_reset", key)
            return Tok("state_of_reset", key), o, {"info": Tok("extras_of_reset", key)}

        def fake_step(state, action):
            log.append(("step", state, action))
            o = jnp.asarray(float(len(log)))
            return Tok("state_of_step", state), o, Tok("reward", state), Tok("term", state, truth=fake_step.term), Tok("trunc", state, truth=fake_step.trunc), \
                {"info": Tok("extras_of_step", state)}
        fake_step.term, fake_step.trunc = False, False
        w._reset, w._step = fake_reset, fake_step
        return w, log, fake_step

    # constructor
    w, log, fs = make()
    chk("ctor.key_is_PRNGKey_of_seed", w._key == Tok("PRNGKey", Tok("seed0")) and w._state is None)
    # seed(s): sets the key and nothing else
    before = {k: v for k, v in w.__dict__.items()}
    _patched(lambda: w.seed(Tok("s1")))
    changed = [k for k in w.__dict__ if w.__dict__[k] is not before.get(k)]
    chk("seed.sets_key_to_PRNGKey_of_seed_and_nothing_else", w._key == Tok("PRNGKey", Tok("s1")) and changed == ["_key"] and not log, {"changed": changed})
    # reset(): uses split(key)[0], stores split(key)[1]
    k0 = w._key
    obs, info = _patched(lambda: w.reset())
    chk("reset.calls_env_reset_with_first_half_of_split", log == [("reset", Tok("split", k0, 0))], {"log": repr(log)})
    chk("reset.stores_second_half_of_split_as_key", w._key == Tok("split", k0, 1))
    chk("reset.stores_the_returned_state", w._state == Tok("state_of_reset", Tok("split", k0, 0)))
    chk("reset.returns_converted_observation_and_extras", isinstance(obs, np.ndarray) and float(obs) == 1.0 and info == {"info": Tok("extras_of_reset", Tok("split", k0, 0))})
    # step(a)
    for term, trunc in ((False, False), (True, False), (False, True), (True, True)):
        fs.term, fs.trunc = term, trunc
        st0, key0 = w._state, w._key
        n0 = len(log)
        act = np.asarray(3)
        o, r, te, tr, inf = _patched(lambda: w.step(act))
        call = log[n0]
        chk(f"step[{term},{trunc}].calls_env_step_with_current_state_and_the_action", len(log) == n0 + 1 and call[0] == "step" and call[1] == st0 and int(call[2]) == 3)
        chk(f"step[{term},{trunc}].stores_next_state_keeps_key", w._state == Tok("state_of_step", st0) and w._key == key0)
        chk(f"step[{term},{trunc}].relays_reward_terminated_truncated_info", r == float(Tok("reward", st0)) and te is term and tr is trunc and inf == {"info": Tok("extras_of_step", st0)})
        chk(f"step[{term},{trunc}].returns_converted_observation", isinstance(o, np.ndarray) and float(o) == float(len(log)))
    # reset(seed=s) == seed(s); reset()   -- for EVERY seed value: the seed token answers bool() both ways (a seed may be 0);
    # correct code never asks (it tests `seed is not None`)
    for truth in (True, False):
        w1, log1, _ = make()
        w2, log2, _ = make()
        _patched(lambda: w1.reset())           # the key has already moved on
        _patched(lambda: w2.reset())
        sd = Tok("s9", truth=truth)
        _patched(lambda: w1.reset(seed=sd))
        _patched(lambda: (w2.seed(sd), w2.reset()))
        chk(f"reset_with_seed_equals_seed_then_reset[bool(seed)={truth}]", log1 == log2 and w1._key == w2._key and w1._state == w2._state,
            {"log_reset_with_seed": repr(log1), "log_seed_then_reset": repr(log2), "note": "a falsy seed (0) must re-seed like any other"})
    # re-seeding reproduces the same episode: every enumerated call sequence after seed(s) produces the same env calls and results twice
    import itertools
    ok_all, n = True, 0
    for seq in itertools.product(("reset", "step"), repeat=3):
        runs = []
        for _ in range(2):
            w3, log3, _ = make()
            outs = []
            _patched(lambda: w3.seed(Tok("S")))
            _patched(lambda: w3.reset())
            for j, op in enumerate(seq):
                outs.append(_patched(lambda: w3.reset()) if op == "reset" else _patched(lambda: w3.step(np.asarray(j))))
            runs.append((list(log3), w3._key, w3._state, repr([(type(x).__name__) for x in outs])))
        n += 1
        ok_all &= runs[0][0] == runs[1][0] and runs[0][1] == runs[1][1] and runs[0][2] == runs[1][2]
        # documented key schedule: seed, then one split per reset
        keys_used = [c[1] for c in runs[0][0] if c[0] == "reset"]
        k = Tok("PRNGKey", Tok("S"))
        want = []
        for _ in keys_used:
            want.append(Tok("split", k, 0))
            k = Tok("split", k, 1)
        ok_all &= keys_used == want
    chk("reseeding_reproduces_the_episode_and_follows_seed_then_one_split_per_reset[8 sequences]", ok_all, {"sequences": n})
    # ---- histories against the documented schedule (model): every call sequence over {reset, seed+reset, step with (terminated, truncated) in
    # {(F,F), (T,T), (F,T)}} up to length 4 after seed(S); reset(): exactly one native reset (one split) per reset(), exactly one native step on the
    # current state per step(a), whatever came before (a terminated step, several resets in a row, a re-seed)
    bad = None
    for L in range(1, 5):
        for seq in itertools.product(("reset", "reseed", "ff", "tt", "ft"), repeat=L):
            w4, log4, fs4 = make()
            _patched(lambda: w4.seed(Tok("S")))
            key, state, ml = Tok("PRNGKey", Tok("S")), None, []
            try:
                for j, op in enumerate(("reset",) + seq):
                    if op in ("reset", "reseed"):
                        if op == "reseed":
                            sd = Tok("S2", j, truth=bool(j % 2))
                            key = Tok("PRNGKey", sd)
                            _patched(lambda: w4.reset(seed=sd))
                        else:
                            _patched(lambda: w4.reset())
                        k = Tok("split", key, 0)
                        ml.append(("reset", k))
                        state, key = Tok("state_of_reset", k), Tok("split", key, 1)
                    else:
                        fs4.term, fs4.trunc = op[0] == "t", op[1] == "t"
                        o, r, te, tr, inf = _patched(lambda: w4.step(np.asarray(j)))
                        ml.append(("step", state, j))
                        relayed = r == float(Tok("reward", state)) and te is fs4.term and tr is fs4.trunc and inf == {"info": Tok("extras_of_step", state)}
                        state = Tok("state_of_step", state)
                        if not relayed:
                            bad = {"sequence": ["seed", "reset"] + list(seq), "call": j, "relayed": repr((r, te, tr, inf))}
                            break
                    got = [(c[0], c[1]) if c[0] == "reset" else (c[0], c[1], int(c[2])) for c in log4]
                    if not (got == ml and w4._key == key and w4._state == state):
                        bad = {"sequence": ["seed", "reset"] + list(seq), "diverges_at_call": j, "native_calls_made": repr(got), "native_calls_documented": repr(ml),
                               "key": repr(w4._key), "documented_key": repr(key)}
                        break
            except Exception as ex:
                bad = {"sequence": ["seed", "reset"] + list(seq), "raised": repr(ex)[:200]}
            if bad:
                break
        if bad:
            break
    chk("every_call_sequence_up_to_length_5_follows_the_documented_schedule[780 sequences]", bad is None, bad)


def run_dm_stateful(ctx):
    import dm_env

    import jumanji.wrappers as W
    from jumanji.types import TimeStep
    title = "JumanjiToDMEnvWrapper.stateful"
    from jxv import core
    ctx.problems.append({"title": title, "engine": "P (opaque tokens)", "targets": [core.target_meta(t) for t in (W.JumanjiToDMEnvWrapper.reset, W.JumanjiToDMEnvWrapper.step,
                                                                                                                  W.JumanjiToDMEnvWrapper.__init__)]})

    def chk(clause, ok, detail=None):
        ctx.structural(f"{title}/{clause}", bool(ok), "symbolic execution on opaque tokens (free term algebra)", detail=detail, witness=detail if not ok else None)

    env = A.AbsEnv(None, None, None)
    w = _patched(lambda: W.JumanjiToDMEnvWrapper(env, key=Tok("key0")))
    log = []

    def fake_reset(key):
        log.append(("reset", key))
        return Tok("state_of_reset", key), TimeStep(step_type=Tok("FIRST"), reward=Tok("r0"), discount=Tok("d0"), observation=Tok("obs_of_reset", key), extras=None)

    def fake_step(state, action):
        log.append(("step", state, action))
        return Tok("state_of_step", state), TimeStep(step_type=Tok("st", state), reward=Tok("rew", state), discount=Tok("disc", state),
                                                     observation=Tok("obs_of_step", state), extras=None)
    w._jitted_reset, w._jitted_step = fake_reset, fake_step
    ts = _patched(lambda: w.reset())
    chk("reset.first_timestep_has_no_reward_or_discount", ts.reward is None and ts.discount is None and ts.step_type == dm_env.StepType.FIRST)
    chk("reset.uses_first_half_of_split_and_stores_second", log == [("reset", Tok("split", Tok("key0"), 0))] and w._key == Tok("split", Tok("key0"), 1))
    chk("reset.relays_the_native_observation_and_stores_state", ts.observation == Tok("obs_of_reset", Tok("split", Tok("key0"), 0)) and w._state == Tok("state_of_reset", Tok("split", Tok("key0"), 0)))
    s0 = w._state
    t2 = _patched(lambda: w.step(Tok("a1")))
    chk("step.calls_env_step_with_state_and_action", log[-1] == ("step", s0, Tok("a1")))
    chk("step.relays_the_native_fields", (t2.step_type, t2.reward, t2.discount, t2.observation) == (Tok("st", s0), Tok("rew", s0), Tok("disc", s0), Tok("obs_of_step", s0)))
    chk("step.stores_next_state_keeps_key", w._state == Tok("state_of_step", s0) and w._key == Tok("split", Tok("key0"), 1))
    w0 = W.JumanjiToDMEnvWrapper(env)
    chk("ctor.default_key_is_PRNGKey_0", np.array_equal(np.asarray(w0._key), np.asarray(jax.random.PRNGKey(0))))

    # ---- histories: every call sequence over {reset, step whose native result is MID, step whose native result is LAST} up to length 4 after the
    # first reset is compared, call by call, with the documented schedule: one native reset (with one split of the key) per reset(), one native
    # step on the current state per step(a) - nothing more, nothing less, whatever happened before (a LAST step, several resets in a row ...).
    # step_type is a real int8 value here (the adapter may legitimately look at it; its three values are enumerated), everything else is opaque.
    import itertools
    from jumanji.types import StepType
    bad = None
    nseq = 0
    for L in range(1, 5):
        for seq in itertools.product(("reset", "mid", "last"), repeat=L):
            nseq += 1
            wl = []

            def freset(key):
                wl.append(("reset", key))
                return Tok("state_of_reset", key), TimeStep(step_type=StepType.FIRST, reward=Tok("r0"), discount=Tok("d0"), observation=Tok("obs_of_reset", key), extras=None)

            def fstep(state, action):
                wl.append(("step", state, action))
                return Tok("state_of_step", state, action), TimeStep(step_type=fstep.next_type, reward=Tok("rew", state, action), discount=Tok("disc", state, action),
                                                                     observation=Tok("obs_of_step", state, action), extras=None)
            ww = _patched(lambda: W.JumanjiToDMEnvWrapper(env, key=Tok("K")))
            ww._jitted_reset, ww._jitted_step = freset, fstep
            key, state, ml = Tok("K"), None, []

            def model(op, j):
                nonlocal key, state
                if op == "reset":
                    k = Tok("split", key, 0)
                    ml.append(("reset", k))
                    state, key = Tok("state_of_reset", k), Tok("split", key, 1)
                    return (dm_env.StepType.FIRST, None, None, Tok("obs_of_reset", k))
                a = Tok("a", j)
                ml.append(("step", state, a))
                out = (StepType.LAST if op == "last" else StepType.MID, Tok("rew", state, a), Tok("disc", state, a), Tok("obs_of_step", state, a))
                state = Tok("state_of_step", state, a)
                return out
            try:
                for j, op in enumerate(("reset",) + seq):
                    fstep.next_type = StepType.LAST if op == "last" else StepType.MID
                    got = _patched(lambda: ww.reset()) if op == "reset" else _patched(lambda: ww.step(Tok("a", j)))
                    want = model(op, j)
                    same = (int(got.step_type) == int(want[0])) and (got.reward is want[1] if want[1] is None else got.reward == want[1]) \
                        and (got.discount is want[2] if want[2] is None else got.discount == want[2]) and got.observation == want[3]
                    if not (same and wl == ml and ww._key == key and ww._state == state):
                        bad = {"sequence": ["reset"] + list(seq), "diverges_at_call": j, "native_calls_made": repr(wl), "native_calls_documented": repr(ml),
                               "returned": repr((got.step_type, got.reward, got.discount, got.observation)), "documented": repr(want)}
                        break
            except Exception as ex:
                bad = {"sequence": ["reset"] + list(seq), "raised": repr(ex)[:200]}
            if bad:
                break
        if bad:
            break
    chk("every_call_sequence_up_to_length_5_follows_the_documented_schedule[120 sequences]", bad is None, bad)


def run_obs_conversion(ctx, name, cfg):
    """jumanji_to_gym_obs is a structure-recursive copy; bounded: membership of observations / sampled actions in converted spaces"""
    import jumanji.wrappers as W
    from jumanji import specs
    env = E.ALL()[name][cfg]()
    title = f"adapters[{name}@{cfg}]"
    from jxv import core
    ctx.problems.append({"title": title, "engine": "native", "targets": [core.target_meta(W.jumanji_to_gym_obs)]})
    state, ts = jax.jit(env.reset)(jax.random.PRNGKey(ctx.seed))   # the adapters always go through the jitted functions
    g = W.jumanji_to_gym_obs(ts.observation)

    def same(o, gg):
        if isinstance(o, jnp.ndarray):
            return isinstance(gg, np.ndarray) and gg.dtype == o.dtype and np.array_equal(np.asarray(o), gg)
        d = vars(o) if hasattr(o, "__dict__") else o._asdict()
        return isinstance(gg, dict) and set(gg) == set(d) and all(same(d[k], gg[k]) for k in d)
    ctx.structural(f"{title}/C15.gym_obs_is_a_structure_preserving_copy", same(ts.observation, g), "native execution (structure enumerated; leaves only pass through np.asarray)")
    # bounded stand-in
    n, fails, wit = 0, 0, None
    genv = W.JumanjiToGymWrapper(W.MultiToSingleWrapper(env) if jnp.ndim(ts.reward) > 0 else env, seed=ctx.seed)
    for ep in range(2):
        obs, info = genv.reset()
        for t in range(4):
            n += 1
            if not genv.observation_space.contains(obs):
                fails += 1
                wit = wit or {"what": "observation not in converted space", "episode": ep, "t": t}
            act = genv.action_space.sample()
            try:
                env.action_spec.validate(jnp.asarray(act, env.action_spec.dtype))
            except Exception as ex:
                fails += 1
                wit = wit or {"what": "sampled gym action rejected by the native spec", "action": np.asarray(act).tolist(), "error": repr(ex)[:100]}
            obs, r, term, trunc, info = genv.step(act)
            if term or trunc:
                break
    ctx.bounded_check(f"{title}/membership_in_converted_spaces", n, fails, "2 episodes x <=4 steps, seed VERIF_SEED", wit)


def tasks(tier):
    out = {}
    for sig in A.synthetic():
        out[f"inner:syn:{sig}"] = (run_inner, {"sig": sig, "kind": "synthetic"})
    for name in E.QUICK:
        cfg = E.QUICK[name][0]
        if tier == "quick" and name in ("PacMan", "MMST", "Sudoku", "Sokoban"):
            continue
        out[f"inner:{name}@{cfg}"] = (run_inner, {"sig": f"{name}@{cfg}", "kind": "real"})
    out["gym_stateful"] = (run_gym_stateful, {})
    out["dm_stateful"] = (run_dm_stateful, {})
    for name in E.QUICK:
        cfg = E.QUICK[name][0]
        out[f"obs:{name}@{cfg}"] = (run_obs_conversion, {"name": name, "cfg": cfg})
    return out


LEVEL_TEXT = ("Proof: (1) over an abstract environment the gym wrapper's jitted step/reset closures relay state, observation, reward and extras unchanged and "
              "compute terminated = (discount == 0), truncated = (step is LAST); MultiToSingleWrapper returns the aggregated reward/discount (defaults sum/max "
              "and arbitrary uninterpreted aggregators) and nothing else changed; (2) the stateful reset/step/seed methods of the gym and dm_env adapters, executed "
              "on opaque tokens with split/PRNGKey as free constructors, follow the documented key schedule (seed, then one split per reset: first half used, second "
              "stored), touch only _key/_state, relay all fields, dm_env's first timestep has no reward/discount, reset(seed=s) = seed(s);reset(), and re-seeding "
              "reproduces every enumerated call sequence.")
LEVEL_NOTE = ("environment abstract (uninterpreted) / values opaque (parametricity); every call sequence up to length 5 over {reset, re-seed, step->MID, step->LAST/terminated} compared with a model of the documented key schedule (120 / 780 sequences); membership in converted gym/dm_env "
              "spaces only as a bounded stand-in (never counted); gym/dm_env library code trusted.")
