"""C09 — Transitions follow the published rules (reference-model agreement).  Driver over the per-environment sidecar contracts (contracts/<env>.py): keeps the clauses named C09.*"""
from jxv import envdriver

LEVEL = "proof"
CONFIG_BOUND = "configurations listed in contracts/envs.py or in the contract module itself (small and adversarial: non-square, minimum sizes, >1 agents); values unbounded"
NOT_VERIFIED = ["environments / clauses for which no C09 clause is present in the contract module (the evidence lists, per task, which clauses were discharged)",
                "configurations outside the list"]
ASSUMPTIONS = ["sampler contracts of jax.random (DESIGN.md section 5)", "induction over the episode from the per-step obligations (reset establishes Inv, step preserves it)"]


def tasks(tier):
    return envdriver.tasks("C09", tier)


LEVEL_TEXT = ('Proof: per environment a pure specification of the rules (spec_step, written independently of the implementation, per-cell case analysis); for every listed configuration, ALL invariant states and in-spec actions (sampler outcomes shared as fresh symbols), successor state, reward and termination flag of the real step equal the specification field by field; key function-level contracts (2048 row merge for all rows, Tetris drop / line clearing, Minesweeper counts, FlatPack rotations) are proved on the functions themselves.')
LEVEL_NOTE = ('spec functions live in contracts/<env>.py; per-configuration; loops unwound completely with unwinding assertions; floats as reals.')
