from jxv import envdriver


def tasks(tier):
    return envdriver.tasks("C09", tier)


LEVEL_TEXT = "wip"
LEVEL_NOTE = "wip"
