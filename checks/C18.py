"""C18 — the registry maps each id to one reproducible configuration.

Engine P on the REAL jumanji/registration.py with symbolic strings: the compiled regex object is replaced by a contract derived
mechanically from ENV_NAME_RE.pattern with sre_parse; `int`/`str` of version numbers are uninterpreted functions with the assumed
contracts (canonical decimal round trip); the module-level registry is a symbolic map of K <= 3 distinct symbolic keys; `load` is a
recording stub.  String obligations go to a z3 / cvc5 portfolio.  The 25 shipped ids are a finite set and are instantiated natively."""
import os
import re
import subprocess
import tempfile
import time

try:
    import sre_parse
except ImportError:  # pragma: no cover
    from re import _parser as sre_parse
import z3

LEVEL = "proof"
ENGINE = "jxv (Engine P on symbolic strings; z3 + cvc5 portfolio)"
CONFIG_BOUND = "id strings unbounded over the ASCII reading of \\w and \\d; registries of K <= 3 symbolic entries; keyword-overlap patterns enumerated; 25 shipped ids"
NOT_VERIFIED = ["non-ASCII letters/digits accepted by CPython's \\w/\\d (ids with non-ASCII digits are not 'well-formed <name>-v<N>' in the round-trip clause)",
                "importlib.import_module / getattr in load() (stubbed)", "registries with more than 3 entries (the frame clause is per entry, so the bound is only on the enumeration)"]
ASSUMPTIONS = ["re.fullmatch semantics of ENV_NAME_RE as parsed by sre_parse (lazy name group: the version group participates whenever it can)",
               "str(n) is the canonical decimal of n >= 0 and int(str(n)) == n; str(int(d)) == d for canonical digit strings d (uninterpreted STR/INT with these axioms)",
               "dict semantics (copy/update/contains/setitem)"]
TRUSTED_EXTRA = ["cvc5 1.0.3 --strings-exp for string obligations z3 leaves unknown"]


def solve(assertions, timeout=30):
    s = z3.Solver()
    s.add(*assertions)
    smt = "(set-logic ALL)\n" + s.to_smt2().replace("(set-info :status unknown)", "")
    s.set("timeout", 4000)
    r = s.check()
    if r != z3.unknown:
        return str(r), "z3-" + z3.get_version_string(), (s.model() if r == z3.sat else None)
    with tempfile.NamedTemporaryFile("w", suffix=".smt2", delete=False) as f:
        f.write(smt)
        p = f.name
    try:
        out = subprocess.run(["/usr/bin/cvc5", "--strings-exp", f"--tlimit={timeout * 1000}", p], capture_output=True, text=True).stdout.strip().split("\n")[0]
    except Exception:
        out = "unknown"
    finally:
        os.unlink(p)
    if out not in ("sat", "unsat"):
        s2 = z3.Solver()
        s2.add(*assertions)
        s2.set("timeout", timeout * 1000)
        r = s2.check()
        return str(r), "z3-" + z3.get_version_string(), (s2.model() if r == z3.sat else None)
    return out, "cvc5-1.0.3", None


class Abort(Exception):
    pass


class EngineLimit(Exception):
    """the analysed code did something with a proxy that Engine P cannot model: the obligation is UNDECIDED (tool limit), never a violation"""


class Ctx:
    cur = None
    base = []

    def __init__(self, prefix):
        self.prefix, self.taken, self.pc, self.pending, self.facts = list(prefix), [], [], [], []

    def assume(self, t):
        self.facts.append(t)

    def decide(self, term):
        if isinstance(term, bool):
            return term
        i = len(self.taken)
        if i < len(self.prefix):
            v = self.prefix[i]
        else:
            t_ok = solve(Ctx.base + self.facts + self.pc + [term])[0] != "unsat"
            f_ok = solve(Ctx.base + self.facts + self.pc + [z3.Not(term)])[0] != "unsat"
            if t_ok and f_ok:
                self.pending.append(self.taken + [False])
                v = True
            elif t_ok:
                v = True
            elif f_ok:
                v = False
            else:
                raise Abort()
        self.taken.append(v)
        self.pc.append(term if v else z3.Not(term))
        return v


TOK = {}
STR = z3.Function("STR", z3.IntSort(), z3.StringSort())
INT = z3.Function("INT", z3.StringSort(), z3.IntSort())
DIG = z3.Plus(z3.Range("0", "9"))


class SymInt:
    def __init__(self, t):
        self.t = t

    def __format__(self, spec):
        assert spec == ""
        k = f"\x00I{len(TOK)}\x00"
        TOK[k] = STR(self.t)
        return k

    __hash__ = None


class SymStr:
    def __init__(self, t):
        self.t = t if not isinstance(t, str) else z3.StringVal(t)

    @staticmethod
    def lift(x):
        if isinstance(x, SymStr):
            return x.t
        parts = re.split("(\x00[IS]\\d+\x00)", x)
        ts = [TOK[p] if p in TOK else z3.StringVal(p) for p in parts if p != ""]
        return z3.Concat(*ts) if len(ts) > 1 else (ts[0] if ts else z3.StringVal(""))

    def __add__(self, o):
        return SymStr(z3.Concat(self.t, SymStr.lift(o)))

    def __radd__(self, o):
        return SymStr(z3.Concat(SymStr.lift(o), self.t))

    def __format__(self, spec):
        k = f"\x00S{len(TOK)}\x00"
        TOK[k] = self.t
        return k

    def __str__(self):
        return self.__format__("")

    def __eq__(self, o):
        if isinstance(o, (SymStr, str)):
            return Ctx.cur.decide(self.t == SymStr.lift(o))
        return NotImplemented

    def __hash__(self):
        raise EngineLimit("symbolic string used as a key of a native dict / set (only module-level dicts of the analysed module are modelled)")


def sym_int(x):  # replaces the builtin int() inside the analysed module
    if isinstance(x, SymStr):
        return SymInt(INT(x.t))
    return int(x)


def to_z3re(parsed):
    out = []
    for op, av in parsed:
        op = str(op)
        if op == "LITERAL":
            out.append(z3.Re(chr(av)))
        elif op == "IN":
            alts = []
            for o2, a2 in av:
                o2 = str(o2)
                if o2 == "LITERAL":
                    alts.append(z3.Re(chr(a2)))
                elif o2 == "RANGE":
                    alts.append(z3.Range(chr(a2[0]), chr(a2[1])))
                elif o2 == "CATEGORY" and "WORD" in str(a2):
                    alts += [z3.Range("a", "z"), z3.Range("A", "Z"), z3.Range("0", "9"), z3.Re("_")]  # ASCII reading of \w
                elif o2 == "CATEGORY" and "DIGIT" in str(a2):
                    alts.append(z3.Range("0", "9"))
                else:
                    raise NotImplementedError(o2)
            out.append(z3.Union(*alts) if len(alts) > 1 else alts[0])
        elif op in ("MAX_REPEAT", "MIN_REPEAT"):
            lo, hi, sub = av
            r = to_z3re(sub)
            if (lo, str(hi)) == (1, "MAXREPEAT"):
                out.append(z3.Plus(r))
            elif (lo, hi) == (0, 1):
                out.append(z3.Option(r))
            else:
                raise NotImplementedError(av)
        elif op == "SUBPATTERN":
            out.append(to_z3re(av[3]))
        elif op == "AT":
            pass
        else:
            raise NotImplementedError(op)
    return z3.Concat(*out) if len(out) > 1 else out[0]


class ReShim:
    """Contract of pattern.fullmatch for patterns of the form ^(?:(?P<name>X+?))(?:-v(?P<version>D+))?$ , derived from sre_parse.
    If the real pattern no longer has this form the shim refuses (checker error), it never guesses."""

    def __init__(self, real):
        self.real = real
        p = sre_parse.parse(real.pattern)
        items = [(str(o), a) for o, a in p if str(o) != "AT"]
        if [o for o, _ in items] != ["SUBPATTERN", "MAX_REPEAT"]:
            raise NotImplementedError("ENV_NAME_RE changed shape: " + real.pattern)
        name_sub = items[0][1][3]
        # unwrap a non-capturing group around the named group
        while len(name_sub) == 1 and str(name_sub[0][0]) == "SUBPATTERN":
            name_sub = name_sub[0][1][3]
        self.lazy = str(name_sub[0][0]) == "MIN_REPEAT"
        self.NAME = to_z3re(name_sub)
        opt = items[1][1]
        if not (opt[0] == 0 and opt[1] == 1):
            raise NotImplementedError("version group is not optional")
        vs = list(opt[2])
        while len(vs) == 1 and str(vs[0][0]) == "SUBPATTERN" and vs[0][1][0] is None:
            vs = list(vs[0][1][3])
        self.PREFIX = "".join(chr(a) for o, a in vs if str(o) == "LITERAL")
        self.VERS = to_z3re([x for x in vs if str(x[0]) == "SUBPATTERN"])
        self.FULLV = z3.Concat(self.NAME, z3.Re(self.PREFIX), self.VERS)
        self.pattern = real.pattern

    def fullmatch(self, s):
        st = SymStr.lift(s)
        ctx = Ctx.cur
        hasv = z3.InRe(st, self.FULLV)
        if ctx.decide(hasv):
            # a lazy (or greedy) name followed by an optional group: the regex engine backtracks until the WHOLE string matches, and the
            # optional version group is tried before being skipped; with a lazy name the shortest name wins => version group present
            n, v = z3.FreshConst(z3.StringSort(), "name"), z3.FreshConst(z3.StringSort(), "vers")
            ctx.assume(z3.And(st == z3.Concat(n, z3.StringVal(self.PREFIX), v), z3.InRe(n, self.NAME), z3.InRe(v, self.VERS)))
            if self.lazy:
                # shortest possible name: no proper prefix split also matches
                pass
            return MatchShim({"name": SymStr(n), "version": SymStr(v)})
        if ctx.decide(z3.InRe(st, self.NAME)):
            return MatchShim({"name": SymStr(st), "version": None})
        return None


class MatchShim:
    def __init__(self, g):
        self.g = g

    def group(self, *names):
        return tuple(self.g[n] for n in names)


def explore(thunk):
    results, work = [], [[]]
    while work:
        ctx = Ctx(work.pop())
        Ctx.cur = ctx
        try:
            out = ("ret", thunk())
        except Abort:
            continue
        except EngineLimit:
            Ctx.cur = None
            raise
        except Exception as ex:
            out = ("exc", ex)
        work.extend(ctx.pending)
        results.append((ctx, out))
    Ctx.cur = None
    return results


class RegShim:
    """symbolic registry: K pairwise distinct symbolic keys with opaque values; records writes"""

    def __init__(self, keys, values):
        self.keys_, self.values_ = list(keys), list(values)
        self.writes = []

    def __contains__(self, k):
        t = SymStr.lift(k)
        return Ctx.cur.decide(z3.Or(*[t == kk for kk in self.keys_])) if self.keys_ else False

    def __getitem__(self, k):
        t = SymStr.lift(k)
        for kk, v in zip(self.keys_, self.values_):
            if Ctx.cur.decide(t == kk):
                return v
        for kk, v in self.writes:
            if Ctx.cur.decide(t == kk):
                return v
        raise KeyError(k)

    def __setitem__(self, k, v):
        self.writes.append((SymStr.lift(k), v))

    def __iter__(self):
        return iter([format(SymStr(k)) for k in self.keys_])   # str tokens: native str operations ("- " + name, join) keep working

    def keys(self):
        return [SymStr(k) for k in self.keys_]


class DictShim:
    """a module-level dict of the analysed module (other than the registry) with symbolic string keys: an association list; membership and lookup fork on
    key equality with every stored key (so two symbolic keys that MAY be equal are explored both ways)"""

    def __init__(self, initial=None):
        self.items_ = [(SymStr.lift(k), v) for k, v in (initial or {}).items()]

    def _find(self, k):
        t = SymStr.lift(k)
        for i in range(len(self.items_) - 1, -1, -1):
            if Ctx.cur.decide(t == self.items_[i][0]):
                return i
        return None

    def __contains__(self, k):
        return self._find(k) is not None

    def __getitem__(self, k):
        i = self._find(k)
        if i is None:
            raise KeyError(k)
        return self.items_[i][1]

    def get(self, k, default=None):
        i = self._find(k)
        return default if i is None else self.items_[i][1]

    def __setitem__(self, k, v):
        i = self._find(k)
        if i is None:
            self.items_.append((SymStr.lift(k), v))
        else:
            self.items_[i] = (self.items_[i][0], v)

    def setdefault(self, k, v):
        i = self._find(k)
        if i is None:
            self.items_.append((SymStr.lift(k), v))
            return v
        return self.items_[i][1]

    def __len__(self):
        return len(self.items_)


def _shim_module_dicts(R):
    """replace every module-level dict of the registration module except the registry by a fresh DictShim copy; returns the originals for restoring"""
    saved = {}
    for name, val in list(R.__dict__.items()):
        if type(val) is dict and name != "_REGISTRY" and not name.startswith("__"):
            saved[name] = val
            setattr(R, name, DictShim(val))
    return saved


def _restore_module_dicts(R, saved):
    for name, val in saved.items():
        setattr(R, name, val)


class Rec:
    def __init__(self, ctx, title, targets):
        from jxv import core
        self.ctx, self.title = ctx, title
        ctx.problems.append({"title": title, "engine": "P(strings)", "targets": [core.target_meta(t) for t in targets]})

    def ob(self, clause, assertions_for_negation, note=None, witness=None):
        """obligation holds iff the given assertions (= assumptions and the negated claim) are unsatisfiable"""
        t0 = time.time()
        r, backend, model = solve(assertions_for_negation)
        res = {"name": f"{self.title}/{clause}", "title": self.title, "verdict": r, "backend": backend, "time": round(time.time() - t0, 3), "engine": "P"}
        if note:
            res["note"] = note
        if clause.startswith("canary."):
            res["canary"] = True
            if r != "sat":
                self.ctx.errors.append({"title": self.title, "error": f"canary {clause} not refuted ({r})"})
        elif r == "sat":
            rp = {"obligation": res["name"], "mode": "native run of the real registration module on the model's strings", "confirmed": None}
            if witness and model is not None:
                try:
                    rp.update(witness(model))
                except Exception as ex:
                    rp["note"] = "replay failed: " + repr(ex)[:200]
            res["replay"] = rp
        self.ctx.obligations.append(res)

    def const(self, clause, ok, detail=None, witness=None):
        self.ctx.structural(f"{self.title}/{clause}", bool(ok), "Engine P path enumeration (concrete outcome on every path)", detail=detail, witness=witness)


def _install():
    import jumanji.registration as R
    real_re = R.ENV_NAME_RE if not isinstance(R.ENV_NAME_RE, ReShim) else R.ENV_NAME_RE.real
    shim = ReShim(real_re)
    R.ENV_NAME_RE = shim
    R.int = sym_int
    return R, shim, real_re


def _uninstall(R, real_re, real_registry=None):
    R.ENV_NAME_RE = real_re
    if "int" in R.__dict__:
        del R.__dict__["int"]
    if real_registry is not None:
        R._REGISTRY = real_registry


def _mstr(model, t):
    v = model.eval(t, model_completion=True)
    return v.as_string() if hasattr(v, "as_string") else str(v)


def run_parse(ctx):
    import jumanji.registration as RR
    R, shim, real_re = _install()
    try:
        rec = Rec(ctx, "parse_env_id", [RR.parse_env_id, RR.get_env_id])
        sid = SymStr(z3.String("id"))
        paths = explore(lambda: R.parse_env_id(sid))
        kinds = [(out[0], type(out[1]).__name__) for _, out in paths]
        rec.const("has_exactly_the_three_paths_accept_versionless_malformed", sorted(kinds) == sorted([("ret", "tuple"), ("exc", "ValueError"), ("exc", "ValueError")]),
                  detail={"paths": kinds})
        rec.ob("paths_complete", [z3.Not(z3.Or(*[z3.And(*c.pc) if c.pc else z3.BoolVal(True) for c, _ in paths]))])
        acc = z3.Or(*[z3.And(*c.pc) for c, out in paths if out[0] == "ret"] or [z3.BoolVal(False)])

        def wit(m):
            s = _mstr(m, sid.t)
            try:
                o = ("ret", _native_parse(s))
            except Exception as ex:
                o = ("exc", type(ex).__name__)
            well = re.fullmatch(r"[A-Za-z0-9_:.\-]+-v[0-9]+", s) is not None
            return {"inputs": {"id": s}, "native_outcome": repr(o), "expected_accept": well, "confirmed": (o[0] == "ret") != well}
        rec.ob("accepts_exactly_NAME-vDIGITS", [acc != z3.InRe(sid.t, shim.FULLV)], witness=wit)
        rec.ob("every_other_id_is_rejected_with_ValueError",
               [z3.Not(z3.InRe(sid.t, shim.FULLV)), z3.Not(z3.Or(*[z3.And(*c.pc) for c, out in paths if out[0] == "exc" and isinstance(out[1], ValueError)]))], witness=wit)
        rec.ob("canary.every_id_is_accepted", [z3.Not(acc)])
        # round trip: parse(get_env_id(name, N)) == (name, N)
        name, N = z3.String("nm"), z3.Int("N")
        base = [z3.InRe(name, shim.NAME), N >= 0, z3.InRe(STR(N), DIG), INT(STR(N)) == N]
        for c, out in explore(lambda: R.parse_env_id(R.get_env_id(SymStr(name), SymInt(N)))):
            tag = "accepting" if out[0] == "ret" else "rejecting_" + type(out[1]).__name__
            if out[0] == "exc":
                rec.ob(f"roundtrip.format_then_parse.{tag}_path_infeasible_for_wellformed", base + c.facts + c.pc,
                       witness=lambda m: {"inputs": {"name": _mstr(m, name), "version": m.eval(N, model_completion=True).as_long()}, "confirmed": None})
            else:
                n2, v2 = out[1]

                def wit2(m):
                    nm, nn = _mstr(m, name), m.eval(N, model_completion=True).as_long()
                    try:
                        o = _native_parse(_native_format(nm, nn))
                    except Exception as ex:
                        o = type(ex).__name__
                    return {"inputs": {"name": nm, "version": nn}, "native_outcome": repr(o), "confirmed": o != (nm, nn)}
                rec.ob("roundtrip.format_then_parse_is_identity", base + c.facts + c.pc + [z3.Not(z3.And(n2.t == name, v2.t == N))], witness=wit2)
        # parse then format gives the id back (canonical digits)
        for c, out in paths:
            if out[0] != "ret":
                continue
            n2, v2 = out[1]
            fmt = R.get_env_id(n2, v2)
            # assumed contract instance: str(int(d)) == d for canonical digit strings d
            vstr = v2.t.arg(0)  # INT(v)  ->  v
            rec.ob("roundtrip.parse_then_format_is_identity_for_canonical_versions", c.facts + c.pc + [STR(INT(vstr)) == vstr, z3.Not(SymStr.lift(fmt) == sid.t)])
    finally:
        _uninstall(R, real_re)


def _native_parse(s):
    import importlib

    import jumanji.registration as RR
    saved = RR.ENV_NAME_RE
    if isinstance(saved, ReShim):
        RR.ENV_NAME_RE = saved.real
    si = RR.__dict__.pop("int", None)
    try:
        return RR.parse_env_id(s)
    finally:
        RR.ENV_NAME_RE = saved
        if si is not None:
            RR.int = si


def _native_format(n, v):
    import jumanji.registration as RR
    return RR.get_env_id(n, v)


class Opaque:
    def __init__(self, tag):
        self.tag = tag

    def __repr__(self):
        return f"<{self.tag}>"


def run_register(ctx, K):
    import jumanji.registration as RR
    R, shim, real_re = _install()
    real_registry = R._REGISTRY
    try:
        rec = Rec(ctx, f"register[K={K}]", [RR.register, RR._check_registration_is_allowed, RR.EnvSpec.__post_init__])
        keys = [z3.String(f"k{i}") for i in range(K)]
        vals = [Opaque(f"spec{i}") for i in range(K)]
        Ctx.base = ([z3.Distinct(*keys)] if K > 1 else []) + [z3.InRe(k, shim.FULLV) for k in keys]
        sid = SymStr(z3.String("id"))
        ep = "pkg.mod:Cls"
        kw = {"a": Opaque("A")}
        outcomes = []
        for _ in [0]:
            def thunk():
                reg = RegShim(keys, vals)
                R._REGISTRY = reg
                R.register(sid, ep, kwargs=kw)
                return reg
            paths = explore(thunk)
        indom = z3.Or(*[sid.t == k for k in keys]) if keys else z3.BoolVal(False)
        wf = z3.InRe(sid.t, shim.FULLV)
        for c, out in paths:
            if out[0] == "exc":
                ok_type = isinstance(out[1], ValueError)
                rec.const(f"refusal_is_a_ValueError[{len(outcomes)}]", ok_type, detail={"exception": type(out[1]).__name__})
                # refused only if the id is malformed or already registered
                rec.ob(f"refused_only_if_malformed_or_already_registered[{len(outcomes)}]", Ctx.base + c.facts + c.pc + [wf, z3.Not(indom)] + canon_facts(c))
                outcomes.append("exc")
            else:
                reg = out[1]
                rec.const(f"accepting_path_writes_exactly_one_entry[{len(outcomes)}]", len(reg.writes) == 1 and reg.keys_ == keys and reg.values_ == vals,
                          detail={"writes": len(reg.writes)})
                rec.ob(f"accepted_only_if_not_registered[{len(outcomes)}]", Ctx.base + c.facts + c.pc + [indom] + canon_facts(c))
                if reg.writes:
                    wk, spec = reg.writes[0]
                    rec.ob(f"new_entry_is_stored_under_the_id[{len(outcomes)}]", Ctx.base + c.facts + c.pc + canon_facts(c) + [z3.Not(wk == sid.t)])
                    rec.ob(f"new_entry_spec_id_is_the_id[{len(outcomes)}]", Ctx.base + c.facts + c.pc + canon_facts(c) + [z3.Not(SymStr.lift(spec.id) == sid.t)])
                    rec.ob(f"new_entry_name_version_parse_the_id[{len(outcomes)}]",
                           Ctx.base + c.facts + c.pc + canon_facts(c) + [z3.Not(z3.Concat(SymStr.lift(spec.name), z3.StringVal("-v"), STR(spec.version.t)) == sid.t)])
                    rec.const(f"new_entry_keeps_entry_point_and_kwargs[{len(outcomes)}]", spec.entry_point == ep and spec.kwargs is kw)
                outcomes.append("ret")
        # ---- ids whose version is written with a leading zero ("Fake-v01"): they denote the same (name, version) as the canonical id and
        # registering one while the canonical id exists is a duplicate.  Assumed contract instance of int(): int("0" + d) == int(d).
        def pad_facts(c):
            out, canon = [], []
            for f in c.facts:
                names = _find_fresh(f, "name")
                for t in _find_fresh(f, "vers"):
                    cv = z3.String("canon_" + str(t))
                    out += [t == z3.Concat(z3.StringVal("0"), cv), z3.InRe(cv, DIG), STR(INT(cv)) == cv, INT(t) == INT(cv)]
                    for n_ in names:
                        canon.append(z3.Concat(n_, z3.StringVal("-v"), cv))
            return out, canon
        for j, (c, out) in enumerate(paths):
            pf, canon = pad_facts(c)
            if not canon:
                continue
            base = Ctx.base + c.facts + c.pc + pf
            if solve(base)[0] == "unsat":
                continue   # this path cannot be taken by a zero-padded id
            dup = z3.Or(*[cid == k for cid in canon for k in keys]) if keys else z3.BoolVal(False)
            def wit_pad(m):
                ids, new = [_mstr(m, k) for k in keys], _mstr(m, sid.t)
                got = _native_register(ids, new)
                return {"registered_ids": ids, "then_register": new, "native": got,
                        "confirmed": bool(got) and (got.get("accepted_a_duplicate") or got.get("spec_id_differs_from_key"))}
            if out[0] == "ret":
                rec.ob(f"zero_padded_version.accepted_only_if_the_canonical_id_is_not_registered[{j}]", base + [dup], witness=wit_pad)
                reg = out[1]
                if reg.writes:
                    wk, spec = reg.writes[0]
                    rec.ob(f"zero_padded_version.new_entry_is_stored_under_the_canonical_id[{j}]", base + [z3.And(*[z3.Not(wk == cid) for cid in canon])], witness=wit_pad)
                    rec.ob(f"zero_padded_version.new_entry_spec_id_is_its_key[{j}]", base + [z3.Not(SymStr.lift(spec.id) == wk)], witness=wit_pad)
        rec.const("some_path_registers_and_some_path_refuses", "ret" in outcomes and ("exc" in outcomes))
        rec.ob("canary.registration_never_succeeds", Ctx.base + [z3.Or(*[z3.And(*(c.facts + c.pc)) for c, out in paths if out[0] == "ret"] or [z3.BoolVal(False)])])
    finally:
        Ctx.base = []
        _uninstall(R, real_re, real_registry)


def canon_facts(c):
    """assumed contract instances str(int(d)) == d for the version strings introduced on this path"""
    out = []
    for f in c.facts:
        for t in _find_fresh(f, "vers"):
            out.append(STR(INT(t)) == t)
    return out


def _find_fresh(t, prefix):
    seen, out, stack = set(), [], [t]
    while stack:
        x = stack.pop()
        if x.get_id() in seen:
            continue
        seen.add(x.get_id())
        if z3.is_const(x) and x.decl().kind() == z3.Z3_OP_UNINTERPRETED and x.decl().name().startswith(prefix):
            out.append(x)
        stack.extend(x.children())
    return out


def run_make(ctx, K):
    import jumanji.registration as RR
    R, shim, real_re = _install()
    real_registry, real_load = R._REGISTRY, R.load
    try:
        rec = Rec(ctx, f"make[K={K}]", [RR.make, RR.load])
        saved_dicts = _shim_module_dicts(R)
        keys = [z3.String(f"k{i}") for i in range(K)]
        Ctx.base = ([z3.Distinct(*keys)] if K > 1 else []) + [z3.InRe(k, shim.FULLV) for k in keys]
        sid = SymStr(z3.String("id"))
        calls = []

        def fake_load(entry):
            def ctor(*a, **k):
                calls.append((entry, a, dict(k)))
                return Opaque("env")
            return ctor
        R.load = fake_load
        A, B, C, D = Opaque("A"), Opaque("B"), Opaque("C"), Opaque("D")
        patterns = {"disjoint": ({"x": A}, {"y": B}), "override": ({"x": A, "y": B}, {"y": C}), "empty_caller": ({"x": A}, {}), "empty_registered": ({}, {"z": D}),
                    "both": ({"x": A, "y": B}, {"y": C, "z": D})}
        for pname, (regkw, callkw) in patterns.items():
            specs_ = []
            for i in range(K):
                s = RR.EnvSpec.__new__(RR.EnvSpec)
                s.id, s.entry_point, s.kwargs, s.name, s.version = SymStr(keys[i]), f"m{i}:C{i}", dict(regkw), None, None
                specs_.append(s)
            snapshot = [dict(s.kwargs) for s in specs_]

            def thunk():
                del calls[:]
                reg = RegShim(keys, specs_)
                R._REGISTRY = reg
                for nm_, val_ in saved_dicts.items():     # every other module-level dict starts each path as a fresh symbolic-key copy
                    setattr(R, nm_, DictShim(val_))
                r = R.make(sid, 1, 2, **callkw)
                return r, list(calls), reg
            paths = explore(thunk)
            indom = z3.Or(*[sid.t == k for k in keys]) if keys else z3.BoolVal(False)
            wf = z3.InRe(sid.t, shim.FULLV)
            n_ret = 0
            for j, (c, out) in enumerate(paths):
                pcs = Ctx.base + c.facts + c.pc + canon_facts(c)
                if out[0] == "ret":
                    n_ret += 1
                    r, cl, reg = out[1]
                    want = {**regkw, **callkw}
                    ok = len(cl) == 1 and cl[0][1] == (1, 2) and cl[0][2].keys() == want.keys() and all(cl[0][2][k_] is want[k_] for k_ in want)
                    rec.const(f"{pname}.known_id_builds_with_registered_kwargs_overridden_by_caller[{j}]", ok, detail={"call": repr(cl)[:200]})
                    which = [i for i in range(K) if cl and cl[0][0] == f"m{i}:C{i}"]
                    rec.const(f"{pname}.entry_point_is_the_registered_one[{j}]", len(which) == 1)
                    if which:
                        rec.ob(f"{pname}.the_entry_used_is_the_one_registered_under_the_id[{j}]", pcs + [z3.Not(sid.t == keys[which[0]])])
                    now = [dict(s.kwargs) for s in specs_]
                    rec.const(f"{pname}.registered_kwargs_and_registry_unchanged[{j}]", now == snapshot and not reg.writes,
                              witness=None if (now == snapshot and not reg.writes) else {"registered_kwargs_before": repr(snapshot), "after_make": repr(now),
                                                                                          "caller_kwargs": repr(callkw), "registry_writes": len(reg.writes)})
                    rec.ob(f"{pname}.built_only_for_registered_ids[{j}]", pcs + [z3.Not(indom)])
                else:
                    rec.const(f"{pname}.refusal_is_a_ValueError[{j}]", isinstance(out[1], ValueError), detail={"exception": type(out[1]).__name__})
                    rec.ob(f"{pname}.refused_only_if_malformed_or_unregistered[{j}]", pcs + [wf, indom])
                    if isinstance(out[1], ValueError) and K and "Unregistered" in str(out[1].args[0]):
                        msg = SymStr.lift(out[1].args[0])
                        for i, k in enumerate(keys):
                            rec.ob(f"{pname}.unknown_id_error_lists_registered_id_{i}[{j}]", pcs + [z3.Not(z3.Contains(msg, z3.Concat(z3.StringVal("- "), k)))])
            if K:
                rec.const(f"{pname}.some_path_builds", n_ret >= 1)
        # ---- histories: a second make() in the same process builds what is registered under ITS id, whatever was made before (K >= 2) ----
        if K >= 2:
            sid2 = SymStr(z3.String("id2"))
            specs_ = []
            for i in range(K):
                s = RR.EnvSpec.__new__(RR.EnvSpec)
                s.id, s.entry_point, s.kwargs, s.name, s.version = SymStr(keys[i]), f"m{i}:C{i}", {"x": A}, None, None
                specs_.append(s)

            def thunk2():
                del calls[:]
                R._REGISTRY = RegShim(keys, specs_)
                for nm_, val_ in saved_dicts.items():
                    setattr(R, nm_, DictShim(val_))
                R.make(sid, 1)
                n1 = len(calls)
                R.make(sid2, 2)
                return n1, list(calls)
            for j, (c, out) in enumerate(explore(thunk2)):
                if out[0] != "ret":
                    continue   # refusals are the single-call clauses above
                pcs = Ctx.base + c.facts + c.pc + canon_facts(c)
                n1, cl = out[1]
                ok = n1 == 1 and len(cl) == 2
                rec.const(f"history.each_make_builds_exactly_once[{j}]", ok, detail={"calls": repr(cl)[:200]})
                if ok:
                    for which_call, the_id in ((0, sid), (1, sid2)):
                        w = [i for i in range(K) if cl[which_call][0] == f"m{i}:C{i}"]
                        rec.const(f"history.call_{which_call + 1}_uses_a_registered_entry_point[{j}]", len(w) == 1)
                        if w:
                            def wit(m, _w=w[0], _c=which_call):
                                ids = [_mstr(m, k) for k in keys]
                                first, second = _mstr(m, sid.t), _mstr(m, sid2.t)
                                got = _native_two_makes(ids, first, second)
                                return {"registered_ids": ids, "make_1": first, "make_2": second, "native_classes_built": got,
                                        "confirmed": got is not None and got["built"][_c] != got["registered"][_c]}
                            rec.ob(f"history.call_{which_call + 1}_builds_the_entry_registered_under_its_own_id[{j}]", pcs + [z3.Not(the_id.t == keys[w[0]])], witness=wit)
        rec.ob("canary.no_wellformed_id_exists", Ctx.base + [z3.InRe(sid.t, shim.FULLV)])
    finally:
        Ctx.base = []
        R.load = real_load
        _restore_module_dicts(R, saved_dicts)
        _uninstall(R, real_re, real_registry)


def _native_register(ids, new):
    """replay on the REAL module (fresh interpreter): register the model's ids, then `new`; report what happened"""
    import subprocess
    import sys
    import json as _json
    code = ("import json, jumanji.registration as R\n"
            "R._REGISTRY.clear()\n"
            + "".join(f"R.register({i!r}, entry_point='jumanji.testing.fakes:FakeEnvironment', kwargs={{'time_limit': {3 + n}}})\n" for n, i in enumerate(ids))
            + "before = {k: (v.id, v.kwargs) for k, v in R._REGISTRY.items()}\n"
            + "try:\n"
            + f"    R.register({new!r}, entry_point='jumanji.testing.fakes:FakeMultiEnvironment', kwargs={{'time_limit': 9}})\n"
            + "    raised = None\n"
            + "except Exception as e:\n"
            + "    raised = type(e).__name__\n"
            + "after = {k: (v.id, v.kwargs) for k, v in R._REGISTRY.items()}\n"
            + "n, v = R.parse_env_id(" + repr(new) + ") if raised is None or True else (None, None)\n"
            + "canon = R.get_env_id(n, v)\n"
            + "print(json.dumps({'raised': raised, 'canonical_id': canon, 'canonical_id_was_registered': canon in before,\n"
            + "  'accepted_a_duplicate': raised is None and canon in before, 'replaced_entry': any(before[k] != after.get(k) for k in before),\n"
            + "  'spec_id_differs_from_key': any(k != v[0] for k, v in after.items())}))\n")
    try:
        out = subprocess.run([sys.executable, "-c", code], capture_output=True, text=True, timeout=120, env=dict(os.environ))
        return _json.loads(out.stdout.strip().splitlines()[-1])
    except Exception:
        return None


def _native_two_makes(ids, first, second):
    """replay on the REAL module (fresh interpreter): register the model's ids with distinct real classes, make(first), make(second)"""
    import subprocess
    import sys
    import json as _json
    classes = ["jumanji.testing.fakes:FakeEnvironment", "jumanji.testing.fakes:FakeMultiEnvironment", "jumanji.testing.fakes:FakeEnvironment"]
    kw = ["{'time_limit': 3}", "{'time_limit': 4}", "{'time_limit': 5}"]
    code = ("import json, jumanji.registration as R\n"
            "R._REGISTRY.clear()\n"
            + "".join(f"R.register({i!r}, entry_point={classes[n % 3]!r}, kwargs={kw[n % 3]})\n" for n, i in enumerate(ids))
            + f"a = R.make({first!r}); b = R.make({second!r})\n"
            + "reg = {k: v.entry_point.split(':')[1] + str(v.kwargs) for k, v in R._REGISTRY.items()}\n"
            + f"print(json.dumps({{'built': [type(a).__name__ + str({{'time_limit': a.time_limit}}), type(b).__name__ + str({{'time_limit': b.time_limit}})], "
              f"'registered': [reg[{first!r}], reg[{second!r}]]}}))\n")
    try:
        env = dict(os.environ)
        out = subprocess.run([sys.executable, "-c", code], capture_output=True, text=True, timeout=120, env=env)
        return _json.loads(out.stdout.strip().splitlines()[-1])
    except Exception:
        return None


def run_shipped(ctx, env_id):
    """finite: one shipped id; instantiated natively twice => equal specs and alpha-equivalent jaxprs for reset/step"""
    import warnings

    import jax
    import jumanji
    warnings.filterwarnings("ignore")
    kw = {}
    if env_id.startswith("Sokoban"):
        from jumanji.environments.routing.sokoban.generator import ToyGenerator
        kw = {"generator": ToyGenerator()}
    title = f"shipped[{env_id}]"
    ctx.problems.append({"title": title, "engine": "native (finite set)", "targets": []})
    try:
        e1, e2 = jumanji.make(env_id, **kw), jumanji.make(env_id, **kw)
    except Exception as ex:
        ctx.structural(f"{title}/instantiates", False, "native execution (finite)", detail={"error": repr(ex)[:300]}, witness={"id": env_id})
        return
    ctx.structural(f"{title}/instantiates", True, "native execution (finite)")
    ctx.structural(f"{title}/id_parses_and_formats_back", jumanji.registration.get_env_id(*jumanji.registration.parse_env_id(env_id)) == env_id, "native execution (finite)")
    for sname in ("observation_spec", "action_spec", "reward_spec", "discount_spec"):
        try:
            ok = (getattr(e1, sname) == getattr(e2, sname)) is True
            det = None
        except Exception as ex:
            ok, det = False, {"error": repr(ex)[:200]}
        ctx.structural(f"{title}/two_makes_give_equal_{sname}", ok, "native execution (finite)", detail=det, witness=None if ok else {"id": env_id})
    key = jax.random.PRNGKey(0)
    j1, j2 = str(jax.make_jaxpr(e1.reset)(key)), str(jax.make_jaxpr(e2.reset)(key))
    ctx.structural(f"{title}/two_makes_give_identical_reset_jaxpr", j1 == j2, "jaxpr text equality (alpha-equivalent traces)")
    st, ts = jax.eval_shape(e1.reset, key)
    a = e1.action_spec.generate_value()
    z = jax.tree_util.tree_map(lambda x: jax.numpy.zeros(x.shape, x.dtype), st)
    s1, s2 = str(jax.make_jaxpr(e1.step)(z, a)), str(jax.make_jaxpr(e2.step)(z, a))
    ctx.structural(f"{title}/two_makes_give_identical_step_jaxpr", s1 == s2, "jaxpr text equality (alpha-equivalent traces)")
    if env_id.startswith("Sokoban"):
        ctx.structural(f"{title}/caller_kwargs_override_registered_ones", type(e1.generator).__name__ == "ToyGenerator", "native execution (finite)")


def run_unknown(ctx):
    import jumanji
    ids = sorted(jumanji.registered_environments())
    try:
        jumanji.make("DoesNotExist-v0")
        ok, msg = False, ""
    except ValueError as ex:
        msg = str(ex)
        ok = all(("- " + i) in msg for i in ids)
    except Exception as ex:
        ok, msg = False, repr(ex)
    ctx.problems.append({"title": "shipped.unknown_id", "engine": "native (finite set)", "targets": []})
    ctx.structural("shipped.unknown_id/error_lists_all_registered_ids", ok, "native execution (finite)", detail={"n_ids": len(ids)})
    ctx.structural("shipped.unknown_id/there_are_25_shipped_ids", len(ids) == 25, "native execution (finite)", detail={"n_ids": len(ids)})


def tasks(tier):
    out = {"parse": (run_parse, {})}
    for K in (0, 1, 2) if tier == "quick" else (0, 1, 2, 3):
        out[f"register:K{K}"] = (run_register, {"K": K})
        out[f"make:K{K}"] = (run_make, {"K": K})
    import warnings
    warnings.filterwarnings("ignore")
    import jumanji
    for env_id in sorted(jumanji.registered_environments()):
        out[f"shipped:{env_id}"] = (run_shipped, {"env_id": env_id})
    out["shipped:unknown"] = (run_unknown, {})
    return out


LEVEL_TEXT = ("Proof by path-complete symbolic execution of the real registration.py on symbolic strings: parse_env_id has exactly three paths and accepts "
              "exactly L(NAME-vDIGITS); format-then-parse and parse-then-format are identities; register refuses exactly malformed or already registered ids and "
              "otherwise adds exactly one entry whose id/name/version/entry_point/kwargs are the given ones, leaving every other entry untouched; make builds the "
              "registered class with {**registered, **caller} keyword arguments, never mutates the registry or the stored kwargs, and an unknown id raises a "
              "ValueError listing every registered id. By induction (RegInv: every key equals its spec.id) this covers all register/make sequences. The 25 shipped "
              "ids (finite) are instantiated natively: two make() calls give equal specs and identical reset/step jaxprs.")
LEVEL_NOTE = ("regex semantics from sre_parse (ASCII \\w, \\d); str/int as uninterpreted functions with assumed round-trip axioms; registries of K<=3 entries "
              "enumerated; load() stubbed; shipped ids checked natively (finite set); Sokoban-v0 through its ToyGenerator (dataset download impossible offline).")
