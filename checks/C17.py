"""C17 — permutation puzzles obey their group laws and stay solvable.

RubiksCube: every move function is evaluated symbolically (Engine J) on a cube of distinct variables; after constant folding every
output cell must be exactly one input variable and the map a bijection (syntactic obligation: this fixes the permutation for every
colouring).  Group identities are then equalities of finite permutations; the PHYSICAL move is an independent geometric model
(stickers as 3-D facelets, a quarter turn as an integer rotation) compared with the extracted permutation.
SlidingTilePuzzle: SMT obligations on the real step / generator move for all puzzles."""
import itertools

import jax
import jax.numpy as jnp
import numpy as np

from contracts import common as K
from jxv import symeval as S

LEVEL = "proof"
CONFIG_BOUND = "cube sizes 2..5 quick / 2..7 thorough; sliding puzzles 2x2, 3x3 quick / +4x4 thorough; sticker colours, puzzles, actions, scramble keys unbounded"
NOT_VERIFIED = ["cube sizes / grid sizes outside the list"]
ASSUMPTIONS = ["jax.random.randint / choice sampler contracts (scramble actions in range; random move lands on p>0)"]

# ---- geometry of the documented conventions (utils.unflatten_action docstring) -------------------------------------
# x: towards RIGHT, y: towards UP, z: towards FRONT (the viewer).  Per face: (normal, direction of increasing column, of increasing row)
FACES = {
    0: ((0, 1, 0), (1, 0, 0), (0, 0, 1)),      # UP: LEFT on the left, BACK pointing up
    1: ((0, 0, 1), (1, 0, 0), (0, -1, 0)),     # FRONT: LEFT on the left, UP pointing up
    2: ((1, 0, 0), (0, 0, -1), (0, -1, 0)),    # RIGHT: FRONT on the left, UP pointing up
    3: ((0, 0, -1), (-1, 0, 0), (0, -1, 0)),   # BACK: RIGHT on the left, UP pointing up
    4: ((-1, 0, 0), (0, 0, 1), (0, -1, 0)),    # LEFT: BACK on the left, UP pointing up
    5: ((0, -1, 0), (1, 0, 0), (0, 0, -1)),    # DOWN: LEFT on the left, FRONT pointing up
}


def _v(a, b, f=1):
    return tuple(x + f * y for x, y in zip(a, b))


def _dot(a, b):
    return sum(x * y for x, y in zip(a, b))


def _cross(a, b):
    return (a[1] * b[2] - a[2] * b[1], a[2] * b[0] - a[0] * b[2], a[0] * b[1] - a[1] * b[0])


def sticker_pos(n, f, i, j):
    nrm, right, down = FACES[f]
    return tuple(n * nrm[k] + (2 * j - (n - 1)) * right[k] + (2 * i - (n - 1)) * down[k] for k in range(3))


def physical_permutation(n, face, depth, quarter_turns_clockwise):
    """new[(f', i', j')] = old[(f, i, j)] where the facelet at position p is carried to R p; R = clockwise quarter turn(s) about the
    normal of `face` (clockwise when looking directly at the face), applied to the layer `depth` cells below that face."""
    pos2idx = {sticker_pos(n, f, i, j): (f, i, j) for f in range(6) for i in range(n) for j in range(n)}
    axis = FACES[face][0]

    def rot(v):  # clockwise by 90 degrees seen from the tip of the axis: v -> -(axis x v) + axis (axis . v)
        c = _cross(axis, v)
        d = _dot(axis, v)
        return tuple(-c[k] + axis[k] * d for k in range(3))

    perm = {}
    for p, (f, i, j) in pos2idx.items():
        centre = _v(p, FACES[f][0], -1)  # centre of the cubie carrying the sticker
        q = p
        if _dot(centre, axis) == (n - 1) - 2 * depth:
            for _ in range(quarter_turns_clockwise % 4):
                q = rot(q)
        perm[pos2idx[q]] = (f, i, j)
    return perm


def extract_permutation(move, n):
    """symbolic evaluation of the real move on distinct variables: returns (perm: out idx -> in idx) or raises with the offending cell"""
    import z3
    cj = jax.make_jaxpr(move)(jnp.zeros((6, n, n), jnp.int8))
    sym = S.Sym()
    cube = sym.sym_array("c", (6, n, n), jnp.int8)
    (out,) = sym.eval_closed(cj, cube)
    names = {str(cube[idx]): idx for idx in np.ndindex(6, n, n)}
    perm = {}
    for idx in np.ndindex(6, n, n):
        t = out[idx]
        if S.is_c(t) or not z3.is_const(t) or str(t) not in names:
            return None, {"cell": list(idx), "term": str(t)[:200]}
        perm[idx] = names[str(t)]
    if len(set(perm.values())) != 6 * n * n:
        return None, {"not_injective": True}
    return perm, None


def compose(p, q):
    """(p o q): first q then p, as 'new[o] = old[perm[o]]' maps: applying q then p gives new[o] = old[q[p[o]]]"""
    return {o: q[p[o]] for o in p}


def run_cube(ctx, n):
    from jumanji.environments.logic.rubiks_cube import utils as U
    from jumanji.environments.logic.rubiks_cube.constants import CubeMovementAmount
    moves = U.generate_all_moves(n)
    gens = [U.generate_up_move, U.generate_front_move, U.generate_right_move, U.generate_back_move, U.generate_left_move, U.generate_down_move]
    amounts = list(CubeMovementAmount)  # CLOCKWISE, ANTI_CLOCKWISE, HALF_TURN
    ident = {idx: idx for idx in np.ndindex(6, n, n)}
    perms = {}
    k = 0
    for face in range(6):
        for depth in range(n // 2):
            for ai, amount in enumerate(amounts):
                name = f"RubiksCube[{n}].move[face={face},depth={depth},{amount.name}]"
                p, why = extract_permutation(moves[k], n)
                ctx.structural(f"{name}/C17.is_a_fixed_permutation_of_the_stickers", p is not None, "Engine J term normaliser (outputs are bare input variables, bijective)",
                               detail=why, targets=[gens[face], U.do_rotation], witness=why)
                perms[(face, depth, ai)] = p
                if p is not None:
                    q = {0: 1, 1: 3, 2: 2}[ai]
                    phys = physical_permutation(n, face, depth, q)
                    diff = [list(o) for o in p if p[o] != phys[o]][:4]
                    ctx.structural(f"{name}/C17.equals_the_physical_turn", not diff, "finite permutation equality against the geometric model",
                                   detail={"first_differing_cells": diff} if diff else None, witness={"cells": diff} if diff else None, targets=[gens[face]])
                k += 1
    for face in range(6):
        for depth in range(n // 2):
            cw, ccw, half = (perms[(face, depth, a)] for a in range(3))
            if None in (cw, ccw, half):
                continue
            name = f"RubiksCube[{n}].layer[face={face},depth={depth}]"
            for cl, ok in (("clockwise_then_anticlockwise_is_identity", compose(ccw, cw) == ident), ("anticlockwise_then_clockwise_is_identity", compose(cw, ccw) == ident),
                           ("half_turn_is_two_quarter_turns", compose(cw, cw) == half), ("four_quarter_turns_restore", compose(compose(cw, cw), compose(cw, cw)) == ident),
                           ("half_turn_twice_is_identity", compose(half, half) == ident), ("multiset_conserved", sorted(cw.values()) == sorted(ident))):
                ctx.structural(f"{name}/C17.{cl}", ok, "finite permutation composition", witness=None if ok else {"layer": [face, depth]})
    if ctx.tier == "thorough" or n <= 3:
        # moves about the same axis commute (opposite faces: UP/DOWN, FRONT/BACK, RIGHT/LEFT)
        for (fa, fb) in ((0, 5), (1, 3), (2, 4)):
            for da, db, aa, ab in itertools.product(range(n // 2), range(n // 2), range(3), range(3)):
                pa, pb = perms[(fa, da, aa)], perms[(fb, db, ab)]
                if pa is None or pb is None:
                    continue
                ctx.structural(f"RubiksCube[{n}].pair[{fa},{da},{aa}|{fb},{db},{ab}]/C17.same_axis_moves_commute", compose(pa, pb) == compose(pb, pa),
                               "finite permutation composition")
    # rotate_cube dispatches flat action a to move a; flatten/unflatten inverse; is_solved; step applies exactly that move
    nA = 18 * (n // 2)
    cube0 = jnp.zeros((6, n, n), jnp.int8)

    def ens_dispatch(cube, a):
        got = U.rotate_cube(cube, a)
        want = moves[-1](cube)
        for m in range(nA - 2, -1, -1):
            want = jnp.where(a == m, moves[m](cube), want)
        return {"C17.rotate_cube_applies_move_a": got == want, "canary.rotate_is_identity": jnp.all(got == cube)}

    ctx.prove(f"RubiksCube[{n}].rotate_cube", (cube0, jnp.int32(0)), ens_dispatch, lambda c, a: {"in_range": (a >= 0) & (a < nA)},
              targets=[U.rotate_cube, U.generate_all_moves], use_stubs=False, merge_over=8)

    def ens_flat(u, x):
        f = U.flatten_action(u, n)
        return {"C17.unflatten_of_flatten": U.unflatten_action(f, n) == u, "C17.flatten_in_range": (f >= 0) & (f < nA),
                "C17.flatten_of_unflatten": U.flatten_action(U.unflatten_action(x, n), n) == x,
                "C17.unflatten_in_range": (U.unflatten_action(x, n) >= 0) & (U.unflatten_action(x, n) < jnp.array([6, max(n // 2, 1), 3])),
                "canary.flatten_is_zero": f == 0}

    ctx.prove(f"RubiksCube[{n}].flatten_unflatten", (jnp.zeros((3,), jnp.int32), jnp.int32(0)), ens_flat,
              lambda u, x: {"u_in_range": (u >= 0) & (u < jnp.array([6, n // 2, 3])), "x_in_range": (x >= 0) & (x < nA)},
              targets=[U.flatten_action, U.unflatten_action], use_stubs=False)

    def ens_solved(cube):
        uniform = jnp.asarray(True)
        for f in range(6):
            uniform = uniform & jnp.all(cube[f] == cube[f, 0, 0])
        return {"C17.is_solved_iff_every_face_uniform": U.is_solved(cube) == uniform, "canary.never_solved": ~U.is_solved(cube)}

    ctx.prove(f"RubiksCube[{n}].is_solved", (cube0,), ens_solved, targets=[U.is_solved], use_stubs=False)

    from jumanji.environments import RubiksCube
    from jumanji.environments.logic.rubiks_cube.generator import ScramblingGenerator
    L = 3 if n <= 3 else 2
    env = RubiksCube(ScramblingGenerator(n, L), time_limit=7)
    state, ts = env.reset(jax.random.PRNGKey(0))
    act = jnp.asarray(env.action_spec.generate_value())

    def ens_step(s, a):
        s2, ts2 = env.step(s, a)
        flat = U.flatten_action(a, n)
        return {"C17.step_applies_exactly_the_chosen_move": s2.cube == U.rotate_cube(s.cube, flat),
                "C17.observation_shows_the_cube": ts2.observation.cube == s2.cube,
                "C17.solved_reward_iff_solved": ts2.reward == jnp.where(U.is_solved(s2.cube), 1.0, 0.0),
                "canary.step_leaves_cube": jnp.all(s2.cube == s.cube)}

    from contracts import envs as E
    ctx.prove(f"RubiksCube[{n}].step", (state, act), ens_step, lambda s, a: {"in_spec": E.in_spec(env, a)}, targets=[type(env).step],
              use_stubs=False, merge_over=8)

    # reset: the cube is the solved cube carried through `num_scrambles` legal moves (sampler outcomes symbolic) => in the orbit of the goal
    gen = env.generator

    def ens_scramble(actions):
        cube = U.make_solved_cube(n)
        for t in range(L):
            cube = U.rotate_cube(cube, actions[t])
        got = U.scramble_solved_cube(actions, n)
        return {"C17.scramble_is_a_sequence_of_moves_from_the_goal": got == cube, "canary.scramble_is_solved": U.is_solved(got)}

    ctx.prove(f"RubiksCube[{n}].scramble", (jnp.zeros((L,), jnp.int32),), ens_scramble, lambda a: {"in_range": (a >= 0) & (a < nA)},
              targets=[U.scramble_solved_cube, type(gen).generate_cube], use_stubs=False, merge_over=8)

    def ens_gen(key):
        st = gen(key)
        acts = gen.generate_actions_for_scramble(jax.random.split(key)[1])  # same sampler call => same (memoised) outcomes
        cube = U.make_solved_cube(n)
        for t in range(L):
            cube = U.rotate_cube(cube, acts[t])
        return {"C17.generated_cube_is_moves_from_the_goal": st.cube == cube, "C17.scramble_actions_in_range": (acts >= 0) & (acts < nA),
                "C17.generated_step_count_zero": st.step_count == 0, "canary.generated_cube_solved": U.is_solved(st.cube)}

    ctx.prove(f"RubiksCube[{n}].generator", (jax.random.PRNGKey(0),), ens_gen, targets=[type(gen).__call__, type(gen).generate_actions_for_scramble], merge_over=8)


def run_sliding(ctx, g):
    from jumanji.environments import SlidingTilePuzzle
    from jumanji.environments.logic.sliding_tile_puzzle.generator import RandomWalkGenerator
    from contracts import envs as E
    env = SlidingTilePuzzle(RandomWalkGenerator(g, 2), time_limit=50)
    state, ts = env.reset(jax.random.PRNGKey(0))
    a0 = jnp.int32(0)
    MV = ((-1, 0), (0, 1), (1, 0), (0, -1))
    OPP = (2, 3, 0, 1)
    goal = env.solved_puzzle

    def inv(s):
        perm = jnp.stack([jnp.sum(s.puzzle == v) == 1 for v in range(g * g)])
        r, c = s.empty_tile_position[0], s.empty_tile_position[1]
        inside = (r >= 0) & (r < g) & (c >= 0) & (c < g)
        blank = s.puzzle[jnp.clip(r, 0, g - 1), jnp.clip(c, 0, g - 1)] == 0
        return {"puzzle_is_a_permutation": perm, "blank_position_in_grid": inside, "blank_at_empty_tile_position": blank}

    def legal(s, a):
        r, c = s.empty_tile_position[0], s.empty_tile_position[1]
        d = jnp.asarray(MV)[a]
        return (r + d[0] >= 0) & (r + d[0] < g) & (c + d[1] >= 0) & (c + d[1] < g)

    def swap_spec(s, a):
        r, c = s.empty_tile_position[0], s.empty_tile_position[1]
        d = jnp.asarray(MV)[a]
        nr, nc = r + d[0], c + d[1]
        ok = legal(s, a)
        rows = jnp.arange(g)[:, None]
        cols = jnp.arange(g)[None, :]
        at_blank = (rows == r) & (cols == c)
        at_new = (rows == nr) & (cols == nc)
        moved = s.puzzle[jnp.clip(nr, 0, g - 1), jnp.clip(nc, 0, g - 1)]
        swapped = jnp.where(at_blank, moved, jnp.where(at_new, 0, s.puzzle))
        return jnp.where(ok, swapped, s.puzzle), jnp.where(ok, jnp.stack([nr, nc]), s.empty_tile_position)

    def req(s, a):
        return {**inv(s), "in_spec": (a >= 0) & (a < 4)}

    def ens(s, a):
        s2, t2 = env.step(s, a)
        wp, we = swap_spec(s, a)
        out = {"C17.move_is_the_swap_of_blank_and_neighbour": s2.puzzle == wp, "C17.blank_position_follows": s2.empty_tile_position == we,
               "C17.multiset_of_tiles_conserved": jnp.stack([jnp.sum(s2.puzzle == v) == jnp.sum(s.puzzle == v) for v in range(g * g)]),
               "C17.solved_test_accepts_exactly_the_goal": (t2.step_type == 2) == (jnp.all(s2.puzzle == goal) | (s.step_count + 1 >= env.time_limit)),
               "canary.puzzle_never_changes": jnp.all(s2.puzzle == s.puzzle)}
        for k, v in inv(s2).items():
            out["C17.invariant_preserved." + k] = v
        # opposite sliding moves cancel when the first one was legal
        s3, _ = env.step(s2, jnp.asarray(OPP)[a])
        out["C17.opposite_moves_cancel"] = ~legal(s, a) | (jnp.all(s3.puzzle == s.puzzle) & jnp.all(s3.empty_tile_position == s.empty_tile_position))
        # every legal move has a legal inverse (reachability is symmetric)
        out["C17.inverse_move_is_legal"] = ~legal(s, a) | legal(s2, jnp.asarray(OPP)[a])
        return out

    ctx.prove(f"SlidingTilePuzzle[{g}].step", (state, a0), ens, req, targets=[type(env).step, type(env)._move_empty_tile], use_stubs=False)

    gen = env.generator

    def ens_rm(key, puzzle, pos):
        s = state.replace(puzzle=puzzle, empty_tile_position=pos)
        p2, e2 = gen._make_random_move(key, puzzle, pos)
        # the random move is ONE legal move of the same move relation
        is_move = jnp.asarray(False)
        for a in range(4):
            wp, we = swap_spec(s, jnp.int32(a))
            is_move = is_move | (legal(s, jnp.int32(a)) & jnp.all(p2 == wp) & jnp.all(e2 == we))
        s2 = state.replace(puzzle=p2, empty_tile_position=e2)
        out = {"C17.generator_move_is_one_legal_move": is_move, "canary.generator_move_is_identity": jnp.all(p2 == puzzle)}
        for k, v in inv(s2).items():
            out["C17.generator_move_preserves_invariant." + k] = v
        return out

    ctx.prove(f"SlidingTilePuzzle[{g}].generator_move", (jax.random.PRNGKey(0), state.puzzle, state.empty_tile_position), ens_rm,
              lambda key, puzzle, pos: inv(state.replace(puzzle=puzzle, empty_tile_position=pos)), targets=[type(gen)._make_random_move, type(gen)._swap_tiles])

    def ens_goal():
        s = state.replace(puzzle=goal, empty_tile_position=jnp.array([g - 1, g - 1]))
        return {"C17.walk_starts_at_the_goal_which_satisfies_the_invariant." + k: v for k, v in inv(s).items()}

    ok = all(bool(jnp.all(v)) for v in ens_goal().values())
    ctx.structural(f"SlidingTilePuzzle[{g}].generator/C17.walk_starts_at_the_goal_which_satisfies_the_invariant", ok, "concrete evaluation (constant)",
                   targets=[type(gen).make_solved_puzzle])


def tasks(tier):
    out = {}
    for n in ((2, 3, 4, 5) if tier == "quick" else (2, 3, 4, 5, 6, 7)):
        out[f"RubiksCube[{n}]"] = (run_cube, {"n": n})
    for g in ((2, 3) if tier == "quick" else (2, 3, 4)):
        out[f"SlidingTilePuzzle[{g}]"] = (run_sliding, {"g": g})
    return out


LEVEL_TEXT = ("Proof: each of the 18*floor(n/2) cube moves is shown, by symbolic evaluation of the real function on distinct stickers, to be a fixed bijection of "
              "sticker positions (for every colouring), equal to the physical layer turn of an independent geometric model; cw/ccw inverse, half = cw^2, cw^4 = id, "
              "same-axis commutation are equalities of those finite permutations; rotate_cube dispatch, flatten/unflatten inverses, is_solved <=> uniform faces, "
              "step = the chosen move, scramble = a sequence of moves from the goal are SMT obligations for all values. SlidingTile: for all puzzles (permutation "
              "invariant) a move is the swap of the blank with its neighbour or the identity, opposite moves cancel, the multiset is conserved, done <=> goal, "
              "the generator's random move is one legal move (so every generated/played state is reachable from, and by inverse moves solvable back to, the goal).")
LEVEL_NOTE = "Sizes enumerated; sampler contracts assumed; 'reachable from the goal' is by induction over the proved closure clauses (lemma, not a separate query)."
