"""C13 — AutoResetWrapper: step == spec_step over an ABSTRACT environment (uninterpreted reset/step) for synthetic signatures
and the real signature of each of the 23 environments; reset; key-derivation (freshness) dataflow obligation per environment."""
import jax
import jax.numpy as jnp
from jax.interpreters import partial_eval as pe

from contracts import absenv as A
from contracts import envs as E

LEVEL = "proof"
CONFIG_BOUND = "signatures enumerated: 3 synthetic + the real (state, timestep, action) signature of the environment classes (quick: 21, PacMan and MMST signatures in the thorough tier only because of their size); values unbounded"
NOT_VERIFIED = ["that threefry realises the key-tree idealisation (distinct children); jit/vmap/scan agreement (JAX meta-theory)"]
ASSUMPTIONS = ["the wrapped environment is any pair of deterministic functions with the given signature (uninterpreted functions)",
               "jax.random.split is a deterministic function of its key (uninterpreted); distinctness of successive reset keys holds in "
               "the key-tree idealisation only"]


def leaves_eq(prefix, got, want):
    lg = jax.tree_util.tree_flatten_with_path(got)[0]
    lw, tw = jax.tree_util.tree_flatten(want)
    assert jax.tree_util.tree_structure(got) == tw, (jax.tree_util.tree_structure(got), tw)
    out = {}
    for (path, g), w in zip(lg, lw):
        assert jnp.shape(g) == jnp.shape(w) and jnp.asarray(g).dtype == jnp.asarray(w).dtype, (path, g, w)
        out[prefix + jax.tree_util.keystr(path)] = jnp.asarray(g) == jnp.asarray(w)
    return out


def spec_step(env, nobs):
    """transcribed from the property statement"""
    def f(state, action):
        s1, t1 = env.step(state, action)
        last = t1.step_type == 2
        k = jax.random.split(s1.key)[0]           # key freshly derived from the terminal state's key
        s0, t0 = env.reset(k)
        sel = lambda a, b: jax.tree_util.tree_map(lambda x, y: jnp.where(last, x, y), a, b)
        extras = dict(t1.extras) if t1.extras is not None else {}
        if nobs:
            extras["next_obs"] = t1.observation   # the true successor observation of every step
        ts = t1.replace(observation=sel(t0.observation, t1.observation), extras=extras)
        return sel(s0, s1), ts
    return f


def run_sig(ctx, sig, kind):
    from jumanji import wrappers
    if kind == "synthetic":
        st, ts, a = A.synthetic()[sig]
    else:
        name, cfg = sig.split("@")
        st, ts, a = A.real_signature(E.ALL()[name][cfg]())
    key = jnp.zeros((2,), jnp.uint32)
    for nobs in (False, True):
        env = A.AbsEnv(st, ts, a)
        w = wrappers.AutoResetWrapper(env, next_obs_in_extras=nobs)
        spec = spec_step(env, nobs)

        def ens(s, act, w=w, spec=spec):
            out = leaves_eq("C13.step", w.step(s, act), spec(s, act))
            s1, t1 = env.step(s, act)
            ws, wt = w.step(s, act)
            # not LAST: precisely what the wrapped step returns (state, and all timestep fields)
            notlast = t1.step_type != 2
            core_t = lambda t: (t.step_type, t.reward, t.discount, t.observation)
            out["C13.not_last_passthrough"] = ~notlast | (jax.tree_util.tree_reduce(
                lambda r, x: r & x, jax.tree_util.tree_map(lambda x, y: jnp.all(x == y), (ws, core_t(wt)), (s1, core_t(t1))), jnp.asarray(True)))
            out["canary.never_resets"] = jax.tree_util.tree_reduce(
                lambda r, x: r & x, jax.tree_util.tree_map(lambda x, y: jnp.all(x == y), ws, s1), jnp.asarray(True))
            return out

        ctx.prove(f"AutoResetWrapper.step[{sig},next_obs={nobs}]", (st, a), ens, targets=[wrappers.AutoResetWrapper.step,
                  wrappers.AutoResetWrapper._auto_reset, wrappers.add_obs_to_extras], use_stubs=False, selfcheck=False, merge_over=8)

        def ens_reset(k, w=w, nobs=nobs):
            s0, t0 = env.reset(k)
            extras = dict(t0.extras) if t0.extras is not None else {}
            if nobs:
                extras["next_obs"] = t0.observation
            out = leaves_eq("C13.reset", w.reset(k), (s0, t0.replace(extras=extras)))
            out["canary.reset_obs_zero"] = jax.tree_util.tree_reduce(
                lambda r, x: r & jnp.all(x == 0), w.reset(k)[1].observation, jnp.asarray(True))
            return out

        ctx.prove(f"AutoResetWrapper.reset[{sig},next_obs={nobs}]", (key,), ens_reset, targets=[wrappers.AutoResetWrapper.reset],
                  use_stubs=False, selfcheck=False, merge_over=8)


def _key_derived(t, key_vars):
    """is the integer term t built from the input key variables through split / fold_in / selection only?
    returns (derived, mentions an input key variable)"""
    import z3
    if z3.is_const(t) and t.decl().kind() == z3.Z3_OP_UNINTERPRETED:
        return (str(t) in key_vars), (str(t) in key_vars)
    if z3.is_app_of(t, z3.Z3_OP_ITE):
        a, b = _key_derived(t.arg(1), key_vars), _key_derived(t.arg(2), key_vars)   # the condition may be anything
        return a[0] and b[0], a[1] and b[1]
    if z3.is_app(t) and t.decl().kind() == z3.Z3_OP_UNINTERPRETED and (t.decl().name().startswith("split[") or t.decl().name().startswith("fold_in")):
        a, b = _key_derived(t.arg(0), key_vars), _key_derived(t.arg(1), key_vars)   # fold_in's data argument may be anything
        return a[0] and b[0], a[1] or b[1]
    return False, False


def run_keys(ctx, name, cfg):
    """freshness: the key stored in the state is derived from the incoming key by split / fold_in / selection only (the selection
    conditions may depend on data), and every selected alternative depends on the incoming key"""
    from jxv import core
    from jxv import symeval as S
    env = E.ALL()[name][cfg]()
    state, ts, a = E.example(env)
    key = jax.random.PRNGKey(0)

    def judge(title, terms, key_vars, target):
        bad = []
        for t in terms:
            if S.is_c(t):
                bad.append("constant " + str(t))
                continue
            d, m = _key_derived(t, key_vars)
            if not (d and m):
                bad.append(str(t)[:160])
        ctx.structural(title, not bad, "Engine J term walk (key terms are split/fold_in/ite over the input key)", detail={"offending_terms": bad[:3]} if bad else None,
                       targets=[target], witness={"offending_terms": bad[:3]} if bad else None)

    sym, ins, out = core.symbolic_outputs(lambda k: env.reset(k)[0].key, (key,), while_bound=4)
    kv = {str(x) for x in ins[0].reshape(-1)}
    judge(f"{name}.reset@{cfg}/C13.state_key_derived_from_input_key", list(out.reshape(-1)), kv, type(env).reset)
    sym, ins, out = core.symbolic_outputs(lambda s, act: env.step(s, act)[0].key, (state, a), while_bound=12)
    kv = {str(x) for x in ins[0].key.reshape(-1)}
    judge(f"{name}.step@{cfg}/C13.state_key_derived_from_state_key", list(out.reshape(-1)), kv, type(env).step)


def _sig_size(name, cfg):
    st, ts, a = A.real_signature(E.ALL()[name][cfg]())
    return sum(int(x.size) for x in jax.tree_util.tree_leaves((st, ts)))


BIG = {"PacMan", "MMST"}   # signatures with > 4000 scalars: thorough tier only (pure cost; the proof is signature-generic)


def tasks(tier):
    out = {}
    for sig in A.synthetic():
        out[f"syn:{sig}"] = (run_sig, {"sig": sig, "kind": "synthetic"})
    for name in E.QUICK:
        cfg = E.QUICK[name][0]
        if tier == "thorough" or name not in BIG:
            out[f"sig:{name}@{cfg}"] = (run_sig, {"sig": f"{name}@{cfg}", "kind": "real"})
        out[f"keys:{name}@{cfg}"] = (run_keys, {"name": name, "cfg": cfg})
    return out


LEVEL_TEXT = ("Proof over an abstract environment: AutoResetWrapper.step/reset equal, leaf by leaf, the specification transcribed from the "
              "property (not LAST: exactly the wrapped step; LAST: state and observation of reset(split(terminal.key)[0]), step type / "
              "reward / discount / extras of the terminal step; extras['next_obs'] = true successor observation of every step), for every "
              "environment with the signature of each of the 23 classes and 3 synthetic ones, both next_obs settings, all values. "
              "Freshness: per environment a dataflow obligation on the real jaxprs shows state.key is derived from the incoming key "
              "only through split/fold_in/selection.")
LEVEL_NOTE = ("env.reset/env.step uninterpreted; random_split uninterpreted (key-tree idealisation for distinctness); per-signature "
              "(shape-monomorphic); jit/vmap/scan agreement not proved.")
