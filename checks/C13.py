"""C13 — AutoResetWrapper: step == spec_step over an ABSTRACT environment (uninterpreted reset/step) for synthetic signatures
and the real signature of each of the 23 environments; reset; key-derivation (freshness) dataflow obligation per environment."""
import jax
import jax.numpy as jnp
from jax.interpreters import partial_eval as pe

from contracts import absenv as A
from contracts import envs as E

LEVEL = "proof"
CONFIG_BOUND = "signatures enumerated: 3 synthetic + the real (state, timestep, action) signature of all 23 environment classes; values unbounded"
NOT_VERIFIED = ["that threefry realises the key-tree idealisation (distinct children); jit/vmap/scan agreement (JAX meta-theory)"]
ASSUMPTIONS = ["the wrapped environment is any pair of deterministic functions with the given signature (uninterpreted functions)",
               "jax.random.split is a deterministic function of its key (uninterpreted); distinctness of successive reset keys holds in "
               "the key-tree idealisation only"]


def leaves_eq(prefix, got, want):
    lg = jax.tree_util.tree_flatten_with_path(got)[0]
    lw, tw = jax.tree_util.tree_flatten(want)
    assert jax.tree_util.tree_structure(got) == tw, (jax.tree_util.tree_structure(got), tw)
    out = {}
    for (path, g), w in zip(lg, lw):
        assert jnp.shape(g) == jnp.shape(w) and jnp.asarray(g).dtype == jnp.asarray(w).dtype, (path, g, w)
        out[prefix + jax.tree_util.keystr(path)] = jnp.asarray(g) == jnp.asarray(w)
    return out


def spec_step(env, nobs):
    """transcribed from the property statement"""
    def f(state, action):
        s1, t1 = env.step(state, action)
        last = t1.step_type == 2
        k = jax.random.split(s1.key)[0]           # key freshly derived from the terminal state's key
        s0, t0 = env.reset(k)
        sel = lambda a, b: jax.tree_util.tree_map(lambda x, y: jnp.where(last, x, y), a, b)
        extras = dict(t1.extras) if t1.extras is not None else {}
        if nobs:
            extras["next_obs"] = t1.observation   # the true successor observation of every step
        ts = t1.replace(observation=sel(t0.observation, t1.observation), extras=extras)
        return sel(s0, s1), ts
    return f


def run_sig(ctx, sig, kind):
    from jumanji import wrappers
    if kind == "synthetic":
        st, ts, a = A.synthetic()[sig]
    else:
        name, cfg = sig.split("@")
        st, ts, a = A.real_signature(E.ALL()[name][cfg]())
    key = jnp.zeros((2,), jnp.uint32)
    for nobs in (False, True):
        env = A.AbsEnv(st, ts, a)
        w = wrappers.AutoResetWrapper(env, next_obs_in_extras=nobs)
        spec = spec_step(env, nobs)

        def ens(s, act, w=w, spec=spec):
            out = leaves_eq("C13.step", w.step(s, act), spec(s, act))
            s1, t1 = env.step(s, act)
            ws, wt = w.step(s, act)
            # not LAST: precisely what the wrapped step returns (state, and all timestep fields)
            notlast = t1.step_type != 2
            core_t = lambda t: (t.step_type, t.reward, t.discount, t.observation)
            out["C13.not_last_passthrough"] = ~notlast | (jax.tree_util.tree_reduce(
                lambda r, x: r & x, jax.tree_util.tree_map(lambda x, y: jnp.all(x == y), (ws, core_t(wt)), (s1, core_t(t1))), jnp.asarray(True)))
            out["canary.never_resets"] = jax.tree_util.tree_reduce(
                lambda r, x: r & x, jax.tree_util.tree_map(lambda x, y: jnp.all(x == y), ws, s1), jnp.asarray(True))
            return out

        ctx.prove(f"AutoResetWrapper.step[{sig},next_obs={nobs}]", (st, a), ens, targets=[wrappers.AutoResetWrapper.step,
                  wrappers.AutoResetWrapper._auto_reset, wrappers.add_obs_to_extras], use_stubs=False, selfcheck=False, merge_over=8)

        def ens_reset(k, w=w, nobs=nobs):
            s0, t0 = env.reset(k)
            extras = dict(t0.extras) if t0.extras is not None else {}
            if nobs:
                extras["next_obs"] = t0.observation
            out = leaves_eq("C13.reset", w.reset(k), (s0, t0.replace(extras=extras)))
            out["canary.reset_obs_zero"] = jax.tree_util.tree_reduce(
                lambda r, x: r & jnp.all(x == 0), w.reset(k)[1].observation, jnp.asarray(True))
            return out

        ctx.prove(f"AutoResetWrapper.reset[{sig},next_obs={nobs}]", (key,), ens_reset, targets=[wrappers.AutoResetWrapper.reset],
                  use_stubs=False, selfcheck=False, merge_over=8)


KEY_OK = {"random_split", "random_fold_in", "random_wrap", "random_unwrap", "slice", "squeeze", "reshape", "select_n", "cond", "pjit",
          "broadcast_in_dim", "concatenate", "gather", "dynamic_slice", "convert_element_type", "copy", "copy_p", "scan", "while",
          "custom_jvp_call", "closed_call", "expand_dims", "transpose", "dynamic_update_slice", "scatter", "iota", "eq", "lt", "add",
          "ne", "and", "or", "not", "ge", "gt", "le", "sub", "clamp", "stop_gradient"}


def _slice_prims(fn, args, pick):
    """primitives in the backward slice of the output leaf selected by `pick` (pe.dce_jaxpr handles nested control flow)"""
    from jxv.core import _prims
    cj, shape = jax.make_jaxpr(fn, return_shape=True)(*args)
    leaves = jax.tree_util.tree_flatten_with_path(shape)[0]
    used = [pick(jax.tree_util.keystr(p)) for p, _ in leaves]
    assert sum(used) == 1, [jax.tree_util.keystr(p) for p, _ in leaves]
    jaxpr, used_in = pe.dce_jaxpr(cj.jaxpr, used, instantiate=False)
    return _prims(jaxpr), used_in, jaxpr


def run_keys(ctx, name, cfg):
    """freshness: the key stored in the state is derived from the incoming key by split/fold_in/identity only, and depends on it"""
    env = E.ALL()[name][cfg]()
    state, ts, a = E.example(env)
    key = jax.random.PRNGKey(0)
    pick = lambda p: p in ("[0].key",)
    prims, used_in, _ = _slice_prims(env.reset, (key,), pick)
    arith = sorted(p for p in prims if p not in KEY_OK)
    ctx.structural(f"{name}.reset@{cfg}/C13.state_key_derived_from_input_key", used_in[0] and not arith, "jaxpr dataflow (pe.dce_jaxpr)",
                   detail={"depends_on_input_key": bool(used_in[0]), "non_key_primitives_in_slice": arith}, targets=[type(env).reset])
    flat_state = jax.tree_util.tree_flatten_with_path((state, a))[0]
    prims, used_in, _ = _slice_prims(env.step, (state, a), pick)
    key_idx = [i for i, (p, _) in enumerate(flat_state) if jax.tree_util.keystr(p) == "[0].key"]
    arith = sorted(p for p in prims if p not in KEY_OK)
    dep = all(used_in[i] for i in key_idx)
    ctx.structural(f"{name}.step@{cfg}/C13.state_key_derived_from_state_key", dep and not arith, "jaxpr dataflow (pe.dce_jaxpr)",
                   detail={"depends_on_state_key": bool(dep), "non_key_primitives_in_slice": arith}, targets=[type(env).step])


def tasks(tier):
    out = {}
    for sig in A.synthetic():
        out[f"syn:{sig}"] = (run_sig, {"sig": sig, "kind": "synthetic"})
    for name in E.QUICK:
        cfg = E.QUICK[name][0]
        out[f"sig:{name}@{cfg}"] = (run_sig, {"sig": f"{name}@{cfg}", "kind": "real"})
        out[f"keys:{name}@{cfg}"] = (run_keys, {"name": name, "cfg": cfg})
    return out


LEVEL_TEXT = ("Proof over an abstract environment: AutoResetWrapper.step/reset equal, leaf by leaf, the specification transcribed from the "
              "property (not LAST: exactly the wrapped step; LAST: state and observation of reset(split(terminal.key)[0]), step type / "
              "reward / discount / extras of the terminal step; extras['next_obs'] = true successor observation of every step), for every "
              "environment with the signature of each of the 23 classes and 3 synthetic ones, both next_obs settings, all values. "
              "Freshness: per environment a dataflow obligation on the real jaxprs shows state.key is derived from the incoming key "
              "only through split/fold_in/selection.")
LEVEL_NOTE = ("env.reset/env.step uninterpreted; random_split uninterpreted (key-tree idealisation for distinctness); per-signature "
              "(shape-monomorphic); jit/vmap/scan agreement not proved.")
