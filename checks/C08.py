"""C08 — Rewards add up to the documented objective; dense and sparse agree.  Driver over the per-environment sidecar contracts (contracts/<env>.py): keeps the clauses named C08.*"""
from jxv import envdriver

LEVEL = "proof"
CONFIG_BOUND = "configurations listed in contracts/envs.py or in the contract module itself (small and adversarial: non-square, minimum sizes, >1 agents); values unbounded"
NOT_VERIFIED = ["environments / clauses for which no C08 clause is present in the contract module (the evidence lists, per task, which clauses were discharged)",
                "configurations outside the list"]
ASSUMPTIONS = ["sampler contracts of jax.random (DESIGN.md section 5)", "induction over the episode from the per-step obligations (reset establishes Inv, step preserves it)"]


def tasks(tier):
    return envdriver.tasks("C08", tier)


LEVEL_TEXT = ("Proof by ghost return: for every listed configuration and ALL invariant states and legal actions, reward == partial_objective(s') - partial_objective(s) (dense) and reward == objective at LAST else 0 (sparse), so both returns telescope to the documented objective recomputed from the final state, hence dense == sparse on every legal trajectory (induction over the episode).")
LEVEL_NOTE = ('real arithmetic (no rounding): equality of float32 returns with a float64 recomputation is NOT claimed; products of symbolic floats are a commutative uninterpreted function where stated; environments not covered are listed in not_verified.')
