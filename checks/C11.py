"""C11 — episodes end exactly at the configured time limit / within the structural horizon.

(1) constructors (Engine P): the REAL __init__ of every environment that accepts `time_limit` runs on a symbolic T >= 1 and stores exactly T
    (RubiksCube additionally rejects T <= 0; Maze / Cleaner / PacMan fall back to their documented default for None);
(2) per-environment step/reset clauses of the sidecar contracts (contracts/<env>.py, clause names C11.*): counting, never later, never earlier
    with the time limit a SYMBOLIC scalar injected at trace time (one proof for every T), and variants for the environments without time limit."""
import z3

from jxv import envdriver

LEVEL = "proof"
CONFIG_BOUND = "configurations of contracts/envs.py (or the contract module's own list); time_limit unbounded (symbolic) in constructors and in step"
NOT_VERIFIED = ["never_earlier for environments whose contract module does not state it (see evidence: clause list per environment)",
                "Environment.__init__ (spec caching) is stubbed while the constructors are explored"]
ASSUMPTIONS = ["induction over the episode: counting + never_later + never_earlier for every state imply that the first LAST of an episode that does not end "
               "otherwise is at step number T (lemma over the per-step contracts, not a separate query)"]


def _ctors():
    from jumanji.environments import (MMST, Cleaner, Connector, LevelBasedForaging, Maze, PacMan, RobotWarehouse, RubiksCube, SlidingTilePuzzle, Snake,
                                      Sokoban, Tetris)
    from jumanji.environments.logic.rubiks_cube.generator import ScramblingGenerator
    from jumanji.environments.logic.sliding_tile_puzzle.generator import RandomWalkGenerator as STGen
    from jumanji.environments.routing.cleaner.generator import RandomGenerator as CGen
    from jumanji.environments.routing.connector.generator import UniformRandomGenerator as CoU
    from jumanji.environments.routing.lbf.generator import RandomGenerator as LGen
    from jumanji.environments.routing.maze.generator import RandomGenerator as MGen
    from jumanji.environments.routing.robot_warehouse.generator import RandomGenerator as RWGen
    from jumanji.environments.routing.sokoban.generator import ToyGenerator as SToy
    return {
        "RubiksCube": (RubiksCube, lambda T: RubiksCube(ScramblingGenerator(2, 2), time_limit=T), None),
        "SlidingTilePuzzle": (SlidingTilePuzzle, lambda T: SlidingTilePuzzle(STGen(2, 2), time_limit=T), None),
        "Tetris": (Tetris, lambda T: Tetris(4, 4, time_limit=T), None),
        "Cleaner": (Cleaner, lambda T: Cleaner(CGen(3, 5, 1), time_limit=T), 15),
        "Connector": (Connector, lambda T: Connector(CoU(3, 2), time_limit=T), None),
        "LevelBasedForaging": (LevelBasedForaging, lambda T: LevelBasedForaging(LGen(6, 2, 2, 2), time_limit=T), None),
        "Maze": (Maze, lambda T: Maze(MGen(3, 5), time_limit=T), 15),
        "MMST": (MMST, lambda T: MMST(time_limit=T), None),
        "PacMan": (PacMan, lambda T: PacMan(time_limit=T), 1000),
        "RobotWarehouse": (RobotWarehouse, lambda T: RobotWarehouse(RWGen(1, 3, 1, 1, 1, 2), time_limit=T), None),
        "Snake": (Snake, lambda T: Snake(3, 3, time_limit=T), None),
        "Sokoban": (Sokoban, lambda T: Sokoban(SToy(), time_limit=T), None),
    }


def run_ctor(ctx, name):
    import jumanji.env as JE
    from checks.C16 import Rec
    from jxv import pyexec as P
    cls, mk, none_default = _ctors()[name]
    real_init = JE.Environment.__init__
    JE.Environment.__init__ = lambda self: None   # spec caching is C01's concern; stubbed (listed under `replaced`)
    ctx.replaced.append("jumanji.env.Environment.__init__ (spec caching) -> no-op while exploring constructors")
    try:
        Eg = P.reset_engine()
        Tt = z3.Int("T")
        T = P.SymInt(Tt)
        R = Rec(ctx, f"{name}.__init__", targets=[cls.__init__])
        paths = P.explore(lambda: mk(T))
        R.complete("C11.ctor.paths_complete", paths)
        ok_paths = [(pc, o[1]) for pc, o in paths if o[0] == "ret"]
        acc = z3.Or(*[P.pc_term(pc) for pc, _ in ok_paths]) if ok_paths else z3.BoolVal(False)

        def wit(m):
            v = m.eval(Tt, model_completion=True).as_long()
            try:
                env = mk(v)
                got = env.time_limit
            except Exception as ex:
                got = repr(ex)[:100]
            return {"inputs": {"time_limit": v}, "native_time_limit": str(got), "confirmed": got != v}
        R.ob("C11.ctor.accepts_every_positive_time_limit", z3.Implies(Tt >= 1, acc), replay=wit)
        stored = True
        for pc, env in ok_paths:
            tl = env.time_limit
            term = tl.term if isinstance(tl, P.SymInt) else z3.IntVal(int(tl))
            R.ob(f"C11.ctor.stores_exactly_the_time_limit_passed[{len(pc)}]", z3.Implies(Tt >= 1, term == Tt), extra=pc, replay=wit)
        if name == "RubiksCube":
            exc = z3.Or(*[P.pc_term(pc) for pc, o in paths if o[0] == "exc" and isinstance(o[1], ValueError)] or [z3.BoolVal(False)])
            R.ob("C11.ctor.rejects_non_positive_time_limit_with_ValueError", z3.Implies(Tt <= 0, exc), replay=wit)
        R.ob("canary.ctor_rejects_every_time_limit", z3.Not(acc), replay=lambda m: {"confirmed": True})
    finally:
        JE.Environment.__init__ = real_init
    if none_default is not None:
        env = mk(None)
        ctx.structural(f"{name}.__init__/C11.ctor.None_gives_the_documented_default", env.time_limit == none_default, "native execution (single value)",
                       detail={"time_limit": int(env.time_limit), "documented": none_default}, targets=[cls.__init__])
    for v in (1, 2, 3, 7):
        env = mk(v)
        ctx.structural(f"{name}.__init__/C11.ctor.native_cross_check[time_limit={v}]", env.time_limit == v, "native execution (cross-check of the proxy run)",
                       detail={"time_limit": int(env.time_limit)}, witness={"time_limit": v, "stored": int(env.time_limit)})


def tasks(tier):
    out = envdriver.tasks("C11", tier)
    for name in _ctors():
        out[f"ctor:{name}"] = (run_ctor, {"name": name})
    return out


LEVEL_TEXT = ("Proof: (1) the real constructor of each of the 12 environments that accept a time limit, run on a symbolic T, stores exactly T for every T >= 1 "
              "(all paths enumerated); (2) with the time limit injected as a symbolic scalar at trace time, the real step satisfies for ALL states, actions and "
              "T: step_count' = step_count + 1, step_count + 1 >= T => LAST (never later), LAST before T only for the environment's documented other reason "
              "(never earlier); reset starts the counter at 0; environments without a time limit have a bounded variant that strictly decreases on every MID step.")
LEVEL_NOTE = ("per-configuration proofs with symbolic T; the 'first LAST is exactly at step T' conclusion is the induction over these per-step contracts; clauses "
              "per environment are listed in the evidence (environments whose contract lacks never_earlier are named under not_verified).")
