"""C03 — FIRST, MID*, LAST protocol with sane reward and discount.  Proved for EVERY state and action (no invariant
needed), hence also for steps taken after a LAST timestep; reset for every key and every sampler outcome."""
import jax
import jax.numpy as jnp

from contracts import envs as E

LEVEL = "proof"
CONFIG_BOUND = "one or more small configurations per environment class (contracts/envs.py); values, keys, actions unbounded"
NOT_VERIFIED = ["configurations outside the list", "jit/vmap/scan agreement (JAX meta-theory)"]


def step_clauses(env, name):
    def ensures(s, a):
        s2, ts = env.step(s, a)
        d = jnp.asarray(ts.discount)
        st = ts.step_type
        mid, last = st == 1, st == 2
        out = {
            "C03.step_type_mid_or_last": mid | last,
            "C03.discount_in_unit_interval": (d >= 0) & (d <= 1),
            "C03.mid_discount_not_all_zero": ~mid | jnp.any(d != 0),
            "canary.step_returns_first": st == 0,
        }
        if name != "LevelBasedForaging":
            out["C03.last_discount_zero"] = ~last | jnp.all(d == 0)
        else:
            # documented exception: truncation at the time limit keeps the discount
            trunc = s.step_count + 1 >= env.time_limit
            out["C03.last_discount_zero_unless_truncated"] = ~last | jnp.all(d == 0) | trunc
        return out
    return ensures


def reset_clauses(env):
    rs, ds = env.reward_spec, env.discount_spec

    def ensures(key):
        s, ts = env.reset(key)
        r, d = jnp.asarray(ts.reward), jnp.asarray(ts.discount)
        return {"C03.reset_first": ts.step_type == 0, "C03.reset_reward_zero": r == 0, "C03.reset_discount_one": d == 1,
                "canary.reset_returns_last": ts.step_type == 2}
    return ensures


def run_env(ctx, name, cfg):
    env = E.ALL()[name][cfg]()
    state, ts, a = E.example(env)
    ctx.prove(f"{name}.step@{cfg}", (state, a), step_clauses(env, name), targets=[type(env).step], while_bound=12)
    key = jax.random.PRNGKey(0)
    # shape/dtype of reward and discount against the specs: JAX's abstract evaluation holds for every input
    out = jax.eval_shape(env.reset, key)[1]
    out2 = jax.eval_shape(env.step, state, a)[1]
    for tag, o in (("reset", out), ("step", out2)):
        for fld, spec in (("reward", env.reward_spec), ("discount", env.discount_spec)):
            v = getattr(o, fld)
            ok = tuple(v.shape) == tuple(spec.shape) and v.dtype == spec.dtype
            wit = None
            if not ok:  # an aval mismatch fails for EVERY input: run the real function once natively and record what it returned
                try:
                    real = getattr(env.reset(key)[1] if tag == "reset" else env.step(state, a)[1], fld)
                    real = jnp.asarray(real)
                    if tuple(real.shape) != tuple(spec.shape) or real.dtype != spec.dtype:
                        wit = {"input": "reset(PRNGKey(0))" if tag == "reset" else "step(reset(PRNGKey(0)).state, action_spec.generate_value())",
                               "returned": [list(real.shape), str(real.dtype)], "declared": [list(spec.shape), str(spec.dtype)]}
                except Exception as ex:
                    wit = None
            ctx.structural(f"{name}.{tag}@{cfg}/C03.{fld}_aval_matches_spec", ok, "jax.eval_shape",
                           detail={"aval": [list(v.shape), str(v.dtype)], "spec": [list(spec.shape), str(spec.dtype)]},
                           targets=[getattr(type(env), tag)], witness=wit)
        ctx.structural(f"{name}.{tag}@{cfg}/C03.step_type_is_int8_scalar", tuple(o.step_type.shape) == () and o.step_type.dtype == jnp.int8,
                       "jax.eval_shape")
    ctx.prove(f"{name}.reset@{cfg}", (key,), reset_clauses(env), targets=[type(env).reset], while_bound=4)


def tasks(tier):
    out = {}
    for name in E.QUICK:
        cfgs = E.configs(name, tier)
        if tier == "quick":
            cfgs = dict(list(cfgs.items())[:1])
        for cfg in cfgs:
            out[f"{name}@{cfg}"] = (run_env, {"name": name, "cfg": cfg})
    return out

LEVEL_TEXT = ("Proof: for each listed configuration of all 23 environment classes, every clause of the FIRST/MID/LAST protocol "
              "(step never FIRST; discount in [0,1]; MID => some discount non-zero; LAST => all discounts zero, LBF truncation excepted; "
              "reset => FIRST, reward 0, discount 1, avals equal to the specs) is a verification condition generated from the jaxpr of the real "
              "step/reset and discharged by z3 for ALL states, actions and keys (no invariant assumed, so steps after LAST are covered).")
LEVEL_NOTE = ("Per-configuration (shape-monomorphic) proofs; floats as reals; integer wrap-around not modelled; sampler contracts assumed; "
              "jit/vmap/scan agreement is JAX meta-theory (not proved).")
