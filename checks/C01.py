"""C01 — everything an environment emits conforms to the specs it declares.

(1) structure / shape / dtype for ALL inputs: JAX's abstract evaluation of the real reset/step (jax.eval_shape) against observation_spec,
    reward_spec, discount_spec, leaf by leaf, for every configuration of all 23 classes;
(2) value bounds: clauses C01.*_obs_bounds.* of the per-environment contracts: every bounded leaf of the observation is within its declared
    bounds after reset and after EVERY step (terminal one included) from any invariant state;
(3) action_spec.generate_value() is a member of the action spec (native, one value) and step is total on it (a jaxpr with matching avals exists)."""
import jax
import jax.numpy as jnp

from contracts import common as K
from contracts import envs as E
from jxv import envdriver

LEVEL = "proof"
CONFIG_BOUND = "configurations of contracts/envs.py (or the contract module's own list) for all 23 environment classes"
NOT_VERIFIED = ["value bounds of float leaves are proved in real arithmetic (no NaN/Inf, no rounding)", "configurations outside the list",
                "environments whose contract module has no C01 bounds clause for a leaf are named in the evidence (clause list)"]
ASSUMPTIONS = ["jax.eval_shape output avals are the shapes/dtypes of every execution (JAX's type system)"]


def run_avals(ctx, name, cfg):
    env = E.ALL()[name][cfg]()
    key = jax.random.PRNGKey(0)
    state, ts = jax.eval_shape(env.reset, key)
    a = env.action_spec.generate_value()
    state2, ts2 = jax.eval_shape(env.step, state, a)
    from jxv import core
    ctx.problems.append({"title": f"{name}@{cfg}", "engine": "jax.eval_shape", "targets": [core.target_meta(type(env).reset), core.target_meta(type(env).step)]})
    real = {}

    def native(tag, what, nm):
        """an aval mismatch fails for EVERY input: execute the real reset/step once and report what it really returned for the failing leaf"""
        try:
            if not real:
                s0, t0 = env.reset(key)
                real["reset"], real["step"] = t0, env.step(s0, a)[1]
            sp = env.observation_spec if what == "observation" else getattr(env, what + "_spec")
            bad = [(n2, d2) for n2, ok2, d2 in K.spec_avals(sp, getattr(real[tag], what), what) if n2 == nm and not ok2]
            return {"input": "reset(PRNGKey(0))" if tag == "reset" else "step(reset(PRNGKey(0)).state, action_spec.generate_value())", "native": bad[0][1]} if bad else None
        except Exception as ex:
            return None

    for tag, t in (("reset", ts), ("step", ts2)):
        for nm, ok, det in K.spec_avals(env.observation_spec, t.observation, "observation"):
            ctx.structural(f"{name}.{tag}@{cfg}/C01.{nm}", ok, "jax.eval_shape vs spec", detail=det, witness=None if ok else native(tag, "observation", nm))
        for fld, spec in (("reward", env.reward_spec), ("discount", env.discount_spec)):
            for nm, ok, det in K.spec_avals(spec, getattr(t, fld), fld):
                ctx.structural(f"{name}.{tag}@{cfg}/C01.{nm}", ok, "jax.eval_shape vs spec", detail=det, witness=None if ok else native(tag, fld, nm))
    # generate_value is a member of the action spec and accepted by step
    try:
        env.action_spec.validate(a)
        ok, det = True, None
    except Exception as ex:
        ok, det = False, {"error": repr(ex)[:200]}
    ctx.structural(f"{name}@{cfg}/C01.generate_value_is_a_member_of_the_action_spec", ok, "native execution (one value)", detail=det, witness=det)
    ctx.structural(f"{name}@{cfg}/C01.step_is_total_on_generate_value", jax.tree_util.tree_structure(state2) == jax.tree_util.tree_structure(state), "jax.eval_shape",
                   detail=None)
    # the generated action is inside the bounds used as `in_spec` by the contracts
    ctx.structural(f"{name}@{cfg}/C01.generate_value_within_bounds", bool(jnp.all(E.in_spec(env, a))), "native execution (one value)")


def tasks(tier):
    out = envdriver.tasks("C01", tier)
    for name in E.QUICK:
        for cfg in E.configs(name, tier):
            out[f"avals:{name}@{cfg}"] = (run_avals, {"name": name, "cfg": cfg})
    return out


LEVEL_TEXT = ("Proof: structure, shape and dtype of every observation/reward/discount leaf equal the declared specs for ALL inputs (JAX abstract evaluation of the "
              "real reset/step), for every listed configuration of all 23 classes; every bounded observation leaf is within its declared bounds after reset "
              "(all keys / sampler outcomes) and after every step, terminal step included, from any state satisfying the environment's invariant and any in-spec "
              "action (SMT, element by element); generate_value() validates against the action spec and step is total on it.")
LEVEL_NOTE = ("bounds proved per configuration under the environment invariant (inductive: C07/C06 clauses of the same contract module); floats as reals; the "
              "discount bounds come from C03.")
