"""Sidecar contract for jumanji.environments.packing.flat_pack.env:FlatPack.

Rules, written from the class docstring, `types.py`, `utils.rotate_block` and the reward docstrings:
* an action is (block, number of quarter turns, row, col): the chosen 3x3 block is rotated by 0/90/180/270 degrees and
  its top-left corner is put at (row, col) of the grid; the action space only contains positions at which the 3x3 window
  lies inside the grid;
* a placement is legal iff the block has not been placed yet AND no non-zero cell of the rotated block falls on an
  occupied (non-zero) grid cell; a legal placement writes the block's cells onto the grid and marks the block placed;
  an illegal placement is ignored (grid and placed_blocks unchanged); every step increments the step counter;
* the episode ends when `num_blocks` steps have been taken (all blocks can only be placed by then);
* cell-dense reward: number of non-zero cells of the placed block / number of grid cells (return = covered fraction);
  block-dense reward: 1 / num_blocks per placed block (return = placed fraction); 0 for an ignored action.
The direction of a quarter turn is not documented; `ROT1` fixes it as clockwise (out[i][j] = in[2-j][i]); the C4 group
laws (C09.rotate_block.*) are independent of that choice.
"""
import jax
import jax.numpy as jnp

from contracts import common as K
from contracts import envs as E

ENV = "FlatPack"
PROPS = ("C01", "C04", "C05", "C06", "C08", "C09", "C11", "C12")  # properties this module has clauses for


def configs(tier):
    from jumanji.environments import FlatPack
    from jumanji.environments.packing.flat_pack.generator import RandomFlatPackGenerator as G
    from jumanji.environments.packing.flat_pack.reward import BlockDenseReward, CellDenseReward

    out = {"2x2cell": lambda: FlatPack(G(2, 2), CellDenseReward()), "2x2block": lambda: FlatPack(G(2, 2), BlockDenseReward()),
           "1x2cell": lambda: FlatPack(G(1, 2), CellDenseReward()), "2x1block": lambda: FlatPack(G(2, 1), BlockDenseReward())}
    if tier != "quick":
        out["2x3cell"] = lambda: FlatPack(G(2, 3), CellDenseReward())
    return out


# ---- rules -----------------------------------------------------------------------------------------------------------
def ROT1(B):
    """one clockwise quarter turn of a 3x3 block, as an explicit index map"""
    return jnp.stack([jnp.stack([B[2 - j, i] for j in range(3)]) for i in range(3)])


def rot_spec(B, k):
    """k quarter turns (k a static int)"""
    for _ in range(k % 4):
        B = ROT1(B)
    return B


def overlaps(grid, RB, r, c):
    """some non-zero cell of the 3x3 block RB, put with its top-left corner at the static position (r, c), is occupied"""
    hit = jnp.asarray(False)
    for i in range(3):
        for j in range(3):
            hit = hit | ((RB[i, j] != 0) & (grid[r + i, c + j] != 0))
    return hit


def legal_from(env, grid, blocks, placed):
    """(num_blocks, 4, num_rows-2, num_cols-2) rule predicate"""
    NB, R, C = env.num_blocks, env.num_rows, env.num_cols
    out = []
    for b in range(NB):
        per_k = []
        for k in range(4):
            RB = rot_spec(blocks[b], k)
            per_k.append(jnp.stack([jnp.stack([~placed[b] & ~overlaps(grid, RB, r, c) for c in range(C - 2)]) for r in range(R - 2)]))
        out.append(jnp.stack(per_k))
    return jnp.stack(out)


def legal(env, s):
    return legal_from(env, s.grid, s.blocks, s.placed_blocks)


def pick(L, a):
    """L[a0, a1, a2, a3] as an explicit case analysis over the action space"""
    r = jnp.asarray(False)
    n0, n1, n2, n3 = L.shape
    for b in range(n0):
        for k in range(n1):
            for x in range(n2):
                for y in range(n3):
                    r = r | ((a[0] == b) & (a[1] == k) & (a[2] == x) & (a[3] == y) & L[b, k, x, y])
    return r


def chosen_rotated_block(env, s, a):
    """the block selected by the (symbolic) action, rotated by the selected number of quarter turns"""
    B = jnp.zeros((3, 3), jnp.int32)
    for b in range(env.num_blocks):
        for k in range(4):
            B = jnp.where((a[0] == b) & (a[1] == k), rot_spec(s.blocks[b], k), B)
    return B


def footprint(env, RB, r, c):
    """(num_rows, num_cols): the block RB with its top-left corner at the (symbolic) in-range position (r, c), 0 elsewhere"""
    R, C = env.num_rows, env.num_cols
    rows = []
    for x in range(R):
        row = []
        for y in range(C):
            v = jnp.asarray(0)
            for i in range(3):
                for j in range(3):
                    v = jnp.where((x - r == i) & (y - c == j), RB[i, j], v)
            row.append(v)
        rows.append(jnp.stack(row))
    return jnp.stack(rows)


def by_action(env, a, clause):
    """case split of a scalar clause over the (finite) action space: counting clauses over the expanded block are only
    tractable for a concrete placement; under in_spec(a) the cases are exhaustive"""
    NB, R, C = env.num_blocks, env.num_rows, env.num_cols
    return jnp.stack([jnp.stack([jnp.stack([jnp.stack([
        (a[0] != b) | (a[1] != k) | (a[2] != r) | (a[3] != c) | clause
        for c in range(C - 2)]) for r in range(R - 2)]) for k in range(4)]) for b in range(NB)])


def block_id(blocks):
    return jnp.max(blocks, axis=(1, 2))


def nnz(x):
    return jnp.sum((x != 0).astype(jnp.int32))


def covered_fraction(env, s):  # documented objective of the cell-dense reward
    return nnz(s.grid).astype(jnp.float32) / (env.num_rows * env.num_cols)


def placed_fraction(env, s):  # documented objective of the block-dense reward
    return jnp.sum(s.placed_blocks.astype(jnp.int32)).astype(jnp.float32) / env.num_blocks


# ---- Feasible (C06) and Inv ------------------------------------------------------------------------------------------
def blocks_wellformed(env, blocks):
    NB = env.num_blocks
    ids = block_id(blocks)
    distinct = [ids[b] != ids[b2] for b in range(NB) for b2 in range(b + 1, NB)]
    out = {"block_cells_are_zero_or_the_block_id": (blocks == 0) | (blocks == ids[:, None, None]),
           "block_ids_in_range": (ids >= 1) & (ids <= NB)}
    if distinct:
        out["block_ids_distinct"] = jnp.stack(distinct)
    return out


def feasible(env, s):
    """every grid cell is covered by at most one block: a cell holds 0 or the id of ONE placed block (no sum artefacts);
    a block is marked placed iff its id is on the grid"""
    NB = env.num_blocks
    ids = block_id(s.blocks)
    cell_ok = s.grid == 0
    for b in range(NB):
        cell_ok = cell_ok | (s.placed_blocks[b] & (s.grid == ids[b]))
    present = jnp.stack([jnp.any(s.grid == ids[b]) for b in range(NB)])
    return {"cell_is_empty_or_one_placed_block": cell_ok,
            "placed_block_has_its_id_on_the_grid": ~s.placed_blocks | present,
            "id_on_the_grid_only_if_placed": s.placed_blocks | ~present}


def inv(env, s):
    NB = env.num_blocks
    out = {**blocks_wellformed(env, s.blocks), **feasible(env, s),
           "num_blocks_field": s.num_blocks == NB,
           "counter": (s.step_count >= 0) & (s.step_count < NB),
           "at_most_one_block_per_step": jnp.sum(s.placed_blocks.astype(jnp.int32)) <= s.step_count,
           "cached_mask_is_the_mask": s.action_mask == legal(env, s)}
    return out


def spec_obs(s):
    return dict(grid=s.grid, blocks=s.blocks, action_mask=s.action_mask)


def problems(env, cfg, tier):
    from jumanji.environments.packing.flat_pack.reward import BlockDenseReward, CellDenseReward
    from jumanji.environments.packing.flat_pack.utils import rotate_block

    NB, R, C = env.num_blocks, env.num_rows, env.num_cols
    state, ts, a = E.example(env)
    state = state.replace(num_blocks=jnp.int32(NB), step_count=jnp.int32(0)) if hasattr(state, "replace") else state
    cell_dense = isinstance(env.reward_fn, CellDenseReward)
    assert cell_dense or isinstance(env.reward_fn, BlockDenseReward)

    def req(s, a):
        return {**inv(env, s), "in_spec": E.in_spec(env, a)}

    def ens(s, a):
        s2, ts = env.step(s, a)
        o = ts.observation
        ok = pick(legal(env, s), a)
        last = ts.step_type == K.LAST
        RB = chosen_rotated_block(env, s, a)
        F = footprint(env, RB, a[2], a[3])
        chosen = a[0] == jnp.arange(NB)
        # The mask of the successor state is stated in two machine-checked parts (DESIGN 6/C04 O1+O2; the whole-step form
        # `s2.action_mask == legal(s2)` is ~100x slower): (a) here: the mask handed out and cached IS the mask function of the
        # returned state (re-evaluating the real function on s2: a syntactic identity), and C06.feasible_* gives s2.grid >= 0;
        # (b) problem `_make_action_mask`: mask_fn(grid, blocks, placed) == rule for ALL arguments with grid >= 0.
        M2 = env._make_action_mask(s2.grid, s2.blocks, s2.placed_blocks)
        exp_grid = jnp.where(ok & (F != 0), F, s.grid)
        exp_placed = s.placed_blocks | (ok & chosen)
        same = (s2.grid == s.grid).all() & (s2.placed_blocks == s.placed_blocks).all()
        lands = []  # block cell (i, j) of a legally placed block is found at grid cell (row + i, col + j), which exists
        for i in range(3):
            for j in range(3):
                found = jnp.asarray(False)
                for x in range(R):
                    for y in range(C):
                        found = found | ((a[2] + i == x) & (a[3] + j == y) & (s2.grid[x, y] == RB[i, j]))
                lands.append(~ok | (RB[i, j] == 0) | found)
        lands = jnp.stack(lands)
        out = {
            # C04
            "C04.mask_is_the_mask_fn_of_the_new_state": o.action_mask == M2,
            "C04.cached_mask_is_the_mask_fn_of_the_new_state": s2.action_mask == M2,
            "C04.new_grid_satisfies_mask_fn_precondition": s2.grid >= 0,
            "C04.legal_move_is_executed_on_the_grid": ~ok | (s2.grid == jnp.where(F != 0, F, s.grid)),
            "C04.legal_move_marks_the_block_placed": ~ok | ~chosen | s2.placed_blocks,
            "C04.illegal_move_is_ignored": ok | same,
            # C05 (ignore-invalid)
            "C05.illegal_move_is_ignored": ok | same,
            "C05.illegal_move_frame": ok | ((s2.blocks == s.blocks).all() & (s2.num_blocks == s.num_blocks) & (s2.key == s.key).all()
                                            & (s2.step_count == s.step_count + 1)),
            # (the mask is then unchanged as well: by C04 it is the mask function of (grid, blocks, placed_blocks) of the new state,
            #  which are the old ones; stating it element-wise on the whole step costs 144 x 3-7 s and adds nothing)
            "C05.illegal_move_reward_zero": ok | (ts.reward == 0.0),
            "C05.illegal_move_episode_continues_like_noop": ok | (last == (s.step_count + 1 >= NB)),
            # C06
            "C06.placement_covers_only_empty_cells": ~ok | (s.grid == 0) | (s2.grid == s.grid),
            "C06.every_cell_of_a_placed_block_lands_inside_the_grid": lands,
            "C06.completion_all_blocks_on_the_grid": ~jnp.all(s2.placed_blocks) | (last & jnp.stack(
                [jnp.any(s2.grid == block_id(s2.blocks)[b]) for b in range(NB)])),
            # C09 placement spec
            "C09.grid": s2.grid == exp_grid,
            "C09.placed_blocks": s2.placed_blocks == exp_placed,
            "C09.step_count": s2.step_count == s.step_count + 1,
            "C09.frame": (s2.blocks == s.blocks).all() & (s2.num_blocks == s.num_blocks) & (s2.key == s.key).all(),
            "C09.last": last == (s.step_count + 1 >= NB),
            "C09.discount": ts.discount == jnp.where(last, 0.0, 1.0),
            # C11 (no time limit: the structural horizon is num_blocks steps)
            "C11.counting": s2.step_count == s.step_count + 1,
            "C11.variant_decreases": last | (s2.num_blocks - s2.step_count < s.num_blocks - s.step_count),
            "C11.variant_bounded": (s.num_blocks - s.step_count >= 0) & (s.num_blocks - s.step_count <= NB),
            "C11.never_later": (s.step_count + 1 < NB) | last,
            "C11.never_earlier": ~last | (s.step_count + 1 >= NB),
            "C11.all_blocks_placed_implies_last": ~jnp.all(s2.placed_blocks) | last,
            "canary.grid_never_changes": (s2.grid == s.grid).all(),
        }
        if cell_dense:
            # return = covered fraction, stated as frame + balance (DESIGN 3.2): per cell, the covered-indicator grows by exactly
            # [this legal placement writes the cell]; the reward is the sum of these per-cell increments / #cells.  By the
            # finite-sum lemma: reward == covered_fraction(s2) - covered_fraction(s)  (the direct global-count clause is
            # `unknown` after 30 s even for a concrete action).
            writes = ok & (F != 0)
            out["C08.cell_covered_indicator_increment"] = ((s2.grid != 0).astype(jnp.int32) - (s.grid != 0).astype(jnp.int32)
                                                           == writes.astype(jnp.int32))
            out["C08.cell_dense_reward_is_sum_of_cell_increments"] = by_action(
                env, a, ts.reward == jnp.sum(writes.astype(jnp.int32)).astype(jnp.float32) / (R * C))
            out["C09.reward"] = by_action(env, a, ts.reward == jnp.where(ok, nnz(RB), 0).astype(jnp.float32) / (R * C))
        else:
            out["C08.block_dense_reward_is_placed_fraction_increment"] = ts.reward == placed_fraction(env, s2) - placed_fraction(env, s)
            out["C09.reward"] = ts.reward == jnp.where(ok, 1.0 / NB, 0.0)
        out["C08.return_at_most_one"] = (covered_fraction(env, s2) <= 1.0) & (placed_fraction(env, s2) <= 1.0)
        for k, v in spec_obs(s2).items():
            out["C12.obs." + k] = getattr(o, k) == v
        for k, v in feasible(env, s2).items():  # Feasible holds after EVERY in-spec action (illegal ones are ignored), also on LAST
            out["C06.feasible_" + k] = v
        for k, v in inv(env, s2).items():
            if k != "cached_mask_is_the_mask" and k not in feasible(env, s):  # mask: re-established by C04 (a)+(b); Feasible: above
                out["C06.inv_" + k] = last | v
        out.update(K.spec_bounds(env.observation_spec, o, "C01.step_obs_bounds"))
        return out

    T = type(env)
    step = dict(title=f"FlatPack.step@{cfg}", args=(state, a), requires=req, ensures=ens, workers=4,
                targets=[T.step, T._make_action_mask, T._is_legal_action, T._expand_block_to_grid, T._is_done, T._observation_from_state,
                         rotate_block, type(env.reward_fn).__call__])

    # pure views need no invariant
    def ens_any(s, a):
        s2, ts = env.step(s, a)
        o = ts.observation
        out = {"C11.counting_any_state": s2.step_count == s.step_count + 1,
               "canary.mask_never_changes": (s2.action_mask == s.action_mask).all()}
        for k, v in spec_obs(s2).items():
            out["C12.any_state_obs." + k] = getattr(o, k) == v
        return out

    step_any = dict(title=f"FlatPack.step(any state)@{cfg}", args=(state, a), requires=lambda s, a: {"in_spec": E.in_spec(env, a)},
                    ensures=ens_any, targets=[T.step, T._observation_from_state], props=("C11", "C12"))

    # the mask function alone == the rule, for all grids, block sets and placed flags
    def mask_ens(grid, blocks, placed):
        got = env._make_action_mask(grid, blocks, placed)
        return {"C04.mask_fn_is_the_rule": got == legal_from(env, grid, blocks, placed),
                "canary.mask_fn_all_false": ~got.any()}

    mask_fn = dict(title=f"FlatPack._make_action_mask@{cfg}", args=(state.grid, state.blocks, state.placed_blocks),
                   requires=lambda grid, blocks, placed: {"grid_cells_nonnegative": grid >= 0}, ensures=mask_ens, workers=4,
                   targets=[T._make_action_mask, T._is_legal_action, T._expand_all_blocks_to_grids, T._expand_block_to_grid, rotate_block],
                   props=("C04",), note="callee contract used to re-establish Inv.cached_mask_is_the_mask after a step")

    # rotate_block: the four rotations form the cyclic group C4 acting on 3x3 blocks; _expand_block_to_grid
    def rot_ens(B, k, l, r, c):
        out = {}
        for q in range(4):
            out[f"C09.rotate_block.rotation_{q}_is_{q}_quarter_turns"] = rotate_block(B, q) == rot_spec(B, q)
        r1 = lambda X: rotate_block(X, 1)
        out["C09.rotate_block.r1_has_order_four"] = r1(r1(r1(r1(B)))) == B
        out["C09.rotate_block.r2_is_r1_twice"] = rotate_block(B, 2) == r1(r1(B))
        out["C09.rotate_block.r3_is_r1_thrice"] = rotate_block(B, 3) == r1(r1(r1(B)))
        out["C09.rotate_block.r3_inverts_r1"] = rotate_block(rotate_block(B, 1), 3) == B
        out["C09.rotate_block.composition_adds_mod_4"] = rotate_block(rotate_block(B, k), l) == rotate_block(B, (k + l) % 4)
        out["C09.rotate_block.preserves_cell_count"] = nnz(rotate_block(B, k)) == nnz(B)
        out["C09.expand_block_to_grid"] = env._expand_block_to_grid(B, r, c) == footprint(env, B, r, c)
        out["canary.rotation_is_identity"] = (rotate_block(B, k) == B).all()
        return out

    z = jnp.int32(0)
    rot = dict(title=f"FlatPack.rotate_block/_expand_block_to_grid@{cfg}", args=(state.blocks[0], z, z, z, z),
               requires=lambda B, k, l, r, c: {"rotations_in_spec": (k >= 0) & (k < 4) & (l >= 0) & (l < 4),
                                               "position_in_spec": (r >= 0) & (r < R - 2) & (c >= 0) & (c < C - 2)},
               ensures=rot_ens, targets=[rotate_block, T._expand_block_to_grid], props=("C09",))

    # reset with the generator as a contract boundary (scans + samplers; its post-condition is C10's obligation)
    def gen_post(g, key):
        return {**blocks_wellformed(env, g.blocks), "grid_empty": g.grid == 0, "nothing_placed": ~g.placed_blocks,
                "step_count_zero": g.step_count == 0, "num_blocks_field": g.num_blocks == NB, "mask_all_true": g.action_mask}

    def reset_ens(g, key):
        s, ts = K.reset_from(env, "generator", g, key)
        o = ts.observation
        out = {"C04.reset_mask_is_exactly_the_legal_moves": o.action_mask == legal(env, s),
               "C11.reset_step_count_zero": s.step_count == 0,
               "C08.reset_ghost_return_zero": (covered_fraction(env, s) == 0.0) & (placed_fraction(env, s) == 0.0),
               "canary.reset_every_block_cell_is_filled": (s.blocks != 0).all()}
        for k, v in spec_obs(s).items():
            out["C12.reset_obs." + k] = getattr(o, k) == v
        for k, v in inv(env, s).items():
            out["C06.reset_inv_" + k] = v
        out.update(K.spec_bounds(env.observation_spec, o, "C01.reset_obs_bounds"))
        return out

    reset = dict(title=f"FlatPack.reset@{cfg}", args=(state, jax.random.PRNGKey(0)), requires=gen_post, ensures=reset_ens,
                 targets=[T.reset], note="generator replaced by its post-condition (contract boundary; the generator's own contract is C10)")
    return [step, step_any, mask_fn, rot, reset]
