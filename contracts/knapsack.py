"""Sidecar contract for jumanji.environments.packing.knapsack.env:Knapsack.

Rules (from the class docstring and the reward docstrings): action i packs item i.  The move is legal iff the item is
not packed yet and its weight is not larger than the remaining capacity of the bag (budget minus the weight already
packed).  An illegal move ends the episode with reward 0 and leaves the state untouched.  The episode also ends when no
item can be packed any more.  Dense reward: value of the packed item; sparse reward: total packed value at the end of
the episode (0 before; 0 on an invalid move).  Objective: sum of the values of the packed items.
No time limit: the structural horizon is the number of items."""
import jax
import jax.numpy as jnp

from contracts import common as K
from contracts import envs as E

ENV = "Knapsack"


def configs(tier):
    from jumanji.environments import Knapsack
    from jumanji.environments.packing.knapsack.generator import RandomGenerator
    from jumanji.environments.packing.knapsack.reward import DenseReward, SparseReward

    c = {"3dense": lambda: Knapsack(RandomGenerator(3, 1.5), DenseReward()),
         "3sparse": lambda: Knapsack(RandomGenerator(3, 1.5), SparseReward()),
         "5dense": lambda: Knapsack(RandomGenerator(5, 2.0), DenseReward()),
         "5sparse": lambda: Knapsack(RandomGenerator(5, 2.0), SparseReward())}
    if tier != "quick":
        c["8dense"] = lambda: Knapsack(RandomGenerator(8, 2.5), DenseReward())
        c["7sparse"] = lambda: Knapsack(RandomGenerator(7, 2.5), SparseReward())  # jnp.dot(bool, float) is a non-linear term: n=8 needs ~60 s
        c["2tight-sparse"] = lambda: Knapsack(RandomGenerator(2, 0.25), SparseReward())
    return c


def is_dense(env):
    from jumanji.environments.packing.knapsack.reward import DenseReward
    return isinstance(env.reward_fn, DenseReward)


def spec_bounds(spec, value, prefix):
    """`min <= leaf <= max` for every bounded leaf of the observation spec.  (Local version of K.spec_bounds: in
    jumanji every Array spec is itself a `specs.Spec` with an empty `_specs`, so K.spec_bounds, which tests
    `isinstance(spec, specs.Spec)` first, yields no clause at all for array leaves.)"""
    from jumanji import specs

    out = {}
    if isinstance(spec, specs.MultiDiscreteArray):
        v = jnp.asarray(value)
        out[prefix] = (v >= 0) & (v < jnp.asarray(spec.num_values))
    elif isinstance(spec, specs.BoundedArray):  # includes DiscreteArray
        v = jnp.asarray(value)
        if v.dtype != bool:
            out[prefix] = (v >= jnp.asarray(spec.minimum)) & (v <= jnp.asarray(spec.maximum))
    elif isinstance(spec, specs.Array):
        pass
    elif isinstance(spec, specs.Spec):
        for k, sub in spec._specs.items():
            v = getattr(value, k) if hasattr(value, k) else value[k]
            out.update(spec_bounds(sub, v, f"{prefix}.{k}"))
    return out


# ---- the problem, recomputed from raw arrays (explicit loops, no dot products) ------------------------------------
def packed_weight(env, s):
    tot = jnp.float32(0.0)
    for i in range(env.num_items):
        tot = tot + jnp.where(s.packed_items[i], s.weights[i], 0.0)
    return tot


def packed_value(env, s):
    tot = jnp.float32(0.0)
    for i in range(env.num_items):
        tot = tot + jnp.where(s.packed_items[i], s.values[i], 0.0)
    return tot


def feasible(env, s):
    return packed_weight(env, s) <= env.total_budget


def legal(env, s):
    """item i may be packed iff it is not in the bag and its weight fits in what is left of the budget"""
    left = env.total_budget - packed_weight(env, s)
    return jnp.stack([~s.packed_items[i] & (s.weights[i] <= left) for i in range(env.num_items)])


def variant(env, s):
    v = jnp.int32(0)
    for i in range(env.num_items):
        v = v + jnp.where(s.packed_items[i], 0, 1)
    return v


def inv(env, s):
    return {
        "weights_in_unit_interval": (s.weights >= 0) & (s.weights <= 1),
        "values_in_unit_interval": (s.values >= 0) & (s.values <= 1),
        "remaining_budget_is_budget_minus_packed_weight": s.remaining_budget == env.total_budget - packed_weight(env, s),
        "feasible_total_weight_within_budget": feasible(env, s),
    }


def spec_obs(env, s):
    return dict(weights=s.weights, values=s.values, packed_items=s.packed_items,
                action_mask=jnp.stack([~s.packed_items[i] & (s.weights[i] <= s.remaining_budget) for i in range(env.num_items)]))


def spec_step(env, s, a):
    """the documented transition, item by item"""
    n = env.num_items
    ok = legal(env, s)[a]
    packed2 = jnp.stack([s.packed_items[i] | (ok & (a == i)) for i in range(n)])
    w_a = sum(jnp.where(a == i, s.weights[i], 0.0) for i in range(n))
    v_a = sum(jnp.where(a == i, s.values[i], 0.0) for i in range(n))
    rem2 = jnp.where(ok, s.remaining_budget - w_a, s.remaining_budget)
    nothing_left = ~jnp.any(jnp.stack([~packed2[i] & (s.weights[i] <= rem2) for i in range(n)]))
    last = ~ok | nothing_left
    total2 = sum(jnp.where(packed2[i], s.values[i], 0.0) for i in range(n))
    if is_dense(env):
        reward = jnp.where(ok, v_a, 0.0)
    else:
        reward = jnp.where(ok & last, total2, 0.0)
    return dict(weights=s.weights, values=s.values, packed_items=packed2, remaining_budget=rem2, key=s.key), reward, last


def problems(env, cfg, tier):
    state, ts, a0 = E.example(env)
    n = env.num_items
    dense = is_dense(env)

    def req(s, a):
        return {**inv(env, s), "in_spec": E.in_spec(env, a)}

    def ens(s, a):
        s2, ts = env.step(s, a)
        o = ts.observation
        ok = legal(env, s)[a]
        last = ts.step_type == K.LAST
        mid = ts.step_type == K.MID
        r = ts.reward
        out = {
            # C04
            "C04.mask_is_exactly_the_legal_moves": o.action_mask == legal(env, s2),
            "C04.legal_move_not_treated_as_invalid": ~ok | (s2.packed_items[a] & (last == ~jnp.any(legal(env, s2)))),
            "C04.illegal_move_is_treated_as_invalid": ok | last,
            # C05
            "C05.illegal_is_last": ok | last,
            "C05.illegal_reward_is_documented": ok | (r == 0.0),
            "C05.illegal_state_untouched.weights": ok | (s2.weights == s.weights),
            "C05.illegal_state_untouched.values": ok | (s2.values == s.values),
            "C05.illegal_state_untouched.packed_items": ok | (s2.packed_items == s.packed_items),
            "C05.illegal_state_untouched.remaining_budget": ok | (s2.remaining_budget == s.remaining_budget),
            "C05.illegal_state_untouched.key": ok | (s2.key == s.key),
            # C06
            "C06.feasible_after_legal_move": ~ok | feasible(env, s2),
            "C06.feasible_after_any_move": feasible(env, s2),
            "C06.legal_move_packs_exactly_the_item": ~ok | jnp.stack([s2.packed_items[i] == (s.packed_items[i] | (a == i)) for i in range(n)]),
            "C06.completion_is_a_maximal_feasible_packing": ~(ok & last) | (feasible(env, s2) & ~jnp.any(legal(env, s2))),
            # C08 (ghost return g: g' = g + reward)
            "C08.objective_is_nonnegative": packed_value(env, s2) >= 0,
            # C11 (no time limit: variant = number of unpacked items, horizon = num_items)
            "C11.variant_decreases": ~mid | (variant(env, s2) < variant(env, s)),
            "C11.variant_bounded": (variant(env, s) >= 0) & (variant(env, s) <= n) & (variant(env, s2) >= 0),
            "C11.legal_move_decreases_by_one": ~ok | (variant(env, s2) == variant(env, s) - 1),
            "C11.continuing_state_has_a_legal_move": ~mid | jnp.any(legal(env, s2)),
            "canary.item_0_never_packed": s2.packed_items[0] == s.packed_items[0],
        }
        if dense:
            out["C08.dense_reward_is_objective_increment"] = r == packed_value(env, s2) - packed_value(env, s)
            out["C08.dense_return_telescopes_on_legal_move"] = ~ok | (packed_value(env, s) + r == packed_value(env, s2))
        else:
            out["C08.sparse_reward_is_objective_at_last_else_zero"] = ~ok | (r == jnp.where(last, packed_value(env, s2), 0.0))
            out["C08.sparse_reward_zero_on_invalid"] = ok | (r == 0.0)
        sp, sp_r, sp_last = spec_step(env, s, a)
        for f in ("weights", "values", "packed_items", "remaining_budget", "key"):
            out["C09.state." + f] = getattr(s2, f) == sp[f]
        out["C09.reward"] = r == sp_r
        out["C09.last"] = last == sp_last
        out["C09.step_type_is_mid_or_last"] = mid | last
        so = spec_obs(env, s2)
        for f in ("weights", "values", "packed_items", "action_mask"):
            out["C12.obs." + f] = getattr(o, f) == so[f]
        for k, v in inv(env, s2).items():
            out["C06.inv_" + k] = v
            out["C08.inv_" + k] = v
        out.update(spec_bounds(env.observation_spec, o, "C01.step_obs_bounds"))
        return out

    T = type(env)
    step = dict(title=f"Knapsack.step@{cfg}", args=(state, a0), requires=req, ensures=ens,
                targets=[T.step, T._update_state, T._state_to_observation, type(env.reward_fn).__call__])

    # reset: the real generator runs; its only sampler call, jax.random.uniform(key, (2, n), minval=0, maxval=1), is a
    # contract boundary: it returns the symbolic array `u`, constrained in `requires` by the assumed sampler contract
    # (values in [minval, maxval)).  The proof is therefore for every outcome the sampler may produce.
    def sampler_contract(key, u):
        return {"assumed.uniform_in_[0,1)": (u >= 0) & (u < 1)}

    def reset_ens(key, u):
        def uniform(k, shape=(), dtype=float, minval=0.0, maxval=1.0):
            assert tuple(shape) == tuple(u.shape) and float(minval) == 0.0 and float(maxval) == 1.0, (shape, minval, maxval)
            return u

        with K.with_attr(jax.random, "uniform", uniform):
            s, ts = env.reset(key)
        o = ts.observation
        out = {
            "C04.reset_mask_is_exactly_the_legal_moves": o.action_mask == legal(env, s),
            "C06.reset_feasible": feasible(env, s),
            "C06.reset_nothing_packed": ~s.packed_items,
            "C08.reset_objective_zero": packed_value(env, s) == 0.0,
            "C11.reset_variant_is_the_horizon": variant(env, s) == n,
            "C09.reset_is_first": ts.step_type == K.FIRST,
            "C09.reset_budget": s.remaining_budget == env.total_budget,
            "canary.reset_first_weight_is_zero": s.weights[0] == 0.0,
        }
        so = spec_obs(env, s)
        for f in ("weights", "values", "packed_items", "action_mask"):
            out["C12.reset_obs." + f] = getattr(o, f) == so[f]
        for k, v in inv(env, s).items():
            out["C06.reset_inv_" + k] = v
            out["C08.reset_inv_" + k] = v
        out.update(spec_bounds(env.observation_spec, o, "C01.reset_obs_bounds"))
        return out

    reset = dict(title=f"Knapsack.reset@{cfg}", args=(jax.random.PRNGKey(0), jnp.zeros((2, n), jnp.float32)), requires=sampler_contract,
                 ensures=reset_ens, targets=[T.reset, type(env.generator).__call__], use_stubs=False,
                 note="real generator; jax.random.uniform is a contract boundary (symbolic outcome in [0,1) as an explicit input, "
                      "because the engine's pinned replay cannot convert rational float sampler outcomes)")
    return [step, reset]
