"""Sidecar contract for jumanji.environments.logic.graph_coloring.env:GraphColoring.

Rules (class docstring): nodes are coloured one after the other (node 0, 1, ..., n-1); the action is the colour
(0..n-1) given to the current node; a colour is legal iff no neighbour of the current node already has it.  An invalid
action ends the episode with reward -n ("the negative of the total number of colors"); the episode also ends when all
nodes are coloured, with reward minus the number of distinct colours used; every other step has reward 0.
The spec functions below use explicit loops over nodes/colours, not the scatter / `jnp.unique` of the implementation."""
import jax.numpy as jnp

from contracts import common as K
from contracts import envs as E

ENV = "GraphColoring"
PROPS = ("C01", "C04", "C05", "C06", "C08", "C09", "C11", "C12")


def legal(n, adj, colors, cur):
    """(n,) colour c is legal for node `cur` iff no neighbour of `cur` has colour c"""
    row = jnp.stack([jnp.any(jnp.stack([(cur == u) & adj[u, v] for u in range(n)])) for v in range(n)])  # v is a neighbour of cur
    return jnp.stack([~jnp.any(row & (colors == c)) for c in range(n)])


def proper(n, adj, colors):
    """(n, n) adjacent coloured nodes differ"""
    return jnp.stack([jnp.stack([~adj[u, v] | (colors[u] < 0) | (colors[v] < 0) | (colors[u] != colors[v]) for v in range(n)])
                      for u in range(n)])


def num_colours(n, colors):
    """number of distinct colours of 0..n-1 in use"""
    return sum(jnp.any(colors == c).astype(jnp.int32) for c in range(n))


def inv(n, s):
    idx = jnp.arange(n)
    return {
        "adj_symmetric": s.adj_matrix == s.adj_matrix.T,
        "adj_irreflexive": ~jnp.diagonal(s.adj_matrix),
        "current_node_in_range": (s.current_node_index >= 0) & (s.current_node_index < n),
        "nodes_before_current_are_coloured": jnp.where(idx < s.current_node_index, (s.colors >= 0) & (s.colors < n), s.colors == -1),
        "cached_mask_is_the_mask": s.action_mask == legal(n, s.adj_matrix, s.colors, s.current_node_index),
        "proper_partial_colouring": proper(n, s.adj_matrix, s.colors),
    }


def problems(env, cfg, tier):
    n = env.num_nodes
    state, ts, a = E.example(env)
    Env = type(env)
    INVALID_REWARD = -float(n)  # docstring: "If an invalid action is taken, the reward is the negative of the total number of colors."

    def req(s, a):
        return {**inv(n, s), "in_spec": E.in_spec(env, a)}

    def ens(s, a):
        s2, ts = env.step(s, a)
        cur, cur2 = s.current_node_index, s2.current_node_index
        ok = legal(n, s.adj_matrix, s.colors, cur)[a]
        last = ts.step_type == K.LAST
        o = ts.observation
        idx = jnp.arange(n)
        painted = jnp.where(idx == cur, a, s.colors)
        complete2 = jnp.all(s2.colors >= 0)
        was_last_node = cur == n - 1
        L2 = legal(n, s2.adj_matrix, s2.colors, cur2)
        objective2 = -num_colours(n, s2.colors).astype(jnp.float32)
        spec_reward = jnp.where(~ok, INVALID_REWARD, jnp.where(was_last_node, objective2, 0.0))
        out = {
            "C04.mask_is_exactly_the_legal_moves": o.action_mask == L2,
            "C04.cached_mask_is_the_mask": s2.action_mask == L2,
            # (a legal colouring that uses n distinct colours earns -n, the same number as the invalid-move penalty: the
            #  reward alone cannot tell them apart, so "not treated as invalid" = ends only at the last node, objective reward)
            "C04.legal_move_not_treated_as_invalid": ~ok | ((last == was_last_node) & (ts.reward == jnp.where(was_last_node, objective2, 0.0))),
            "C04.legal_move_is_executed": ~ok | (s2.colors[cur] == a),
            "C05.illegal_is_last": ok | last,
            "C05.illegal_reward_is_documented": ok | (ts.reward == INVALID_REWARD),
            "C06.legal_play_keeps_adjacent_nodes_differently_coloured": ~ok | proper(n, s2.adj_matrix, s2.colors),
            "C06.completion_all_nodes_coloured": ~(ok & last) | ((s2.colors >= 0) & (s2.colors < n)),
            "C06.completion_is_a_proper_colouring": ~(ok & last) | jnp.stack(
                [jnp.stack([~s2.adj_matrix[u, v] | (s2.colors[u] != s2.colors[v]) for v in range(n)]) for u in range(n)]),
            # ghost return: P(s) = 0 while incomplete, -#colours once complete; reward = P(s2) - P(s) under legal play
            "C08.reward_is_the_objective_increment": ~ok | (ts.reward == jnp.where(complete2, objective2, 0.0)),
            "C08.return_is_minus_colours_used_at_completion": ~(ok & last) | (complete2 & (ts.reward == objective2)),
            "C08.objective_in_range": ~(ok & last) | ((objective2 <= -1.0) & (objective2 >= -float(n))),
            "C09.colors_legal_placement": ~ok | (s2.colors == painted),
            "C09.colors_frame_any_action": (idx == cur) | (s2.colors == s.colors),
            "C09.next_node": last | (cur2 == cur + 1),
            "C09.reward": ts.reward == spec_reward,
            "C09.last": last == (~ok | was_last_node),
            "C09.frame": (s2.adj_matrix == s.adj_matrix).all() & (s2.key == s.key).all(),
            # variant V = n - current node (the index wraps to 0 only on the LAST step of a complete colouring)
            "C11.last_only_for_a_documented_reason": ~last | ~ok | complete2,
            "C11.variant_decreases": last | (n - cur2 < n - cur),
            "C11.variant_bounded": (n - cur >= 1) & (n - cur <= n),
            "C11.variant_positive_after_mid_step": last | (n - cur2 >= 1),
            "C12.obs.adj_matrix": o.adj_matrix == s2.adj_matrix,
            "C12.obs.colors": o.colors == s2.colors,
            "C12.obs.action_mask": o.action_mask == s2.action_mask,
            "C12.obs.current_node_index": o.current_node_index == s2.current_node_index,
            "canary.current_node_never_advances": cur2 == cur,
        }
        for k, v in inv(n, s2).items():
            out["C06.inv_" + k] = last | v
        out.update(K.spec_bounds(env.observation_spec, o, "C01.step_obs_bounds"))
        return out

    step = dict(title=f"GraphColoring.step@{cfg}", args=(state, a), requires=req, ensures=ens,
                targets=[Env.step, Env._get_valid_actions])

    # function level: the mask function is the rule for every graph, colouring (entries in -1..n-1) and node
    def fn_req(node, adj, colors):
        return {"node_in_range": (node >= 0) & (node < n), "colors_in_alphabet": (colors >= -1) & (colors < n)}

    def fn_ens(node, adj, colors):
        return {"C04.mask_fn_is_the_rule": env._get_valid_actions(node, adj, colors) == legal(n, adj, colors, node),
                "canary.mask_fn_all_true": env._get_valid_actions(node, adj, colors)}

    fn = dict(title=f"GraphColoring._get_valid_actions@{cfg}", args=(state.current_node_index, state.adj_matrix, state.colors),
              requires=fn_req, ensures=fn_ens, targets=[Env._get_valid_actions])

    def reset_ens(key):
        s, ts = env.reset(key)
        o = ts.observation
        out = {"C04.reset_mask_is_exactly_the_legal_moves": o.action_mask == legal(n, s.adj_matrix, s.colors, s.current_node_index),
               "C08.reset_nothing_coloured": s.colors == -1,
               "C11.reset_variant_is_the_horizon": n - s.current_node_index == n,
               "C12.reset_obs.adj_matrix": o.adj_matrix == s.adj_matrix,
               "C12.reset_obs.colors": o.colors == s.colors,
               "C12.reset_obs.action_mask": o.action_mask == s.action_mask,
               "C12.reset_obs.current_node_index": o.current_node_index == s.current_node_index,
               "canary.reset_graph_has_no_edge": ~s.adj_matrix.any()}
        for k, v in inv(n, s).items():
            out["C06.reset_inv_" + k] = v
            if k == "cached_mask_is_the_mask":
                out["C04.reset_inv_" + k] = v
        out.update(K.spec_bounds(env.observation_spec, o, "C01.reset_obs_bounds"))
        return out

    reset = dict(title=f"GraphColoring.reset@{cfg}", args=(state.key,), requires=lambda key: {}, ensures=reset_ens,
                 targets=[Env.reset, type(env.generator).__call__],
                 note="jax.random.uniform replaced by its contract stub: the proof covers every matrix of values in [0,1)")
    return [step, fn, reset]
