"""Sidecar contract for jumanji.environments.routing.connector.env:Connector.

Rules (class docstring, `_step_agents`/`is_valid_position`/`move_agent` docstrings): square grid; agent k owns the cell
values PATH 1+3k (trail), POSITION 2+3k (head) and TARGET 3+3k; 5 actions per agent [No-op, Up, Right, Down, Left]; no-op is
always legal; a move is legal iff the target cell is inside the grid and (empty or the agent's own target) and the agent
is not connected yet; an illegal move is ignored; a moving head leaves an impassable trail behind; all agents move at the
same time and "if a collision occurs we place the agent with the lower agent_id in its previous position" (lower id
yields, the highest id moves); dense reward per agent: +1 when it connects on this step, -0.03 per step while not yet
connected; the episode ends when every agent is connected or blocked (no legal move), or at the time limit; per-agent
discount 1 - done."""
import jax
import jax.numpy as jnp

from contracts import common as K
from contracts import envs as E

ENV = "Connector"
PROPS = ["C01", "C04", "C05", "C06", "C07", "C09", "C11", "C12"]
MOVES = ((0, 0), (-1, 0), (0, 1), (1, 0), (0, -1))
PATH, HEAD, TARGET = 1, 2, 3


def val(kind, k):
    return kind + 3 * k


def iff(x, y):
    return jnp.stack([~x | y, ~y | x])


def inside(N, r, c):
    return (r >= 0) & (r < N) & (c >= 0) & (c < N)


def at(grid, r, c):
    N = grid.shape[0]
    return grid[jnp.clip(r, 0, N - 1), jnp.clip(c, 0, N - 1)]


def is_cell(N, r, c):
    """(N, N) bool: the cell is (r, c)"""
    return (jnp.arange(N)[:, None] == r) & (jnp.arange(N)[None, :] == c)


def belongs(k, v):
    return (v >= val(PATH, k)) & (v <= val(TARGET, k))


def connected(pos, tgt, k):
    return (pos[k, 0] == tgt[k, 0]) & (pos[k, 1] == tgt[k, 1])


def legal(A, grid, pos, tgt):
    """(A, 5) rule predicate"""
    N = grid.shape[0]
    rows = []
    for k in range(A):
        row = [jnp.asarray(True)]
        for dr, dc in MOVES[1:]:
            r, c = pos[k, 0] + dr, pos[k, 1] + dc
            v = at(grid, r, c)
            row.append(inside(N, r, c) & ((v == 0) | (v == val(TARGET, k))) & ~connected(pos, tgt, k))
        rows.append(jnp.stack(row))
    return jnp.stack(rows)


def inv(env, s, T):
    A, N = env.num_agents, env.grid_size
    ag, g = s.agents, s.grid
    pos, tgt = ag.position, ag.target
    return {
        "ids": ag.id == jnp.arange(A),
        "positions_in_grid": jnp.stack([inside(N, pos[k, 0], pos[k, 1]) for k in range(A)]),
        "targets_in_grid": jnp.stack([inside(N, tgt[k, 0], tgt[k, 1]) for k in range(A)]),
        "cell_alphabet": (g >= 0) & (g <= 3 * A),
        "one_head_cell_at_agent_position": jnp.stack([(g == val(HEAD, k)) == is_cell(N, pos[k, 0], pos[k, 1]) for k in range(A)]),
        "one_target_cell_unless_connected": jnp.stack([(g == val(TARGET, k)) == (is_cell(N, tgt[k, 0], tgt[k, 1]) & ~connected(pos, tgt, k))
                                                       for k in range(A)]),
        "counter": (s.step_count >= 0) & (s.step_count < T),
    }


def spec_step(env, s, a, T):
    """pure reference model of one joint step (explicit per-agent / per-cell case analysis)"""
    A, N = env.num_agents, env.grid_size
    g, pos, tgt = s.grid, s.agents.position, s.agents.target
    ok = legal(A, g, pos, tgt)
    mv = jnp.asarray(MOVES)[a]
    dest = pos + mv
    want = [(a[k] != 0) & ok[k][a[k]] for k in range(A)]
    same = lambda i, j: (dest[i, 0] == dest[j, 0]) & (dest[i, 1] == dest[j, 1])
    yields = [want[k] & jnp.any(jnp.stack([want[j] & same(k, j) for j in range(k + 1, A)] + [jnp.asarray(False)])) for k in range(A)]
    moves = [want[k] & ~yields[k] for k in range(A)]
    pos2 = jnp.stack([jnp.where(moves[k], dest[k], pos[k]) for k in range(A)])
    g2 = g
    for k in range(A):
        g2 = jnp.where(moves[k] & is_cell(N, pos[k, 0], pos[k, 1]), val(PATH, k), g2)
    for k in range(A):
        g2 = jnp.where(moves[k] & is_cell(N, dest[k, 0], dest[k, 1]), val(HEAD, k), g2)
    conn = jnp.stack([connected(pos, tgt, k) for k in range(A)])
    conn2 = jnp.stack([connected(pos2, tgt, k) for k in range(A)])
    # (python-float coefficients times 0/1 indicators: the engine reads a python-float literal exactly but an f32 array constant
    #  as its f32 value, so `jnp.where(c, -0.03, 0.0)` would differ from the implementation's `-0.03 * indicator` by f32 rounding)
    reward = 1.0 * (~conn & conn2).astype(float) + (-0.03) * (~conn).astype(float)
    mask2 = legal(A, g2, pos2, tgt)
    done = conn2 | ~jnp.any(mask2[:, 1:], axis=1)
    last = done.all() | (s.step_count + 1 >= T)
    return dict(ok=ok, want=jnp.stack(want), yields=jnp.stack(yields), moves=jnp.stack(moves), dest=dest, pos2=pos2, grid=g2,
                reward=reward, done=done, last=last, conn=conn, conn2=conn2, mask2=mask2)


def problems(env, cfg, tier):
    from jumanji.environments.routing.connector import utils as U
    from jumanji.environments.routing.connector.reward import DenseRewardFn

    assert isinstance(env._reward_fn, DenseRewardFn) and (env._reward_fn.connected_reward, env._reward_fn.timestep_reward) == (1.0, -0.03)
    state, ts, a0 = E.example(env)
    T0 = jnp.int32(env.time_limit)
    A, N = env.num_agents, env.grid_size
    real_mask = lambda agents, grid: jax.vmap(env._get_action_mask, (0, None))(agents, grid)

    def req(T, s, a):
        return {**inv(env, s, T), "in_spec": E.in_spec(env, a), "T_positive": T >= 1}

    def req_pinned(T, s, a):
        return {**req(T, s, a), "T_is_the_configured_limit": T == env.time_limit}

    def ens(T, s, a):
        with K.with_attr(env, "time_limit", T):
            s2, ts = env.step(s, a)
        sp = spec_step(env, s, a, T)
        g, g2 = s.grid, s2.grid
        pos, tgt, pos2, tgt2 = s.agents.position, s.agents.target, s2.agents.position, s2.agents.target
        o = ts.observation
        last = ts.step_type == K.LAST
        illegal = (a != 0) & ~jnp.stack([sp["ok"][k][a[k]] for k in range(A)])
        own = lambda W: jnp.stack([belongs(k, W) for k in range(A)])          # (A, N, N)
        rule2 = legal(A, g2, pos2, tgt2)
        blocked2 = ~jnp.any(rule2[:, 1:], axis=1)
        conn2 = jnp.stack([connected(pos2, tgt2, k) for k in range(A)])
        done2 = conn2 | blocked2
        agents_frame = (s2.agents.id == s.agents.id).all() & (s2.agents.start == s.agents.start).all() & (tgt2 == tgt).all()
        out = {
            # ---- C04 (clause 1 is proved on the mask function alone, problem `_get_action_mask`; clause 2 here)
            "C04.mask_handed_out_is_the_mask_function_of_the_new_state": o.action_mask == real_mask(s2.agents, g2),
            "C04.mask_is_exactly_the_legal_moves": o.action_mask == rule2,
            "C04.legal_move_is_executed_unless_it_yields": (illegal | (a == 0) | sp["yields"])[:, None] | (pos2 == sp["dest"]),
            # ---- C05 (ignore-invalid)
            "C05.illegal_move_is_ignored.position": ~illegal[:, None] | (pos2 == pos),
            "C05.illegal_move_is_ignored.cells": ~illegal[:, None, None] | ~(own(g) | own(g2)) | (g2 == g)[None],
            "C05.illegal_move_reward_like_noop": ~illegal | (ts.reward == (-0.03) * (~sp["conn"]).astype(float)),
            "C05.illegal_move_frame": (s2.step_count == s.step_count + 1) & (s2.key == s.key).all() & agents_frame,
            # ---- C06 (routes never share a cell)
            "C06.no_cell_is_taken_from_its_owner": ~own(g) | own(g2),
            "C06.a_newly_occupied_cell_is_the_head_of_the_agent_that_moved_there":
                ((g != 0) | (g2 == 0))[None] | ~jnp.stack([is_cell(N, pos2[k, 0], pos2[k, 1]) for k in range(A)])
                | jnp.stack([g2 == val(HEAD, k) for k in range(A)]),
            "C06.a_newly_occupied_cell_has_a_head_on_it":
                (g != 0) | (g2 == 0) | jnp.any(jnp.stack([is_cell(N, pos2[k, 0], pos2[k, 1]) for k in range(A)]), axis=0),
            "C06.heads_on_distinct_cells": jnp.stack([(pos2[i, 0] != pos2[j, 0]) | (pos2[i, 1] != pos2[j, 1])
                                                      for i in range(A) for j in range(i + 1, A)]),
            "C06.connected_means_head_on_own_target": ~conn2 | jnp.stack([at(g2, tgt2[k, 0], tgt2[k, 1]) == val(HEAD, k) for k in range(A)]),
            # ---- C09 reference model, field by field
            "C09.agents.position": pos2 == sp["pos2"],
            "C09.agents.frame": agents_frame,
            "C09.grid": g2 == sp["grid"],
            "C09.reward": ts.reward == sp["reward"],
            # termination and discount are the documented functions of the NEW state (which is the reference model's, field by
            # field, by the clauses above); against the model's own copy of the new state: 43 s / 30 s on 4x4 instead of 2 s
            "C09.last": iff(last, done2.all() | (s.step_count + 1 >= T)),
            "C09.discount": ts.discount == jnp.where(last, 0.0, jnp.where(done2, 0.0, 1.0)),
            "C09.frame": (s2.step_count == s.step_count + 1) & (s2.key == s.key).all(),
            "C09.collision_lower_id_yields": jnp.stack(
                [~(sp["want"][i] & sp["want"][j] & (sp["dest"][i] == sp["dest"][j]).all()) | (pos2[i] == pos[i]).all()
                 for i in range(A) for j in range(i + 1, A)]),
            "C09.highest_contender_moves": ~sp["want"] | sp["yields"] | (pos2 == sp["dest"]).all(axis=1),
            # ---- C11
            "C11.counting": s2.step_count == s.step_count + 1,
            "C11.never_later": (s.step_count + 1 < T) | last,
            "C11.never_earlier": ~last | (s.step_count + 1 >= T) | done2.all(),
            # ---- C12
            "C12.obs.grid": o.grid == g2,
            "C12.obs.action_mask": o.action_mask == real_mask(s2.agents, g2),
            "C12.obs.step_count": o.step_count == s2.step_count,
            "canary.agent_0_never_moves": pos2[0, 0] == pos[0, 0],
        }
        i2 = inv(env, s2, T)
        for k, v in i2.items():       # everything but the counter holds on the terminal step as well
            out["C07." + k] = (last | v) if k == "counter" else v
        out.update(K.spec_bounds(env.observation_spec, o, "C01.step_obs_bounds"))
        return out

    tg = [type(env).step, type(env)._step_agents, type(env)._step_agent, type(env)._get_action_mask, U.move_position, U.move_agent,
          U.is_valid_position, U.get_agent_grid, U.get_correction_mask, U.connected_or_blocked, DenseRewardFn.__call__]
    others = [p for p in PROPS if p != "C01"]
    step = dict(title=f"Connector.step@{cfg}", args=(T0, state, a0), requires=req, ensures=ens, targets=tg, props=others, workers=4,
                note="time limit symbolic: proved for every T >= 1")
    step01 = dict(title=f"Connector.step[T=configured]@{cfg}", args=(T0, state, a0), requires=req_pinned, ensures=ens, targets=tg,
                  props=["C01"], workers=4,
                  note="the observation spec's step_count bound is the configured time_limit, so T is pinned to it here")

    # ---- the mask function alone against the rule: any grid contents, any positions near the grid
    def mask_req(agents, grid):
        return {"ids": agents.id == jnp.arange(A), "positions_small": (agents.position >= -2) & (agents.position <= N + 2)}

    def mask_ens(agents, grid):
        m = real_mask(agents, grid)
        return {"C04.mask_fn_is_the_rule": m == legal(A, grid, agents.position, agents.target), "canary.mask_all_true": m[0, 1]}

    maskp = dict(title=f"Connector._get_action_mask@{cfg}", args=(state.agents, state.grid), requires=mask_req, ensures=mask_ens,
                 targets=[type(env)._get_action_mask, U.is_valid_position, U.move_position], props=["C04"],
                 note="function-level: for ANY grid contents / targets, positions also outside the grid")

    # ---- reset: generator = contract boundary
    def gen_post(g, key):
        i = inv(env, g, jnp.int32(1))
        cells = jnp.stack([g.grid == val(HEAD, k) for k in range(A)] + [g.grid == val(TARGET, k) for k in range(A)] + [g.grid == 0])
        return {**i, "step_count_zero": g.step_count == 0, "positions_are_the_starts": g.agents.position == g.agents.start,
                "nobody_connected": jnp.stack([~connected(g.agents.position, g.agents.target, k) for k in range(A)]),
                "only_heads_targets_and_empty_cells": jnp.any(cells, axis=0)}

    def reset_ens_of(s, ts):
        o = ts.observation
        out = {"C04.reset_mask_is_exactly_the_legal_moves": o.action_mask == legal(A, s.grid, s.agents.position, s.agents.target),
               "C06.reset_heads_on_distinct_cells": jnp.stack([(s.agents.position[i] != s.agents.position[j]).any()
                                                               for i in range(A) for j in range(i + 1, A)]),
               "C11.reset_step_count_zero": s.step_count == 0,
               "C12.reset_obs.grid": o.grid == s.grid,
               "C12.reset_obs.action_mask": o.action_mask == real_mask(s.agents, s.grid),
               "C12.reset_obs.step_count": o.step_count == s.step_count}
        for k, v in inv(env, s, jnp.int32(1)).items():
            out["C07.reset_" + k] = v
        out.update(K.spec_bounds(env.observation_spec, o, "C01.reset_obs_bounds"))
        return out

    def reset_ens(g, key):
        s, ts = K.reset_from(env, "_generator", g, key)
        out = reset_ens_of(s, ts)
        out["C09.reset_state_is_the_generated_instance"] = K.tree_eq(
            (s.grid, s.step_count, s.agents.id, s.agents.start, s.agents.target, s.agents.position),
            (g.grid, g.step_count, g.agents.id, g.agents.start, g.agents.target, g.agents.position))
        out["canary.reset_mask_all_true"] = ts.observation.action_mask[0, 1]
        return out

    reset = dict(title=f"Connector.reset@{cfg}", args=(state, jnp.zeros(2, jnp.uint32)), requires=gen_post, ensures=reset_ens,
                 targets=[type(env).reset],
                 note="generator replaced by its post-condition (contract boundary; the generator's own contract is C10)")
    out = [step, step01, maskp, reset]

    # ---- the light generator run for real (jax.random.choice(replace=False) replaced by its contract stub): every key.
    # Its clauses re-prove the post-condition assumed at the boundary above.
    from jumanji.environments.routing.connector.generator import UniformRandomGenerator

    if isinstance(env._generator, UniformRandomGenerator):
        def uni_ens(key):
            s, ts = env.reset(key)
            res = reset_ens_of(s, ts)
            for k, v in gen_post(s, key).items():
                res["C07.reset_generated." + k] = v
            res["canary.reset_agent_0_on_row_1"] = s.agents.position[0, 0] == 1
            return res

        out.append(dict(title=f"Connector.reset[UniformRandomGenerator]@{cfg}", args=(jnp.zeros(2, jnp.uint32),), ensures=uni_ens,
                        targets=[type(env).reset, UniformRandomGenerator.__call__],
                        note="real generator; jax.random.choice replaced by its assumed contract (distinct cells): all keys"))
    return out
