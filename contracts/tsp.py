"""Sidecar contract for jumanji.environments.routing.tsp.env:TSP.

Rules (class docstring, reward docstrings): action c visits city c.  Legal iff c has not been visited yet (does not
occur in the route so far).  An illegal move ends the episode with reward -num_cities*sqrt(2) and leaves the state
untouched.  The episode ends when all cities are visited.  Dense reward: minus the distance from the current city to the
chosen one (0 for the first city), plus, for the last city, minus the distance back to the first city.  Sparse reward:
minus the length of the closed tour at the end, 0 before.  Objective: minus the length of the closed tour through the
cities in `trajectory` order.  No time limit: structural horizon num_cities.

Distances: norm(c[u] - c[v]) is traced to sqrt(sum(d*d)); with fmul_uf=True the products are a commutative
uninterpreted function and sqrt is uninterpreted, so all reward clauses are proved for ANY product and root
(float_as_real).  Under that abstraction d(u,v) and d(v,u) are different terms: the contract orients every edge
(previous city -> next city), which is the orientation in which a tour is walked."""
import math

import jax
import jax.numpy as jnp

from contracts import common as K
from contracts import envs as E

ENV = "TSP"


def configs(tier):
    from jumanji.environments import TSP
    from jumanji.environments.routing.tsp.generator import UniformGenerator
    from jumanji.environments.routing.tsp.reward import DenseReward, SparseReward

    c = {"3dense": lambda: TSP(UniformGenerator(3), DenseReward()), "3sparse": lambda: TSP(UniformGenerator(3), SparseReward()),
         "4dense": lambda: TSP(UniformGenerator(4), DenseReward()), "4sparse": lambda: TSP(UniformGenerator(4), SparseReward()),
         "2dense": lambda: TSP(UniformGenerator(2), DenseReward()), "2sparse": lambda: TSP(UniformGenerator(2), SparseReward())}
    if tier != "quick":
        c["5dense"] = lambda: TSP(UniformGenerator(5), DenseReward())
        c["5sparse"] = lambda: TSP(UniformGenerator(5), SparseReward())
    return c


def is_dense(env):
    from jumanji.environments.routing.tsp.reward import DenseReward
    return isinstance(env.reward_fn, DenseReward)


def spec_bounds(spec, value, prefix):
    """`min <= leaf <= max` for every bounded leaf of the observation spec (local version of K.spec_bounds, which
    yields nothing for array leaves because every jumanji Array spec is also a `specs.Spec` with empty `_specs`)."""
    from jumanji import specs

    out = {}
    if isinstance(spec, specs.MultiDiscreteArray):
        v = jnp.asarray(value)
        out[prefix] = (v >= 0) & (v < jnp.asarray(spec.num_values))
    elif isinstance(spec, specs.BoundedArray):  # includes DiscreteArray
        v = jnp.asarray(value)
        if v.dtype != bool:
            out[prefix] = (v >= jnp.asarray(spec.minimum)) & (v <= jnp.asarray(spec.maximum))
    elif isinstance(spec, specs.Array):
        pass
    elif isinstance(spec, specs.Spec):
        for k, sub in spec._specs.items():
            v = getattr(value, k) if hasattr(value, k) else value[k]
            out.update(spec_bounds(sub, v, f"{prefix}.{k}"))
    return out


# ---- the problem, recomputed from the raw route -----------------------------------------------------------------
def in_prefix(env, s, c):
    """city c occurs in trajectory[:num_visited]"""
    r = jnp.asarray(False)
    for i in range(env.num_cities):
        r = r | ((i < s.num_visited) & (s.trajectory[i] == c))
    return r


def legal(env, s):
    return jnp.stack([~in_prefix(env, s, c) for c in range(env.num_cities)])


def feasible(env, s):
    """no city twice in the route so far, every entry of it is a city"""
    n = env.num_cities
    r = jnp.asarray(True)
    for i in range(n):
        r = r & ((i >= s.num_visited) | ((s.trajectory[i] >= 0) & (s.trajectory[i] < n)))
        for j in range(i + 1, n):
            r = r & ((j >= s.num_visited) | (s.trajectory[i] != s.trajectory[j]))
    return r


def complete(env, s):
    """the route is a permutation of all cities"""
    n = env.num_cities
    r = s.num_visited == n
    for c in range(n):
        cnt = sum(jnp.where(s.trajectory[i] == c, 1, 0) for i in range(n))
        r = r & (cnt == 1)
    return r


def coord(env, s, u):
    """coordinates of the city with (symbolic) index u -- explicit case analysis"""
    x = jnp.float32(0.0)
    y = jnp.float32(0.0)
    for j in range(env.num_cities):
        x = jnp.where(u == j, s.coordinates[j, 0], x)
        y = jnp.where(u == j, s.coordinates[j, 1], y)
    return jnp.stack([x, y])


def dist(env, s, u, v):
    """Euclidean length of the edge walked from city u to city v"""
    return jnp.linalg.norm(coord(env, s, u) - coord(env, s, v))


def partial_objective(env, s):
    """minus the length of the path walked so far; once all cities are visited the closing edge back to the first
    city is part of the tour"""
    n = env.num_cities
    tot = jnp.float32(0.0)
    for i in range(n - 1):
        tot = tot + jnp.where(i + 1 < s.num_visited, dist(env, s, s.trajectory[i], s.trajectory[i + 1]), 0.0)
    tot = tot + jnp.where(s.num_visited == n, dist(env, s, s.trajectory[n - 1], s.trajectory[0]), 0.0)
    return -tot


def tour_length(env, s):
    """length of the closed tour through trajectory[0], ..., trajectory[n-1], trajectory[0]"""
    n = env.num_cities
    tot = jnp.float32(0.0)
    for i in range(n):
        tot = tot + dist(env, s, s.trajectory[i], s.trajectory[(i + 1) % n])
    return tot


def variant(env, s):
    return env.num_cities - s.num_visited


def penalty(env):
    return -env.num_cities * math.sqrt(2.0)


def is_penalty(env, r):
    """r is the documented invalid-move reward -n*sqrt(2) (an irrational number) up to float32 rounding"""
    return jnp.abs(r - penalty(env)) <= 2e-6 * env.num_cities


def inv(env, s, allow_complete=False):
    n = env.num_cities
    k = s.num_visited
    d = {
        "num_visited_in_range": (k >= 0) & ((k <= n) if allow_complete else (k < n)),
        "coordinates_in_unit_square": (s.coordinates >= 0) & (s.coordinates <= 1),
        "route_prefix_are_cities_rest_unfilled": jnp.stack([jnp.where(i < k, (s.trajectory[i] >= 0) & (s.trajectory[i] < n), s.trajectory[i] == -1)
                                                            for i in range(n)]),
        "feasible_route_prefix_entries_distinct": feasible(env, s),
        "visited_mask_is_the_set_of_route_cities": jnp.stack([s.visited_mask[c] == in_prefix(env, s, c) for c in range(n)]),
        "num_visited_counts_visited_mask": sum(jnp.where(s.visited_mask[c], 1, 0) for c in range(n)) == k,
        "position_is_last_route_entry": s.position == sum(jnp.where(k - 1 == i, s.trajectory[i], 0) for i in range(n)) + jnp.where(k == 0, -1, 0),
    }
    return d


def spec_obs(env, s):
    return dict(coordinates=s.coordinates, position=s.position, trajectory=s.trajectory,
                action_mask=jnp.stack([~s.visited_mask[c] for c in range(env.num_cities)]))


def spec_step(env, s, a):
    n = env.num_cities
    k = s.num_visited
    ok = ~in_prefix(env, s, a)
    visited2 = jnp.stack([s.visited_mask[c] | (ok & (a == c)) for c in range(n)])
    traj2 = jnp.stack([jnp.where(ok & (k == i), a, s.trajectory[i]) for i in range(n)])
    k2 = jnp.where(ok, k + 1, k)
    pos2 = jnp.where(ok, a, s.position)
    last = ~ok | (k2 == n)
    first_city = traj2[0]
    leg = jnp.where(k == 0, 0.0, dist(env, s, s.position, a))
    closing = jnp.where(k2 == n, dist(env, s, a, first_city), 0.0)
    tour = jnp.float32(0.0)
    for i in range(n):
        tour = tour + dist(env, s, traj2[i], traj2[(i + 1) % n])
    if is_dense(env):
        reward = -leg - closing
    else:
        reward = jnp.where(k2 == n, -tour, 0.0)
    return (dict(coordinates=s.coordinates, position=pos2, visited_mask=visited2, trajectory=traj2, num_visited=k2, key=s.key),
            ok, reward, last)


def problems(env, cfg, tier):
    state, ts, a0 = E.example(env)
    n = env.num_cities
    dense = is_dense(env)
    FIELDS = ("coordinates", "position", "visited_mask", "trajectory", "num_visited", "key")

    def req(s, a):
        return {**inv(env, s), "in_spec": E.in_spec(env, a)}

    def ens(s, a):
        s2, ts = env.step(s, a)
        o = ts.observation
        ok = legal(env, s)[a]
        last = ts.step_type == K.LAST
        mid = ts.step_type == K.MID
        r = ts.reward
        P, P2 = partial_objective(env, s), partial_objective(env, s2)
        out = {
            # C04
            "C04.mask_is_exactly_the_legal_moves": o.action_mask == legal(env, s2),
            "C04.legal_move_not_treated_as_invalid": ~ok | ((s2.position == a) & (s2.num_visited == s.num_visited + 1)
                                                            & (last == (s2.num_visited == n))),
            "C04.illegal_move_is_treated_as_invalid": ok | last,
            # C05
            "C05.illegal_is_last": ok | last,
            "C05.illegal_reward_is_documented": ok | is_penalty(env, r),
            # C06
            "C06.feasible_after_legal_move": ~ok | feasible(env, s2),
            "C06.legal_move_appends_the_city": ~ok | ((s2.num_visited == s.num_visited + 1)
                                                      & jnp.all(jnp.stack([s2.trajectory[i] == jnp.where(i == s.num_visited, a, s.trajectory[i]) for i in range(n)]))),
            "C06.completion_is_a_complete_tour": ~(ok & last) | (complete(env, s2) & feasible(env, s2)),
            # C08 (ghost return g' = g + reward, invariant g = partial_objective)
            "C08.objective_at_completion_is_minus_tour_length": ~(ok & last) | (P2 == -tour_length(env, s2)),
            # C11
            "C11.variant_decreases": ~mid | (variant(env, s2) < variant(env, s)),
            "C11.variant_bounded": (variant(env, s) >= 1) & (variant(env, s) <= n) & (variant(env, s2) >= 0),
            "C11.continuing_state_has_a_legal_move": ~mid | jnp.any(legal(env, s2)),
            "canary.position_never_changes": s2.position == s.position,
        }
        for f in FIELDS:
            out["C05.illegal_state_untouched." + f] = ok | (getattr(s2, f) == getattr(s, f))
        if dense:
            out["C08.dense_reward_is_objective_increment"] = ~ok | (r == P2 - P)
        else:
            out["C08.sparse_reward_is_objective_at_last_else_zero"] = ~ok | (r == jnp.where(last, P2, 0.0))
        sp, sp_ok, sp_r, sp_last = spec_step(env, s, a)
        for f in FIELDS:
            out["C09.state." + f] = getattr(s2, f) == sp[f]
        out["C09.reward"] = jnp.where(sp_ok, r == sp_r, is_penalty(env, r))
        out["C09.last"] = last == sp_last
        out["C09.step_type_is_mid_or_last"] = mid | last
        so = spec_obs(env, s2)
        for f in ("coordinates", "position", "trajectory", "action_mask"):
            out["C12.obs." + f] = getattr(o, f) == so[f]
        for k, v in inv(env, s2, allow_complete=True).items():
            out["C06.inv_" + k] = v
            out["C08.inv_" + k] = v
        out["C06.inv_continuing_state_is_incomplete"] = ~mid | (s2.num_visited < n)
        out["C08.inv_continuing_state_is_incomplete"] = ~mid | (s2.num_visited < n)
        out.update(spec_bounds(env.observation_spec, o, "C01.step_obs_bounds"))
        return out

    T = type(env)
    step = dict(title=f"TSP.step@{cfg}", args=(state, a0), requires=req, ensures=ens, fmul_uf=True,
                targets=[T.step, T._update_state, T._state_to_observation, type(env.reward_fn).__call__])

    # reset: the real generator runs; its only sampler call jax.random.uniform(key, (n, 2), minval=0, maxval=1) is a
    # contract boundary returning the symbolic `u` constrained by the assumed sampler contract.
    def sampler_contract(key, u):
        return {"assumed.uniform_in_[0,1)": (u >= 0) & (u < 1)}

    def reset_ens(key, u):
        def uniform(k, shape=(), dtype=float, minval=0.0, maxval=1.0):
            assert tuple(shape) == tuple(u.shape) and float(minval) == 0.0 and float(maxval) == 1.0, (shape, minval, maxval)
            return u

        with K.with_attr(jax.random, "uniform", uniform):
            s, ts = env.reset(key)
        o = ts.observation
        out = {
            "C04.reset_mask_is_exactly_the_legal_moves": o.action_mask == legal(env, s),
            "C06.reset_feasible": feasible(env, s),
            "C08.reset_objective_zero": partial_objective(env, s) == 0.0,
            "C09.reset_is_first": ts.step_type == K.FIRST,
            "C09.reset_nothing_visited": (s.num_visited == 0) & ~jnp.any(s.visited_mask),
            "C11.reset_variant_is_the_horizon": variant(env, s) == n,
            "canary.reset_first_coordinate_is_zero": s.coordinates[0, 0] == 0.0,
        }
        so = spec_obs(env, s)
        for f in ("coordinates", "position", "trajectory", "action_mask"):
            out["C12.reset_obs." + f] = getattr(o, f) == so[f]
        for k, v in inv(env, s).items():
            out["C06.reset_inv_" + k] = v
            out["C08.reset_inv_" + k] = v
        out.update(spec_bounds(env.observation_spec, o, "C01.reset_obs_bounds"))
        return out

    reset = dict(title=f"TSP.reset@{cfg}", args=(jax.random.PRNGKey(0), jnp.zeros((n, 2), jnp.float32)), requires=sampler_contract,
                 ensures=reset_ens, targets=[T.reset, type(env.generator).__call__], use_stubs=False, fmul_uf=True,
                 note="real generator; jax.random.uniform is a contract boundary (symbolic outcome in [0,1) as an explicit input)")
    return [step, reset]
