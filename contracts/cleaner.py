"""Sidecar contract for jumanji.environments.routing.cleaner.env:Cleaner.

Rules (class/step docstrings): several agents on a grid of DIRTY(0)/CLEAN(1)/WALL(2) tiles; per agent 4 moves
Up/Right/Down/Left; a move is legal iff the target cell is inside the num_rows x num_cols grid and not a wall; a tile
under an agent becomes clean; reward = +1 per tile cleaned - penalty_per_timestep; the episode ends when all tiles are
clean, at the time limit, or when an invalid action is selected for any agent, in which case "the corresponding agent
does not move and the episode terminates" (the others still move and clean)."""
import jax.numpy as jnp

from contracts import common as K
from contracts import envs as E

ENV = "Cleaner"

# documented step penalty per configuration (the constructor argument, NOT read back from the object: `Cleaner(penalty_per_timestep=p)` must
# charge p, also for p = 0); configurations not listed use the documented default 0.5
PENALTY = {"3x4a2p0-c08": 0.0, "3x4a2p025-c08": 0.25}
_PENALTY_OF = {}


def penalty_of(env):
    return _PENALTY_OF.get(id(env), 0.5)


def configs(tier):
    from jumanji.environments import Cleaner
    from jumanji.environments.routing.cleaner.generator import RandomGenerator as CGen
    out = dict(E.configs(ENV, tier))

    def mk(name, p):
        def thunk():
            env = Cleaner(CGen(3, 4, 2), time_limit=7, penalty_per_timestep=p)
            _PENALTY_OF[id(env)] = p
            _KEEP.append(env)
            return env
        return thunk
    out["3x4a2p0-c08"] = mk("3x4a2p0-c08", 0.0)
    if tier != "quick":
        out["3x4a2p025-c08"] = mk("3x4a2p025-c08", 0.25)
    return out


_KEEP = []   # (keeps the environments alive so that id(env) stays unique)
PROPS = ["C01", "C04", "C05", "C07", "C08", "C09", "C11", "C12"]
DIRTY, CLEAN, WALL = 0, 1, 2
MOVES = ((-1, 0), (0, 1), (1, 0), (0, -1))


def free(env, grid, r, c):
    """(r, c) is inside the grid and not a wall"""
    R, C = env.num_rows, env.num_cols
    inside = (r >= 0) & (r < R) & (c >= 0) & (c < C)
    return inside & (grid[jnp.clip(r, 0, R - 1), jnp.clip(c, 0, C - 1)] != WALL)


def at(env, grid, r, c):
    return grid[jnp.clip(r, 0, env.num_rows - 1), jnp.clip(c, 0, env.num_cols - 1)]


def legal(env, grid, locs):
    """(num_agents, 4) rule predicate"""
    return jnp.stack([jnp.stack([free(env, grid, locs[k, 0] + dr, locs[k, 1] + dc) for dr, dc in MOVES])
                      for k in range(env.num_agents)])


def covered(env, locs, who):
    """(R, C) bool: some agent k with who[k] stands on the cell  (explicit per-cell case analysis)"""
    I = jnp.arange(env.num_rows)[None, :, None]
    J = jnp.arange(env.num_cols)[None, None, :]
    return jnp.any((locs[:, 0][:, None, None] == I) & (locs[:, 1][:, None, None] == J) & who[:, None, None], axis=0)


def inv(env, s, T):
    A = env.num_agents
    loc = s.agents_locations
    return {
        "grid_alphabet": (s.grid == DIRTY) | (s.grid == CLEAN) | (s.grid == WALL),
        "agents_inside_not_on_walls": jnp.stack([free(env, s.grid, loc[k, 0], loc[k, 1]) for k in range(A)]),
        "cells_under_agents_clean": jnp.stack([at(env, s.grid, loc[k, 0], loc[k, 1]) == CLEAN for k in range(A)]),
        "cached_mask_is_the_mask": s.action_mask == legal(env, s.grid, loc),
        "counter": (s.step_count >= 0) & (s.step_count < T),
    }


def spec_obs(s):
    return (s.grid, s.agents_locations, s.action_mask, s.step_count)


def spec_step(env, s, a, T):
    """pure reference model of one step, written from the rules"""
    A = env.num_agents
    p = s.agents_locations
    ok = jnp.stack([legal(env, s.grid, p)[k][a[k]] for k in range(A)])
    mv = jnp.asarray(MOVES)[a]
    q = jnp.where(ok[:, None], p + mv, p)
    grid = jnp.where(covered(env, q, jnp.ones(A, bool)), jnp.int8(CLEAN), s.grid)
    newly = (s.grid == DIRTY) & (grid == CLEAN)
    reward = jnp.sum(newly) - penalty_of(env)
    last = ~ok.all() | ~jnp.any(grid == DIRTY) | (s.step_count + 1 >= T)
    return dict(ok=ok, q=q, grid=grid, reward=reward, last=last, mask=legal(env, grid, q))


def problems(env, cfg, tier):
    state, ts, a0 = E.example(env)
    T0 = jnp.int32(env.time_limit)
    A, R, C = env.num_agents, env.num_rows, env.num_cols
    pen = penalty_of(env)

    def req(T, s, a):
        return {**inv(env, s, T), "in_spec": E.in_spec(env, a), "T_positive": T >= 1}

    def req_pinned(T, s, a):
        return {**req(T, s, a), "T_is_the_configured_limit": T == env.time_limit}

    def ens(T, s, a):
        with K.with_attr(env, "time_limit", T):
            s2, ts = env.step(s, a)
        sp = spec_step(env, s, a, T)
        ok, bad = sp["ok"], ~sp["ok"].all()
        p, q = s.agents_locations, s2.agents_locations
        mv = jnp.asarray(MOVES)[a]
        o = ts.observation
        last = ts.step_type == K.LAST
        moved_here = covered(env, p + mv, ok)          # cells that a legally moving agent steps on
        changed = s2.grid != s.grid
        newly = (s.grid == DIRTY) & (s2.grid == CLEAN)
        all_clean = ~jnp.any(s2.grid == DIRTY)
        out = {
            # ---- C04
            "C04.mask_is_exactly_the_legal_moves": o.action_mask == legal(env, s2.grid, q),
            "C04.cached_mask_is_the_mask": s2.action_mask == legal(env, s2.grid, q),
            "C04.legal_move_is_executed": ~ok[:, None] | (q == p + mv),
            "C04.legal_move_not_treated_as_invalid": bad | (last == (all_clean | (s.step_count + 1 >= T))),
            # ---- C05 (terminate on invalid; the others still act)
            "C05.illegal_is_last": ~bad | last,
            "C05.illegal_reward_is_documented":
                ~bad | (ts.reward == jnp.sum((s.grid == DIRTY) & moved_here) - pen),
            "C05.illegal_offender_does_not_move": ok[:, None] | (q == p),
            "C05.illegal_offender_cleans_nothing": ~bad | ~changed | moved_here,
            "C05.illegal_others_still_move": ~bad | ~ok[:, None] | (q == p + mv),
            "C05.illegal_others_still_clean": ~bad | ~moved_here | (s2.grid == CLEAN),
            "C05.illegal_frame": ~bad | ((s2.step_count == s.step_count + 1) & (s2.key == s.key).all()
                                         & ((s2.grid == WALL) == (s.grid == WALL)).all()),
            # ---- C08 (ghost return: partial objective = #clean tiles - penalty * steps)
            # stated as balance over cells + per-cell lemma (DESIGN 3.2; the single clause `reward == #clean(s2) - #clean(s)
            # - penalty` over two global counts is `unknown` after 120 s):  reward = SUM_cells newly - penalty  and, per cell,
            # newly = [clean in s2] - [clean in s];  summing the per-cell identities gives the ghost equation
            # reward = (#clean(s2) - penalty*steps') - (#clean(s) - penalty*steps), which telescopes over the episode.
            "C08.reward_is_sum_of_newly_cleaned_minus_penalty":
                ts.reward == jnp.sum(newly) - (pen * s2.step_count - pen * s.step_count),
            "C08.cell_balance": newly.astype(jnp.int32) == (s2.grid == CLEAN).astype(jnp.int32) - (s.grid == CLEAN).astype(jnp.int32),
            "C08.tiles_only_change_from_dirty_to_clean": ~changed | ((s.grid == DIRTY) & (s2.grid == CLEAN)),
            # ---- C09 (reference model, field by field)
            "C09.agents_locations": q == sp["q"],
            "C09.grid": s2.grid == sp["grid"],
            "C09.action_mask": s2.action_mask == sp["mask"],
            "C09.reward": ts.reward == sp["reward"],
            "C09.last": last == sp["last"],
            "C09.frame": (s2.step_count == s.step_count + 1) & (s2.key == s.key).all(),
            # ---- C11
            "C11.counting": s2.step_count == s.step_count + 1,
            "C11.never_later": (s.step_count + 1 < T) | last,
            "C11.never_earlier": ~last | (s.step_count + 1 >= T) | all_clean | bad,
            # ---- C12
            "C12.obs.grid": o.grid == s2.grid,
            "C12.obs.agents_locations": o.agents_locations == s2.agents_locations,
            "C12.obs.action_mask": o.action_mask == s2.action_mask,
            "C12.obs.step_count": o.step_count == s2.step_count,
            "canary.agent_0_never_moves": q[0, 0] == p[0, 0],
        }
        for k, v in inv(env, s2, T).items():
            out["C07." + k] = last | v
        # physical consistency that holds even on the terminal step
        i2 = inv(env, s2, T)
        for k in ("grid_alphabet", "agents_inside_not_on_walls", "cells_under_agents_clean"):
            out["C07." + k + "_even_at_last"] = i2[k]
        out["C07.walls_never_change"] = (s2.grid == WALL) == (s.grid == WALL)
        out.update(K.spec_bounds(env.observation_spec, o, "C01.step_obs_bounds"))
        return out

    tg = [type(env).step, type(env)._compute_action_mask, type(env)._is_action_valid, type(env)._update_agents_locations,
          type(env)._clean_tiles_containing_agents, type(env)._compute_reward, type(env)._should_terminate,
          type(env)._observation_from_state]
    others = ["C04", "C05", "C07", "C08", "C09", "C11", "C12"]
    step = dict(title=f"Cleaner.step@{cfg}", args=(T0, state, a0), requires=req, ensures=ens, targets=tg, props=others, workers=3,
                note="time limit symbolic: proved for every T >= 1")
    step01 = dict(title=f"Cleaner.step[T=configured]@{cfg}", args=(T0, state, a0), requires=req_pinned, ensures=ens, targets=tg,
                  props=["C01"], workers=3,
                  note="the observation spec's step_count bound is the configured time_limit, so T is pinned to it here")

    # the mask function alone against the rule (no invariant needed beyond positions in int range)
    def mask_req(grid, locs):
        return {"locations_small": (locs >= -4) & (locs <= R + C + 4)}

    def mask_ens(grid, locs):
        m = env._compute_action_mask(grid, locs)
        return {"C04.mask_fn_is_the_rule": m == legal(env, grid, locs), "canary.mask_all_true": m[0, 0]}

    maskp = dict(title=f"Cleaner._compute_action_mask@{cfg}", args=(state.grid, state.agents_locations), requires=mask_req,
                 ensures=mask_ens, targets=[type(env)._compute_action_mask], props=["C04"],
                 note="function-level: for ANY grid contents and any agent locations (also outside the grid)")

    # reset, with the generator as a contract boundary (its post-condition is C10's obligation)
    g0 = type(state)(grid=state.grid, agents_locations=state.agents_locations, action_mask=None, step_count=state.step_count,
                     key=state.key)

    def gen_post(g, key):
        return {"grid_alphabet": (g.grid == DIRTY) | (g.grid == CLEAN) | (g.grid == WALL),
                "upper_left_clean": g.grid[0, 0] == CLEAN,
                "agents_start_upper_left": g.agents_locations == 0,
                "step_count_zero": g.step_count == 0}

    def reset_ens(g, key):
        s, ts = K.reset_from(env, "generator", g, key)
        o = ts.observation
        out = {"C04.reset_mask_is_exactly_the_legal_moves": o.action_mask == legal(env, s.grid, s.agents_locations),
               "C08.reset_nothing_cleaned_yet_by_reward": jnp.asarray(ts.reward == 0.0),
               "C09.reset_frame": (s.grid == g.grid).all() & (s.agents_locations == g.agents_locations).all() & (s.key == g.key).all(),
               "C11.reset_step_count_zero": s.step_count == 0,
               "C12.reset_obs.grid": o.grid == s.grid,
               "C12.reset_obs.agents_locations": o.agents_locations == s.agents_locations,
               "C12.reset_obs.action_mask": o.action_mask == s.action_mask,
               "C12.reset_obs.step_count": o.step_count == s.step_count,
               "canary.reset_mask_all_true": o.action_mask.all()}
        for k, v in inv(env, s, jnp.int32(1)).items():
            out["C07.reset_" + k] = v
        out.update(K.spec_bounds(env.observation_spec, o, "C01.reset_obs_bounds"))
        return out

    reset = dict(title=f"Cleaner.reset@{cfg}", args=(g0, jnp.zeros(2, jnp.uint32)), requires=gen_post, ensures=reset_ens,
                 targets=[type(env).reset],
                 note="generator replaced by its post-condition (contract boundary; the generator's own contract is C10)")
    return [step, step01, maskp, reset]
