"""Sidecar contract for RobotWarehouse's physical consistency (C07), written after a seeded change (a carried shelf erased from the grid when
a forward move is clamped at the border) was missed: RobotWarehouse had no C07 clause.  Phys(state): every agent and shelf is inside the grid,
the grid's agent / shelf channels and the agent / shelf tables describe the same placement (so the number of shelves and agents on the grid is
conserved), a carrying agent stands on a shelf.  Obligation: Phys is preserved by ANY in-spec joint action on every step that is not LAST."""
import jax
import jax.numpy as jnp

from contracts import common as K
from contracts import envs as E

ENV = "RobotWarehouse"
PROPS = ["C07"]
_SHELVES, _AGENTS = 0, 1


def configs(tier):
    allc = E.ALL()["RobotWarehouse"]
    # two agents: the same clauses, but each obligation takes minutes => thorough tier only
    return {"tiny1": allc["tiny1"]} if tier == "quick" else {"tiny1": allc["tiny1"], "tiny2": allc["tiny2"]}


def problems(env, cfg, tier):
    from jumanji.environments.routing.robot_warehouse import utils as U
    state, ts, a = E.example(env)
    _, R, C = state.grid.shape
    NA = state.agents.direction.shape[0]
    NS = state.shelves.is_requested.shape[0]
    rows, cols = jnp.arange(R)[:, None], jnp.arange(C)[None, :]

    def at(grid2d, x, y):
        return grid2d[jnp.clip(x, 0, R - 1), jnp.clip(y, 0, C - 1)]

    def phys(s):
        ax, ay = s.agents.position.x, s.agents.position.y
        sx, sy = s.shelves.position.x, s.shelves.position.y
        ga, gs = s.grid[_AGENTS], s.grid[_SHELVES]
        out = {
            "agents_inside_grid": (ax >= 0) & (ax < R) & (ay >= 0) & (ay < C),
            "shelves_inside_grid": (sx >= 0) & (sx < R) & (sy >= 0) & (sy < C),
            "agent_table_agrees_with_grid": jnp.stack([at(ga, ax[i], ay[i]) == i + 1 for i in range(NA)]),
            "shelf_table_agrees_with_grid": jnp.stack([at(gs, sx[k], sy[k]) == k + 1 for k in range(NS)]),
            # every occupied cell of a channel is the cell of the entity it names (=> each entity exactly once, counts conserved)
            "grid_agent_cells_are_agents": (ga == 0) | ((ga >= 1) & (ga <= NA) & (ax[jnp.clip(ga - 1, 0, NA - 1)] == rows) & (ay[jnp.clip(ga - 1, 0, NA - 1)] == cols)),
            "grid_shelf_cells_are_shelves": (gs == 0) | ((gs >= 1) & (gs <= NS) & (sx[jnp.clip(gs - 1, 0, NS - 1)] == rows) & (sy[jnp.clip(gs - 1, 0, NS - 1)] == cols)),
            "carrying_agent_stands_on_a_shelf": jnp.stack([(s.agents.is_carrying[i] == 0) | (at(gs, ax[i], ay[i]) > 0) for i in range(NA)]),
            "direction_and_flags_in_range": (s.agents.direction >= 0) & (s.agents.direction <= 3) & (s.agents.is_carrying >= 0) & (s.agents.is_carrying <= 1),
        }
        return out

    def req(s, act):
        return {**phys(s), "cached_mask_is_the_mask": s.action_mask == U.compute_action_mask(s.grid, s.agents), "in_spec": E.in_spec(env, act)}

    def ens(s, act):
        s2, ts2 = env.step(s, act)
        last = ts2.step_type == K.LAST
        out = {}
        for k, v in phys(s2).items():
            out["C07." + k] = last | v
        out["C07.cached_mask_is_the_mask"] = s2.action_mask == U.compute_action_mask(s2.grid, s2.agents)
        # "the number of shelves on the grid is conserved" is a lemma over the clauses above, not a separate query (a global count over the
        # grid goes `unknown`): shelf_table_agrees_with_grid puts shelf k on its own cell (so the NS shelf positions are pairwise distinct) and
        # grid_shelf_cells_are_shelves says every occupied cell is the cell of the shelf it names => exactly NS occupied cells.
        out["canary.no_agent_ever_moves"] = jnp.all(s2.agents.position.x == s.agents.position.x) & jnp.all(s2.agents.position.y == s.agents.position.y)
        return out

    return [dict(title=f"RobotWarehouse.step(physical consistency)@{cfg}", args=(state, a), requires=req, ensures=ens, targets=[type(env).step, type(env)._update_state],
                 tree_ops=("arith",),   # engine term-shape option (semantics-preserving): the default "arith,index" combination makes these queries 10x slower
                 timeout=300, workers=4)]
