"""Sidecar contract for jumanji.environments.routing.snake.env:Snake.

Rules (from the class docstring and the game): 4 moves Up/Right/Down/Left.  The head advances one cell.  The move is
legal iff the next head cell is inside the grid and is not a body cell that stays (i.e. free, or the tail cell, which
moves away in the same tick).  If the next head cell holds the fruit the snake grows by one (the tail stays), reward 1
and a new fruit appears on a free cell; otherwise every segment advances (the tail cell is vacated), reward 0.  The
episode ends on an illegal move (reward 0), when the snake fills the board, or at the time limit.
State encoding (types.py): body_state orders the body 1 (tail) .. length (head); body = body_state>0; tail = body_state==1.
"""
import jax
import jax.numpy as jnp

from contracts import common as K
from contracts import envs as E

ENV = "Snake"


def configs(tier):
    out = E.configs(ENV, "quick")  # 3x3, 3x4, 4x3
    if tier != "quick":
        from jumanji.environments import Snake

        out = {**out, "4x4": lambda: Snake(4, 4, time_limit=7), "2x5": lambda: Snake(2, 5, time_limit=7)}
    return out
MOVES = ((-1, 0), (0, 1), (1, 0), (0, -1))


def cells(env):
    return [(r, c) for r in range(env.num_rows) for c in range(env.num_cols)]


def at(env, grid, row, col, pred):
    """exists a cell (r,c) of the grid with (row,col)==(r,c) and pred(grid[r,c]) -- explicit case analysis, no gather"""
    out = jnp.asarray(False)
    for (r, c) in cells(env):
        out = out | ((row == r) & (col == c) & pred(grid[r, c]))
    return out


def legal(env, s):
    """next head cell inside the grid and not on a body cell other than the tail"""
    h = s.head_position
    return jnp.stack([at(env, s.body_state, h.row + dr, h.col + dc, lambda v: v <= 1) for dr, dc in MOVES])


def phys(env, s):
    """the measured body-chain invariant (DESIGN section 6, C07)"""
    N = env.num_rows * env.num_cols
    bs, ln = s.body_state, s.length
    cs = cells(env)
    out = {
        "length_in_range": (ln >= 1) & (ln <= N),
        "body_state_in_range": (bs >= 0) & (bs <= ln),
        "body_plane_consistent": s.body == (bs > 0),
        "tail_plane_consistent": s.tail == (bs == 1),
        "exactly_one_cell_per_body_index": jnp.stack([jnp.sum((bs == k).astype(jnp.int32)) == jnp.where(ln >= k, 1, 0)
                                                      for k in range(1, N + 1)]),
        "head_is_segment_length": at(env, bs, s.head_position.row, s.head_position.col, lambda v: v == ln),
        "fruit_on_free_cell": at(env, bs, s.fruit_position.row, s.fruit_position.col, lambda v: v == 0),
    }
    adj = []
    for k in range(1, N):
        link = jnp.asarray(False)
        for p in cs:
            for q in cs:
                if abs(p[0] - q[0]) + abs(p[1] - q[1]) == 1:
                    link = link | ((bs[p] == k) & (bs[q] == k + 1))
        adj.append((ln < k + 1) | link)
    if adj:
        out["consecutive_segments_adjacent"] = jnp.stack(adj)
    return out


def inv(env, s, T):
    return {**phys(env, s),
            "cached_mask_is_the_mask": s.action_mask == legal(env, s),
            "counter": (s.step_count >= 0) & (s.step_count < T)}


def spec_obs_planes(env, s):
    """five feature planes from the documentation: body, head, tail, fruit, body order normalised to (0,1]"""
    R, C = env.num_rows, env.num_cols
    rr, cc = jnp.meshgrid(jnp.arange(R), jnp.arange(C), indexing="ij")
    head = (rr == s.head_position.row) & (cc == s.head_position.col)
    fruit = (rr == s.fruit_position.row) & (cc == s.fruit_position.col)
    return s.body_state > 0, head, s.body_state == 1, fruit


def obs_clauses(env, s, o, prefix, ok=None):
    """`ok`: the move that produced `s` was legal (None at reset).  After an illegal move the episode is over and the head
    is outside the grid or inside the body: the planes that describe the snake are then stated in separate clauses."""
    body, head, tail, fruit = spec_obs_planes(env, s)
    g = o.grid
    f = lambda b: jnp.where(b, 1.0, 0.0)
    N = env.num_rows * env.num_cols
    # norm plane ("a float between 0. and 1. for each body cell in the decreasing order from head to tail"): segment k of a
    # snake of length L shows k/L (head 1.0), empty cells 0.  Proved in two parts: the plane is body_state divided by its
    # maximum (or by 1 on an empty board), and that maximum is the length (an integer fact, from the body-chain invariant).
    # On the 3x3 board the statement `plane == body_state / L` is also proved directly, one obligation per (L, cell), the
    # divisor being then a constant (symbolic/symbolic division is non-linear: 1-3 s per obligation).
    bmax = jnp.maximum(1, jnp.max(s.body_state))
    norm_view = g[..., 4] == s.body_state / bmax
    max_is_length = bmax == s.length
    direct = N <= 9
    norm_ok = jnp.stack([(s.length != L) | (g[..., 4] == s.body_state.astype(jnp.float32) / jnp.float32(L)) for L in range(1, N + 1)])
    legal_move = jnp.asarray(True) if ok is None else ok
    out = {
        prefix + "obs.body_plane": g[..., 0] == f(s.body),
        prefix + "obs.body_plane_is_body_state_positive": g[..., 0] == f(body),
        prefix + "obs.head_plane": ~legal_move | (g[..., 1] == f(head)),
        prefix + "obs.tail_plane": g[..., 2] == f(tail),
        prefix + "obs.fruit_plane": g[..., 3] == f(fruit),
        prefix + "obs.norm_body_state_plane_is_body_state_over_its_maximum": norm_view,
        prefix + "obs.norm_body_state_maximum_is_the_length": ~legal_move | max_is_length,
        **({prefix + "obs.norm_body_state_plane": ~legal_move | norm_ok} if direct else {}),
        prefix + "obs.step_count": o.step_count == s.step_count,
        prefix + "obs.action_mask": o.action_mask == s.action_mask,
    }
    if ok is not None:
        # terminal observation after an illegal move: the head left the grid (no head cell to show) or sits on a body cell
        out[prefix + "obs.head_plane_after_illegal_move"] = ok | (g[..., 1] == f(head))
    return out


def problems(env, cfg, tier):
    state, ts, a = E.example(env)
    T0 = jnp.int32(env.time_limit)
    R, C = env.num_rows, env.num_cols
    N = R * C
    obs_spec = env.observation_spec
    targets = [type(env).step, type(env)._get_action_mask, type(env)._update_head_position, type(env)._sample_fruit_coord,
               type(env)._state_to_observation]

    def req(T, s, a):
        return {**inv(env, s, T), "in_spec": E.in_spec(env, a), "T_positive": T >= 1}

    def ens(T, s, a):
        with K.with_attr(env, "time_limit", T):
            s2, ts = env.step(s, a)
        o = ts.observation
        ok = legal(env, s)[a]
        last = ts.step_type == K.LAST
        bs, bs2, ln = s.body_state, s2.body_state, s.length
        h, q, fr, fr2 = s.head_position, s2.head_position, s.fruit_position, s2.fruit_position
        # --- the rules, case by case -------------------------------------------------------------
        nr, nc = h.row, h.col
        for i, (dr, dc) in enumerate(MOVES):
            nr = jnp.where(a == i, h.row + dr, nr)
            nc = jnp.where(a == i, h.col + dc, nc)
        eaten = (nr == fr.row) & (nc == fr.col)
        ln2 = jnp.where(eaten, ln + 1, ln)
        rr, cc = jnp.meshgrid(jnp.arange(R), jnp.arange(C), indexing="ij")
        new_head_cell = (rr == nr) & (cc == nc)
        spec_bs2 = jnp.where(new_head_cell, ln2, jnp.where(eaten, bs, jnp.where(bs >= 1, bs - 1, 0)))
        full = ln2 >= N
        spec_last = ~ok | full | (s.step_count + 1 >= T)
        out = {
            # C04
            "C04.mask_is_exactly_the_legal_moves": o.action_mask == legal(env, s2),
            "C04.cached_mask_is_the_mask": s2.action_mask == legal(env, s2),
            "C04.legal_move_not_treated_as_invalid": ~ok | (last == (full | (s.step_count + 1 >= T))),
            "C04.legal_move_is_executed": ~ok | ((q.row == nr) & (q.col == nc) & at(env, bs2, nr, nc, lambda v: v == ln2)),
            # C05 (terminate on invalid, reward 0 as documented: "1.0 if a fruit is eaten, otherwise 0.0")
            "C05.illegal_is_last": ok | last,
            "C05.illegal_reward_is_documented": ok | (ts.reward == 0.0),
            "C05.illegal_discount_zero": ok | (ts.discount == 0.0),
            "C05.illegal_does_not_grow": ok | (s2.length == ln),
            # C07 two-state clauses
            "C07.length_grows_exactly_by_fruit": s2.length == ln2,
            "C07.fruit_stays_unless_eaten": eaten | ((fr2.row == fr.row) & (fr2.col == fr.col)),
            "C07.cell_count_is_length": last | (jnp.sum((bs2 > 0).astype(jnp.int32)) == s2.length),
            # C08 ghost return: return == length - 1 == fruits eaten
            "C08.reward_is_length_increment": ts.reward == (s2.length - ln).astype(float),
            "C08.reward_is_one_per_fruit": ts.reward == jnp.where(eaten, 1.0, 0.0),
            "C08.reward_is_zero_or_one": (ts.reward == 0.0) | (ts.reward == 1.0),
            # C09 reference model
            "C09.head": (q.row == nr) & (q.col == nc),
            "C09.length": s2.length == ln2,
            "C09.body_state": ~ok | (bs2 == spec_bs2),
            "C09.body_plane": s2.body == (bs2 > 0),
            "C09.tail_plane": s2.tail == (bs2 == 1),
            "C09.fruit_kept_unless_eaten": eaten | ((fr2.row == fr.row) & (fr2.col == fr.col)),
            "C09.fruit_respawns_on_free_cell": ~(eaten & ok & ~full) | at(env, bs2, fr2.row, fr2.col, lambda v: v == 0),
            "C09.fruit_stays_in_grid": (fr2.row >= 0) & (fr2.row < R) & (fr2.col >= 0) & (fr2.col < C),
            "C09.reward": ts.reward == jnp.where(eaten, 1.0, 0.0),
            "C09.last": last == spec_last,
            "C09.discount": ts.discount == jnp.where(spec_last, 0.0, 1.0),
            "C09.step_count": s2.step_count == s.step_count + 1,
            "C09.key_is_split": (s2.key == jax.random.split(s.key)[0]).all(),
            "C09.mid_otherwise": last | (ts.step_type == K.MID),
            # C11
            "C11.counting": s2.step_count == s.step_count + 1,
            "C11.never_later": (s.step_count + 1 < T) | last,
            "C11.never_earlier": ~last | (s.step_count + 1 >= T) | ~ok | full,
            "canary.snake_never_grows": s2.length == ln,
        }
        for k, v in inv(env, s2, T).items():
            out["C07." + k] = last | v
        out.update(obs_clauses(env, s2, o, "C12.", ok=ok))
        out["C12.observation_is_a_view"] = K.all_(o.step_count == s2.step_count, o.action_mask == s2.action_mask)
        out.update(K.spec_bounds(obs_spec, o, "C01.step_obs_bounds"))
        # the declared range, read from the REAL observation_spec as a function of the symbolic limit T
        lo_, hi_ = K.declared_time_bounds(env, "step_count", T)
        out["C01.step_obs_bounds.step_count"] = (o.step_count >= lo_) & (o.step_count <= hi_)
        return out

    step = dict(title=f"Snake.step@{cfg}", args=(T0, state, a), requires=req, ensures=ens, targets=targets, workers=4)

    # ---- clauses that need no invariant (pure views, counting): also cover steps after LAST -------------------------
    def req_any(T, s, a):
        return {"in_spec": E.in_spec(env, a), "T_positive": T >= 1}

    def ens_any(T, s, a):
        with K.with_attr(env, "time_limit", T):
            s2, ts = env.step(s, a)
        o = ts.observation
        f = lambda b: jnp.where(b, 1.0, 0.0)
        return {
            "C04.mask_fn_is_the_rule_for_all_states": s2.action_mask == legal(env, s2),
            "C11.counting_any_state": s2.step_count == s.step_count + 1,
            "C11.never_later_any_state": (s.step_count + 1 < T) | (ts.step_type == K.LAST),
            "C12.any_state.body_plane": o.grid[..., 0] == f(s2.body),
            "C12.any_state.tail_plane": o.grid[..., 2] == f(s2.tail),
            "C12.any_state.step_count": o.step_count == s2.step_count,
            "C12.any_state.action_mask": o.action_mask == s2.action_mask,
            "canary.step_count_never_changes": s2.step_count == s.step_count,
        }

    step_any = dict(title=f"Snake.step_any_state@{cfg}", args=(T0, state, a), requires=req_any, ensures=ens_any, targets=targets,
                    props=("C04", "C11", "C12"), note="no invariant assumed: holds for every state, hence also after LAST")

    # ---- reset (light samplers: randint for the head, choice for the fruit) ------------------------------------------
    def reset_ens(key):
        s, ts = env.reset(key)
        o = ts.observation
        out = {
            "C04.reset_mask_is_exactly_the_legal_moves": o.action_mask == legal(env, s),
            "C08.reset_return_zero_length_one": s.length == 1,
            "C09.reset_single_segment": jnp.sum((s.body_state != 0).astype(jnp.int32)) == 1,
            "C09.reset_key_is_split": (s.key == jax.random.split(key, 3)[0]).all(),
            "C11.reset_step_count_zero": s.step_count == 0,
            "C12.reset_observation_is_a_view": K.all_(o.step_count == s.step_count, o.action_mask == s.action_mask),
            "canary.reset_head_in_first_row": s.head_position.row == 0,
        }
        for k, v in inv(env, s, jnp.int32(1)).items():
            out["C07.reset_" + k] = v
        out.update(obs_clauses(env, s, o, "C12.reset_"))
        out.update(K.spec_bounds(obs_spec, o, "C01.reset_obs_bounds"))
        return out

    reset = dict(title=f"Snake.reset@{cfg}", args=(jax.random.PRNGKey(0),), requires=lambda key: {}, ensures=reset_ens,
                 targets=[type(env).reset, type(env)._sample_fruit_coord, type(env)._get_action_mask, type(env)._state_to_observation])
    return [step, step_any, reset]
