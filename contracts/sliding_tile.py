"""Sidecar contract for jumanji.environments.logic.sliding_tile_puzzle.env:SlidingTilePuzzle.

Rules (class docstring, reward.py): an n x n board holds the tiles 1..n^2-1 and the empty tile 0; the action moves the
empty tile Up, Right, Down or Left (in this order, `action_spec`), i.e. swaps it with its neighbour in that direction; the
move is legal iff that neighbour exists; an illegal move is ignored.  The puzzle is solved when the tiles are in order
1, 2, ..., n^2-1 with the empty tile last; the episode ends when it is solved or at the time limit.
DenseRewardFn: +1 for each newly correctly placed tile and -1 for each newly incorrectly placed tile, i.e. the change in
the number of correctly placed tiles (the empty tile is a tile, as everywhere in this environment's vocabulary);
SparseRewardFn: 1 if the puzzle is solved after the move, else 0.
NOTE (C08, judgement call): the two shipped reward functions document two DIFFERENT objectives (change in correctly
placed tiles vs. "solved"), so their returns are not equal and no `dense == sparse` clause is stated; each is proved
against its own documented objective.  (C17, the group law, is handled elsewhere.)"""
import jax.numpy as jnp
import numpy as np

from contracts import common as K
from contracts import envs as E

ENV = "SlidingTilePuzzle"
PROPS = ("C01", "C04", "C05", "C08", "C09", "C11", "C12")
MOVES = ((-1, 0), (0, 1), (1, 0), (0, -1))  # Up, Right, Down, Left


def configs(tier):
    """catalogue configurations (DenseRewardFn, the default) + the same sizes with SparseRewardFn"""
    from jumanji.environments import SlidingTilePuzzle
    from jumanji.environments.logic.sliding_tile_puzzle.generator import RandomWalkGenerator
    from jumanji.environments.logic.sliding_tile_puzzle.reward import SparseRewardFn

    out = dict(E.configs(ENV, tier))
    out["2sparse"] = lambda: SlidingTilePuzzle(RandomWalkGenerator(2, 3), reward_fn=SparseRewardFn(), time_limit=7)
    out["3sparse"] = lambda: SlidingTilePuzzle(RandomWalkGenerator(3, 3), reward_fn=SparseRewardFn(), time_limit=7)
    return out


def goal(n):
    return np.array([[(i * n + j + 1) % (n * n) for j in range(n)] for i in range(n)], np.int32)


def legal(n, pos):
    """(4,) the empty tile has a neighbour in direction a"""
    return jnp.stack([(pos[0] + dr >= 0) & (pos[0] + dr < n) & (pos[1] + dc >= 0) & (pos[1] + dc < n) for dr, dc in MOVES])


def cell_is(n, pos):
    I, J = np.meshgrid(np.arange(n), np.arange(n), indexing="ij")
    return (I == pos[0]) & (J == pos[1])


def correct(n, puzzle):
    return jnp.sum((puzzle == goal(n)).astype(jnp.int32))


def is_solved(n, puzzle):
    return jnp.all(puzzle == goal(n))


def phys(n, puzzle, pos):
    return {
        "tiles_in_range": (puzzle >= 0) & (puzzle < n * n),
        "every_tile_exactly_once": jnp.stack([jnp.sum((puzzle == v).astype(jnp.int32)) == 1 for v in range(n * n)]),
        "empty_tile_position_in_grid": (pos >= 0) & (pos < n),
        "empty_tile_is_at_its_position": ~cell_is(n, pos) | (puzzle == 0),
    }


def inv(n, s, T):
    return {**phys(n, s.puzzle, s.empty_tile_position), "counter": (s.step_count >= 0) & (s.step_count < T)}


class GeneratorBoundary:
    """stands for `env.generator` inside reset: returns the symbolic generated state (grid_size is read by the env)"""

    def __init__(self, grid_size, state):
        self.grid_size, self.state = grid_size, state

    def __call__(self, key):
        return self.state


def problems(env, cfg, tier):
    from jumanji.environments.logic.sliding_tile_puzzle.reward import DenseRewardFn, SparseRewardFn

    n = env.generator.grid_size
    state, ts, a = E.example(env)
    Env = type(env)
    T0 = jnp.int32(env.time_limit)
    dense = isinstance(env.reward_fn, DenseRewardFn)
    assert dense or isinstance(env.reward_fn, SparseRewardFn)

    def req(T, s, a):
        return {**inv(n, s, T), "in_spec": E.in_spec(env, a), "T_positive": T >= 1}

    def ens(T, s, a):
        with K.with_attr(env, "time_limit", T):
            s2, ts = env.step(s, a)
        pos, pos2 = s.empty_tile_position, s2.empty_tile_position
        ok = jnp.any(jnp.stack([(a == k) & legal(n, pos)[k] for k in range(4)]))
        dr = sum(jnp.where(a == k, MOVES[k][0], 0) for k in range(4))
        dc = sum(jnp.where(a == k, MOVES[k][1], 0) for k in range(4))
        new = jnp.stack([pos[0] + dr, pos[1] + dc])
        at_old, at_new = cell_is(n, pos), cell_is(n, new)
        neighbour_tile = jnp.sum(jnp.where(at_new, s.puzzle, 0))
        spec_puzzle = jnp.where(ok & at_new, 0, jnp.where(ok & at_old, neighbour_tile, s.puzzle))
        spec_pos = jnp.where(ok, new, pos)
        solved, solved2 = is_solved(n, s.puzzle), is_solved(n, s2.puzzle)
        last = ts.step_type == K.LAST
        o = ts.observation
        timeup = s.step_count + 1 >= T
        gain = (correct(n, s2.puzzle) - correct(n, s.puzzle)).astype(jnp.float32)
        spec_reward = gain if dense else jnp.where(solved2, 1.0, 0.0)
        noop_reward = 0.0 if dense else jnp.where(solved, 1.0, 0.0)
        out = {
            "C04.mask_is_exactly_the_legal_moves": o.action_mask == legal(n, pos2),
            "C04.legal_move_is_executed": ~ok | ((pos2 == new).all() & (s2.puzzle == spec_puzzle).all()),
            "C05.illegal_move_is_ignored": ok | ((s2.puzzle == s.puzzle).all() & (pos2 == pos).all()),
            "C05.illegal_move_step_count_plus_one": ok | (s2.step_count == s.step_count + 1),
            "C05.illegal_move_episode_continues_like_noop": ok | (last == (solved | timeup)),
            "C05.illegal_move_reward_like_noop": ok | (ts.reward == noop_reward),
            "C05.illegal_move_frame": ok | (s2.key == s.key).all(),
            "C08.solved_step_is_last": ~solved2 | last,
            "C09.puzzle": s2.puzzle == spec_puzzle,
            "C09.empty_tile_position": pos2 == spec_pos,
            "C09.step_count": s2.step_count == s.step_count + 1,
            "C09.reward": ts.reward == spec_reward,
            "C09.last": last == (solved2 | timeup),
            "C09.frame": (s2.key == s.key).all(),
            "C09.tiles_other_than_the_two_swapped_stay": at_old | at_new | (s2.puzzle == s.puzzle),
            "C11.counting": s2.step_count == s.step_count + 1,
            "C11.never_later": (s.step_count + 1 < T) | last,
            "C11.never_earlier": ~last | timeup | solved2,
            "C12.obs.puzzle": o.puzzle == s2.puzzle,
            "C12.obs.empty_tile_position": o.empty_tile_position == pos2,
            "C12.obs.action_mask": o.action_mask == legal(n, pos2),
            "C12.obs.step_count": o.step_count == s2.step_count,
            "C12.extras.prop_correctly_placed": ts.extras["prop_correctly_placed"] * (n * n) == correct(n, s2.puzzle),
            "canary.empty_tile_never_moves": pos2[0] == pos[0],
        }
        if dense:
            # ghost return: objective(s) = correct(s) - correct(s_0); the return telescopes to correct(final) - correct(initial)
            out["C08.dense_reward_is_the_change_in_correctly_placed_tiles"] = ts.reward == gain
            out["C08.dense_reward_bounded_by_the_two_swapped_tiles"] = (gain >= -2.0) & (gain <= 2.0)
        else:
            # ghost return: the return is [solved at the end]: only a step that solves the puzzle is rewarded and it is LAST
            out["C08.sparse_reward_is_the_solved_indicator"] = ts.reward == jnp.where(solved2, 1.0, 0.0)
            out["C08.sparse_mid_steps_are_not_rewarded"] = last | (ts.reward == 0.0)
        for k, v in inv(n, s2, T).items():
            out["C09.inv_" + k] = last | v
        for k, v in phys(n, s2.puzzle, pos2).items():
            out["C09.permutation_even_at_last_" + k] = v
        # the observation spec is built from the configured time limit: bounds are stated for T = that time limit
        for k, v in K.spec_bounds(env.observation_spec, o, "C01.step_obs_bounds").items():
            out[k] = (T != T0) | v
        return out

    step = dict(title=f"SlidingTilePuzzle.step@{cfg}", args=(T0, state, a), requires=req, ensures=ens,
                targets=[Env.step, Env._move_empty_tile, Env._get_valid_actions, type(env.reward_fn).__call__, Env._get_extras])

    # reset, generator (a scan of random moves) as a contract boundary: "the puzzle is a permutation of 0..n^2-1 with the
    # empty tile at empty_tile_position, step_count = 0"
    def gen_post(g, key):
        return {**phys(n, g.puzzle, g.empty_tile_position), "step_count_zero": g.step_count == 0}

    def reset_clauses(s, ts):
        o = ts.observation
        out = {"C04.reset_mask_is_exactly_the_legal_moves": o.action_mask == legal(n, s.empty_tile_position),
               "C11.reset_step_count_zero": s.step_count == 0,
               "C12.reset_obs.puzzle": o.puzzle == s.puzzle,
               "C12.reset_obs.empty_tile_position": o.empty_tile_position == s.empty_tile_position,
               "C12.reset_obs.action_mask": o.action_mask == legal(n, s.empty_tile_position),
               "C12.reset_obs.step_count": o.step_count == s.step_count,
               "C12.reset_extras.prop_correctly_placed": ts.extras["prop_correctly_placed"] * (n * n) == correct(n, s.puzzle)}
        for k, v in inv(n, s, jnp.int32(1)).items():
            out["C09.reset_inv_" + k] = v
        out.update(K.spec_bounds(env.observation_spec, o, "C01.reset_obs_bounds"))
        return out

    def reset_ens(g, key):
        with K.with_attr(env, "generator", GeneratorBoundary(n, g)):
            s, ts = env.reset(key)
        return {**reset_clauses(s, ts), "C09.reset_state_is_the_generated_state": K.tree_eq((s.puzzle, s.empty_tile_position, s.step_count),
                                                                                          (g.puzzle, g.empty_tile_position, g.step_count)),
                "canary.reset_puzzle_is_solved": is_solved(n, s.puzzle)}

    reset = dict(title=f"SlidingTilePuzzle.reset[generator boundary]@{cfg}", args=(state, state.key), requires=gen_post, ensures=reset_ens,
                 targets=[Env.reset], note="generator replaced by its post-condition (contract boundary; its own contract is C10/C17)")

    # reset with the configured RandomWalkGenerator (3 random moves, scan unrolled, jax.random.choice replaced by its stub)
    def real_reset_ens(key):
        s, ts = env.reset(key)
        # (a canary that does not depend on the sampled moves: sampler outcomes inside a scan are pinned per call site in
        #  replays, so a move-dependent canary does not replay reliably)
        return {**reset_clauses(s, ts), "canary.reset_step_count_is_one": s.step_count == 1}

    reset_real = dict(title=f"SlidingTilePuzzle.reset@{cfg}", args=(state.key,), requires=lambda key: {}, ensures=real_reset_ens,
                      targets=[Env.reset, type(env.generator).__call__, type(env.generator)._make_random_move],
                      note=f"configured generator: {env.generator.num_random_moves} random moves from the solved puzzle; "
                           "choice(p=valid moves) replaced by its contract stub")
    # the scan body of the generator (one random move) keeps the generator's post-condition: together with the solved
    # start (checked concretely) this is the inductive argument for any num_random_moves; no sampler inside a loop here,
    # so counterexamples replay with pinned outcomes
    gen = env.generator

    def move_req(key, puzzle, pos):
        return phys(n, puzzle, pos)

    def move_ens(key, puzzle, pos):
        p2, pos2 = gen._make_random_move(key, puzzle, pos)
        out = {"C09.generator_start_is_the_solved_puzzle": (gen._solved_puzzle == goal(n)).all(),
               "C09.generator_move_is_one_step": jnp.abs(pos2 - pos).sum() == 1,
               "canary.generator_move_always_goes_up": pos2[0] == pos[0] - 1}
        for k, v in phys(n, p2, pos2).items():
            out["C09.generator_move_keeps_" + k] = v
        return out

    gen_move = dict(title=f"SlidingTilePuzzle.generator._make_random_move@{cfg}",
                    args=(state.key, state.puzzle, jnp.asarray(state.empty_tile_position)), requires=move_req, ensures=move_ens,
                    targets=[type(gen)._make_random_move, type(gen)._swap_tiles])
    return [step, reset, reset_real, gen_move]
