"""Sidecar contract for jumanji.environments.packing.job_shop.env:JobShop.

Rules, written from the class docstring and the docstrings of `types.py` / `_is_action_valid`:
* every machine receives a job id in 0..num_jobs; `num_jobs` is the no-op, which is always legal;
* scheduling job j on machine m is legal iff  the machine is available (remaining time 0)  AND  the job's next
  operation (the first True of its `ops_mask` row) must be processed on exactly this machine  AND  the job is not being
  processed on any machine  AND  the job has not finished all of its operations;
* an operation scheduled at time t on machine m occupies it during [t, t + duration); the clock advances by one per
  step; reward -1 per step; an illegal joint action or "all machines simultaneously idle" ends the episode with
  reward -num_jobs * max_num_ops * max_op_duration; the episode also ends when every operation has been processed.

Judgement call (DESIGN C04): the "all machines idle" termination is a documented deadlock rule, not "treated as
invalid": it can only happen to an all-no-op action, and whenever all machines are idle and the schedule is unfinished
some non-no-op action is legal (clause C04.deadlock_is_avoidable).
"""
import jax
import jax.numpy as jnp

from contracts import common as K
from contracts import envs as E

ENV = "JobShop"
PROPS = ("C01", "C04", "C05", "C06", "C08", "C09", "C11", "C12")  # properties this module has clauses for


def dims(env):
    return env.num_jobs, env.num_machines, env.max_num_ops, env.max_op_duration


def penalty(env):
    J, M, O, D = dims(env)
    return float(-J * O * D)  # docstring: `-num_jobs * max_num_ops * max_op_duration`


# ---- vocabulary over raw state arrays --------------------------------------------------------------------------------
def exists(s):  # the op is part of the instance (-1 is the padding of jobs with fewer ops)
    return s.ops_machine_ids != -1


def sched(s):  # the op has been scheduled
    return exists(s) & ~s.ops_mask


def ends(s):
    return s.scheduled_times + s.ops_durations


def is_next(env, ops_mask):
    """one-hot (J, O): the first True of each row of ops_mask (all False if the job is finished)"""
    J, M, O, D = dims(env)
    cols = []
    for o in range(O):
        earlier = jnp.zeros((J,), bool)
        for p in range(o):
            earlier = earlier | ops_mask[:, p]
        cols.append(ops_mask[:, o] & ~earlier)
    return jnp.stack(cols, axis=1)


def legal_from(env, machines_job_ids, machines_remaining_times, ops_machine_ids, ops_mask):
    """(M, J+1) rule predicate written from the documentation (see module docstring)"""
    J, M, O, D = dims(env)
    nxt = is_next(env, ops_mask)
    rows = []
    for m in range(M):
        row = []
        for j in range(J):
            machine_available = machines_remaining_times[m] == 0
            next_op_is_for_this_machine = jnp.asarray(False)
            for o in range(O):
                next_op_is_for_this_machine = next_op_is_for_this_machine | (nxt[j, o] & (ops_machine_ids[j, o] == m))
            job_running = jnp.asarray(False)
            for q in range(M):
                job_running = job_running | ((machines_job_ids[q] == j) & (machines_remaining_times[q] > 0))
            job_unfinished = jnp.any(ops_mask[j])
            row.append(machine_available & next_op_is_for_this_machine & ~job_running & job_unfinished)
        row.append(jnp.asarray(True))  # no-op
        rows.append(jnp.stack(row))
    return jnp.stack(rows)


def legal(env, s):
    return legal_from(env, s.machines_job_ids, s.machines_remaining_times, s.ops_machine_ids, s.ops_mask)


def joint_legal(env, s, a):
    J, M, O, D = dims(env)
    L = legal(env, s)
    ok = jnp.asarray(True)
    for m in range(M):
        ok = ok & L[m, jnp.clip(a[m], 0, J)]
    return ok


def all_idle(env, s):
    return jnp.all((s.machines_job_ids == env.num_jobs) & (s.machines_remaining_times == 0))


def finished(env, s):
    return ~jnp.any(s.ops_mask) & jnp.all(s.machines_remaining_times == 0)


def num_unscheduled(s):
    return jnp.sum(s.ops_mask.astype(jnp.int32))


def sum_remaining(s):
    return jnp.sum(s.machines_remaining_times)


def work_left(s):
    """linear variant: total duration of the unscheduled ops + remaining times of the machines"""
    return jnp.sum(jnp.where(s.ops_mask, s.ops_durations, 0)) + sum_remaining(s)


def makespan(s):
    """documented objective: the total length of the (partial) schedule = latest end of a scheduled op, from raw arrays"""
    return jnp.max(jnp.where(sched(s), ends(s), 0))


# ---- Feasible(state): the hard constraints of the problem, recomputed from raw arrays (C06) --------------------------
def feasible(env, s):
    J, M, O, D = dims(env)
    sc, st, en, mid = sched(s), s.scheduled_times, ends(s), s.ops_machine_ids
    ops = [(j, o) for j in range(J) for o in range(O)]
    machine_pairs, job_pairs = [], []
    for i, (j, o) in enumerate(ops):
        for (j2, o2) in ops[i + 1:]:
            both = sc[j, o] & sc[j2, o2]
            disjoint = (en[j, o] <= st[j2, o2]) | (en[j2, o2] <= st[j, o])
            machine_pairs.append(~(both & (mid[j, o] == mid[j2, o2])) | disjoint)
            if j == j2:  # o < o2: ops of one job are processed in order and never overlap
                job_pairs.append((~sc[j2, o2] | sc[j, o]) & (~both | (en[j, o] <= st[j2, o2])))
    one_machine = []
    for m in range(M):
        for m2 in range(m + 1, M):
            one_machine.append(~((s.machines_remaining_times[m] > 0) & (s.machines_remaining_times[m2] > 0)
                                 & (s.machines_job_ids[m] == s.machines_job_ids[m2])))
    out = {"machine_intervals_disjoint": jnp.stack(machine_pairs),
           "scheduled_ops_have_a_start_time": ~sc | (st >= 0)}
    if job_pairs:
        out["job_order_and_no_overlap_within_job"] = jnp.stack(job_pairs)
    if one_machine:
        out["job_on_at_most_one_machine"] = jnp.stack(one_machine)
    return out


# ---- Inv(state): representation invariant of non-terminal reachable states (derived from the code) -------------------
def inv(env, s):
    J, M, O, D = dims(env)
    H = J * O * D
    t, mid, du, st, en = s.step_count, s.ops_machine_ids, s.ops_durations, s.scheduled_times, ends(s)
    ex, sc = exists(s), sched(s)
    rem, jid = s.machines_remaining_times, s.machines_job_ids
    running = jnp.zeros((J, O), bool)  # the op is exactly what its machine is processing now
    for m in range(M):
        running = running | ((mid == m) & (jid[m] == jnp.arange(J)[:, None]) & (rem[m] > 0) & (en == t + rem[m]))
    busy_ok = []
    for m in range(M):
        some = jnp.asarray(False)
        for j in range(J):
            for o in range(O):
                last_sched = jnp.asarray(True) if o + 1 == O else ~sc[j, o + 1]
                some = some | ((jid[m] == j) & sc[j, o] & (mid[j, o] == m) & (en[j, o] == t + rem[m]) & last_sched)
        busy_ok.append((rem[m] <= 0) | some)
    out = {
        "ops_wellformed": ((mid >= 0) & (mid < M) & (du >= 1) & (du <= D)) | ((mid == -1) & (du == -1)),
        "job_has_an_op": ex[:, 0],
        "mask_only_on_existing_ops": ~s.ops_mask | ex,
        "unscheduled_time_is_minus_one": sc | (st == -1),
        "scheduled_in_the_past": ~sc | ((st >= 0) & (st < t)),
        "scheduled_op_done_or_running": ~sc | (en <= t) | running,
        "machines_in_range": (rem >= 0) & (rem <= D) & (jid >= 0) & (jid <= J),
        "busy_machine_runs_last_scheduled_op_of_its_job": jnp.stack(busy_ok),
        "cached_mask_is_the_mask": s.action_mask == legal(env, s),
        "clock": t >= 0,
        "horizon": t + work_left(s) <= H,
        "not_finished": ~finished(env, s),
    }
    if O > 1:
        out["ops_form_a_prefix"] = ~ex[:, 1:] | ex[:, :-1]
        out["job_order"] = ~sc[:, 1:] | (sc[:, :-1] & (en[:, :-1] <= st[:, 1:]))
    for k, v in feasible(env, s).items():
        out["feasible_" + k] = v
    return out


# ---- spec functions (C09, C12) ---------------------------------------------------------------------------------------
def spec_obs(s):
    return dict(ops_machine_ids=s.ops_machine_ids, ops_durations=s.ops_durations, ops_mask=s.ops_mask,
                machines_job_ids=s.machines_job_ids, machines_remaining_times=s.machines_remaining_times,
                action_mask=s.action_mask)


def spec_clock(env, s, a):
    """The clock rules for a legal joint action, per machine and per op (explicit case analysis):
    machine: a job is started -> it now processes that job, available in duration-1 further steps;
             no-op and busy -> keeps its job, one step less; no-op and available -> holds the no-op, time 0.
    op: it is the next op of a job started by some machine -> scheduled at the current time; otherwise unchanged."""
    J, M, O, D = dims(env)
    nxt = is_next(env, s.ops_mask)
    jids, rems = [], []
    for m in range(M):
        dur = jnp.asarray(0)
        for j in range(J):
            for o in range(O):
                dur = jnp.where((a[m] == j) & nxt[j, o], s.ops_durations[j, o], dur)
        noop = a[m] == J
        busy = s.machines_remaining_times[m] > 0
        jids.append(jnp.where(noop, jnp.where(busy, s.machines_job_ids[m], J), a[m]))
        rems.append(jnp.where(noop, jnp.where(busy, s.machines_remaining_times[m] - 1, 0), dur - 1))
    started = jnp.zeros((J,), bool)
    for m in range(M):
        started = started | (a[m] == jnp.arange(J))
    now = nxt & started[:, None]
    return dict(machines_job_ids=jnp.stack(jids), machines_remaining_times=jnp.stack(rems),
                ops_mask=s.ops_mask & ~now, scheduled_times=jnp.where(now, s.step_count, s.scheduled_times),
                step_count=s.step_count + 1)


def problems(env, cfg, tier):
    J, M, O, D = dims(env)
    H = J * O * D
    PEN = penalty(env)
    state, ts, a = E.example(env)

    def req(s, a):
        return {**inv(env, s), "in_spec": E.in_spec(env, a)}

    def ens(s, a):
        s2, ts = env.step(s, a)
        o = ts.observation
        ok = joint_legal(env, s, a)
        last = ts.step_type == K.LAST
        idle2, fin2 = all_idle(env, s2), finished(env, s2)
        L2 = legal(env, s2)
        sp = spec_clock(env, s, a)
        out = {
            # C04
            "C04.mask_is_exactly_the_legal_moves": o.action_mask == L2,
            "C04.cached_mask_is_the_mask": s2.action_mask == L2,
            "C04.legal_move_not_treated_as_invalid": ~ok | idle2 | ((ts.reward == -1.0) & (last == fin2)),
            "C04.illegal_move_is_treated_as_invalid": ok | (last & (ts.reward == PEN)),
            "C04.deadlock_only_after_all_noop": ~(ok & idle2) | jnp.all(a == J),
            "C04.deadlock_is_avoidable": ~jnp.all(s.machines_remaining_times == 0) | jnp.any(legal(env, s)[:, :J]),
            # C05
            "C05.illegal_is_last": ok | last,
            "C05.illegal_reward_is_documented": ok | (ts.reward == PEN),
            "C05.illegal_discount_zero": ok | (ts.discount == 0.0),
            # C06
            "C06.completion_all_ops_scheduled": ~(ok & last & ~idle2) | (jnp.all(~exists(s2) | (sched(s2) & (s2.scheduled_times >= 0)
                                                                                                & (ends(s2) <= s2.step_count)))
                                                                         & jnp.all(s2.machines_remaining_times == 0)),
            "C06.legal_step_ends_only_by_completion_or_deadlock": ~(ok & last) | idle2 | fin2,
            # C08 (ghost return g = -step_count; at completion step_count is the makespan recomputed from the schedule)
            "C08.reward_is_ghost_increment": ~ok | idle2 | (ts.reward == (-s2.step_count) - (-s.step_count)),
            "C08.completion_return_is_minus_makespan": ~(ok & last & ~idle2) | (s2.step_count == makespan(s2)),
            "C08.partial_makespan_never_exceeds_clock": ~ok | (makespan(s2) <= s2.step_count + jnp.max(s2.machines_remaining_times)),
            "C08.deadlock_penalty_is_documented": ~(ok & idle2) | (ts.reward == PEN),
            # C09 clock spec for legal joint actions; reward/termination for all in-spec actions
            "C09.machines_job_ids": ~ok | (s2.machines_job_ids == sp["machines_job_ids"]),
            "C09.machines_remaining_times": ~ok | (s2.machines_remaining_times == sp["machines_remaining_times"]),
            "C09.ops_mask": ~ok | (s2.ops_mask == sp["ops_mask"]),
            "C09.scheduled_times": ~ok | (s2.scheduled_times == sp["scheduled_times"]),
            "C09.step_count": s2.step_count == sp["step_count"],
            "C09.frame": (s2.ops_machine_ids == s.ops_machine_ids).all() & (s2.ops_durations == s.ops_durations).all()
                         & (s2.key == s.key).all(),
            "C09.reward": ts.reward == jnp.where(~ok | idle2, PEN, -1.0),
            "C09.last": last == (~ok | idle2 | fin2),
            "C09.discount": ts.discount == jnp.where(last, 0.0, 1.0),
            # C11 (no time limit: structural horizon)
            "C11.counting": s2.step_count == s.step_count + 1,
            "C11.variant_decreases": last | (num_unscheduled(s2) < num_unscheduled(s))
                                     | ((num_unscheduled(s2) == num_unscheduled(s)) & (sum_remaining(s2) < sum_remaining(s))),
            "C11.variant_bounded": (num_unscheduled(s) >= 0) & (num_unscheduled(s) <= J * O) & (sum_remaining(s) >= 0)
                                   & (sum_remaining(s) <= M * D),
            "C11.horizon_variant_decreases": last | (work_left(s2) < work_left(s)),
            "C11.horizon_variant_bounded": (work_left(s) >= 0) & (work_left(s) <= H) & (s.step_count + work_left(s) <= H),
            "C11.never_later_than_horizon": last | (s2.step_count < H),
            "C11.never_earlier": ~last | ~ok | idle2 | fin2,
            "canary.no_op_is_ever_scheduled": (s2.ops_mask == s.ops_mask).all(),
        }
        for k, v in spec_obs(s2).items():
            out["C12.obs." + k] = getattr(o, k) == v
        # Feasible is preserved by every legal joint action (also on the completing step); the rest of Inv on MID steps
        for k, v in feasible(env, s2).items():
            out["C06.feasible_" + k] = ~ok | v
        for k, v in inv(env, s2).items():
            out["C06.inv_" + k] = last | v
        out.update(K.spec_bounds(env.observation_spec, o, "C01.step_obs_bounds"))
        return out

    T = type(env)
    step = dict(title=f"JobShop.step@{cfg}", args=(state, a), requires=req, ensures=ens,
                targets=[T.step, T._update_machines, T._update_operations, T._create_action_mask, T._is_action_valid,
                         T._observation_from_state])

    # views and counting need no invariant: they also hold for steps after LAST
    def ens_any(s, a):
        s2, ts = env.step(s, a)
        o = ts.observation
        out = {"C11.counting_any_state": s2.step_count == s.step_count + 1,
               "C12.cached_mask_shown": o.action_mask == s2.action_mask,
               "canary.mask_never_changes": (s2.action_mask == s.action_mask).all()}
        for k, v in spec_obs(s2).items():
            out["C12.any_state_obs." + k] = getattr(o, k) == v
        return out

    step_any = dict(title=f"JobShop.step(any state)@{cfg}", args=(state, a), requires=lambda s, a: {"in_spec": E.in_spec(env, a)},
                    ensures=ens_any, targets=[T.step, T._observation_from_state])

    # the mask function alone == the rule, for ALL argument values (no invariant)
    def mask_ens(jid, rem, mid, om):
        got = env._create_action_mask(jid, rem, mid, om)
        return {"C04.mask_fn_is_the_rule": got == legal_from(env, jid, rem, mid, om),
                "canary.mask_fn_all_true": got.all()}

    mask_fn = dict(title=f"JobShop._create_action_mask@{cfg}",
                   args=(state.machines_job_ids, state.machines_remaining_times, state.ops_machine_ids, state.ops_mask),
                   requires=None, ensures=mask_ens, targets=[T._create_action_mask, T._is_action_valid])

    # function-level clock contracts (C09): `op_ids` is any index vector that points at each job's next op
    def clock_req(a, op_ids, t, st, om, jid, rem, du):
        nxt = is_next(env, om)
        points = jnp.stack([jnp.any(nxt[j]) == jnp.any(nxt[j] & (op_ids[j] == jnp.arange(O))) for j in range(J)])
        started = jnp.stack([jnp.any(a == j) for j in range(J)])
        return {"in_spec": E.in_spec(env, a), "op_ids_in_range": (op_ids >= 0) & (op_ids < O), "op_ids_point_at_next_op": points,
                "started_jobs_are_unfinished": ~started | jnp.any(om, axis=1),  # call-site fact for legal joint actions
                "remaining_times_nonnegative": rem >= 0}

    def clock_ens(a, op_ids, t, st, om, jid, rem, du):
        om2, st2 = env._update_operations(a, op_ids, t, st, om)
        jid2, rem2 = env._update_machines(a, op_ids, jid, rem, du)
        nxt = is_next(env, om)
        started = jnp.stack([jnp.any(a == j) for j in range(J)])
        now = nxt & started[:, None]
        exp_jid, exp_rem = [], []
        for m in range(M):
            dur = jnp.asarray(0)
            for j in range(J):
                for o in range(O):
                    dur = jnp.where((a[m] == j) & (op_ids[j] == o), du[j, o], dur)
            noop, busy = a[m] == J, rem[m] > 0
            exp_jid.append(jnp.where(noop, jnp.where(busy, jid[m], J), a[m]))
            exp_rem.append(jnp.where(noop, jnp.where(busy, rem[m] - 1, 0), jnp.where(dur > 0, dur - 1, 0)))
        return {"C09.update_operations.ops_mask": om2 == (om & ~now),
                "C09.update_operations.scheduled_times": st2 == jnp.where(now, t, st),
                "C09.update_machines.job_ids": jid2 == jnp.stack(exp_jid),
                "C09.update_machines.remaining_times": rem2 == jnp.stack(exp_rem),
                "C09.update_machines.remaining_times_never_negative": (rem2 >= 0) | (rem < 0),
                "canary.no_machine_changes_job": (jid2 == jid).all()}

    clock = dict(title=f"JobShop._update_operations/_update_machines@{cfg}",
                 args=(a, jnp.zeros((J,), jnp.int32), state.step_count, state.scheduled_times, state.ops_mask,
                       state.machines_job_ids, state.machines_remaining_times, state.ops_durations),
                 requires=clock_req, ensures=clock_ens, targets=[T._update_operations, T._update_machines, T._set_busy])

    # reset: the generator is light (three randint calls, replaced by their assumed sampler contracts): all outcomes
    def reset_ens(key):
        s, ts = env.reset(key)
        o = ts.observation
        out = {"C04.reset_mask_is_exactly_the_legal_moves": o.action_mask == legal(env, s),
               "C04.reset_cached_mask_is_the_mask": s.action_mask == legal(env, s),
               "C11.reset_step_count_zero": s.step_count == 0,
               "C11.reset_horizon_variant_bounded": (work_left(s) >= 0) & (work_left(s) <= H),
               "C08.reset_ghost_return_zero": -s.step_count == 0,
               "canary.reset_every_op_exists": exists(s).all()}
        for k, v in spec_obs(s).items():
            out["C12.reset_obs." + k] = getattr(o, k) == v
        for k, v in inv(env, s).items():
            out["C06.reset_inv_" + k] = v
        out.update(K.spec_bounds(env.observation_spec, o, "C01.reset_obs_bounds"))
        return out

    reset = dict(title=f"JobShop.reset@{cfg}", args=(jax.random.PRNGKey(0),), requires=None, ensures=reset_ens,
                 targets=[T.reset, type(env.generator).__call__],
                 note="RandomGenerator's randint calls are replaced by their sampler contracts: the proof is for every outcome")
    return [step, step_any, mask_fn, clock, reset]
