"""Sidecar contract for jumanji.environments.logic.minesweeper.env:Minesweeper.

Rules (class docstring, reward.py, done.py): the board shows -1 for an unexplored square and otherwise the number of mines
in the 8 adjacent squares.  An action (row, col) is legal iff the square is unexplored.  Exploring a safe square gives
`revealed_empty_square_reward` (default 1), exploring a mine gives `revealed_mine_reward` (default 0) and ends the episode,
an already explored square gives `invalid_action_reward` (default 0) and ends the episode; the episode also ends when all
safe squares are explored.  The mines never move.  Spec functions use explicit loops over cells and the 8 offsets (the
implementation scatters the mines, pads and dynamic-slices a 3x3 patch)."""
import jax.numpy as jnp
import numpy as np

from contracts import common as K
from contracts import envs as E

ENV = "Minesweeper"
PROPS = ("C01", "C04", "C05", "C07", "C08", "C09", "C11", "C12")
OFFSETS = [(dr, dc) for dr in (-1, 0, 1) for dc in (-1, 0, 1) if (dr, dc) != (0, 0)]


# documented reward constants per configuration: (revealed empty square, revealed mine, invalid action); the environment's documented default is (1, 0, 0)
REWARDS = {"default": (1.0, 0.0, 0.0), "3x3m2r": (1.0, -3.0, -5.0), "3x3m2ri": (1, -3, -5)}


def configs(tier):
    """the catalogue configurations (default rewards 1/0/0) + one with three distinct reward constants, so that the
    documented mapping event -> reward is distinguishable"""
    from jumanji.environments import Minesweeper
    from jumanji.environments.logic.minesweeper.generator import UniformSamplingGenerator
    from jumanji.environments.logic.minesweeper.reward import DefaultRewardFn

    out = dict(E.configs(ENV, tier))
    out["3x3m2r"] = lambda: Minesweeper(UniformSamplingGenerator(3, 3, 2), reward_function=DefaultRewardFn(
        revealed_empty_square_reward=1.0, revealed_mine_reward=-3.0, invalid_action_reward=-5.0))
    if tier != "quick":
        out["2x5m0"] = lambda: Minesweeper(UniformSamplingGenerator(2, 5, 0))
        out["2x4m7"] = lambda: Minesweeper(UniformSamplingGenerator(2, 4, 7))
    return out


def mine_grid(R, C, flat):
    """(R, C) bool: the square holds a mine"""
    return jnp.stack([jnp.stack([jnp.any(flat == r * C + c) for c in range(C)]) for r in range(R)])


def neighbour_counts(R, C, mines):
    """(R, C) int: number of mines in the (up to) 8 adjacent squares"""
    m = mines.astype(jnp.int32)
    rows = []
    for r in range(R):
        row = []
        for c in range(C):
            tot = jnp.int32(0)
            for dr, dc in OFFSETS:
                if 0 <= r + dr < R and 0 <= c + dc < C:
                    tot = tot + m[r + dr, c + dc]
            row.append(tot)
        rows.append(jnp.stack(row))
    return jnp.stack(rows)


def isum(x):
    return jnp.sum(x.astype(jnp.int32))


def inv(env, s):
    R, C, M = env.num_rows, env.num_cols, env.num_mines
    f = s.flat_mine_locations
    mines = mine_grid(R, C, f)
    revealed = s.board >= 0
    out = {
        "mines_in_range": (f >= 0) & (f < R * C),
        "board_alphabet": (s.board >= -1) & (s.board <= 8),
        "revealed_squares_are_safe": ~revealed | ~mines,
        "revealed_squares_show_the_true_count": ~revealed | (s.board == neighbour_counts(R, C, mines)),
        "step_count_is_the_number_of_revealed_squares": s.step_count == isum(revealed),
        "not_solved": isum(revealed) < R * C - M,
    }
    if M > 1:
        out["mines_distinct"] = jnp.stack([f[i] != f[j] for i in range(M) for j in range(i + 1, M)])
    return out


def problems(env, cfg, tier):
    R, C, M = env.num_rows, env.num_cols, env.num_mines
    state, ts, a = E.example(env)
    Env = type(env)
    rf = env.reward_function
    # documented reward constants (constructor arguments of DefaultRewardFn; note the attribute is spelt `revelead_mine_reward`)
    # (read from the configuration table below, not from private attributes of the reward object: renaming an attribute is a harmless edit)
    R_EMPTY, R_MINE, R_INVALID = (float(x) for x in REWARDS.get(cfg, REWARDS["default"]))
    default_rewards = (R_EMPTY, R_MINE, R_INVALID) == (1.0, 0.0, 0.0)
    I, J = np.meshgrid(np.arange(R), np.arange(C), indexing="ij")
    from jumanji.environments.logic.minesweeper import utils as U

    def req(s, a):
        return {**inv(env, s), "in_spec": E.in_spec(env, a)}

    def ens(s, a):
        s2, ts = env.step(s, a)
        r, c = a[0], a[1]
        target = (I == r) & (J == c)
        mines, mines2 = mine_grid(R, C, s.flat_mine_locations), mine_grid(R, C, s2.flat_mine_locations)
        cnt = neighbour_counts(R, C, mines)
        at = lambda g: jnp.sum(jnp.where(target, g.astype(jnp.int32), 0))  # value of a grid at the chosen square
        ok = at(s.board) == -1
        mine = at(mines) == 1
        revealed, revealed2 = s.board >= 0, s2.board >= 0
        safe_rev, safe_rev2 = isum(revealed & ~mines), isum(revealed2 & ~mines2)
        unexplored_safe, unexplored_safe2 = isum(~revealed & ~mines), isum(~revealed2 & ~mines2)
        all_safe_revealed2 = jnp.all(mines2 | revealed2)
        last = ts.step_type == K.LAST
        o = ts.observation
        spec_board = jnp.where(target, cnt, s.board)
        spec_reward = jnp.where(ok, jnp.where(mine, R_MINE, R_EMPTY), R_INVALID)
        spec_last = ~ok | mine | all_safe_revealed2
        out = {
            "C04.mask_is_exactly_the_legal_moves": o.action_mask == (s2.board == -1),
            "C04.legal_move_not_treated_as_invalid": ~ok | ((last == (mine | all_safe_revealed2)) & (ts.reward == jnp.where(mine, R_MINE, R_EMPTY))),
            "C04.legal_move_is_executed": ~ok | (at(s2.board) == at(cnt)),
            "C05.illegal_is_last": ok | last,
            "C05.illegal_reward_is_documented": ok | (ts.reward == R_INVALID),
            "C05.illegal_board_and_mines_unchanged": ok | ((s2.board == s.board).all() & (s2.flat_mine_locations == s.flat_mine_locations).all()),
            # conservation / physical consistency, for ANY in-spec action, also on the LAST step
            "C07.mine_locations_unchanged": s2.flat_mine_locations == s.flat_mine_locations,
            "C07.mine_squares_unchanged": mines2 == mines,
            "C07.mine_count_conserved": (isum(mines2) == M) & (isum(mines) == M),
            "C07.revealed_squares_show_the_true_count_even_at_last": ~revealed2 | (s2.board == neighbour_counts(R, C, mines2)),
            "C07.board_alphabet_even_at_last": (s2.board >= -1) & (s2.board <= 8),
            "C07.only_the_chosen_square_changes": target | (s2.board == s.board),
            "C07.explored_squares_stay_explored": ~revealed | revealed2,
            # ghost return: objective = #safe squares revealed (x R_EMPTY) + the one-off terminal event rewards
            "C08.reward_is_the_objective_increment": ts.reward == R_EMPTY * (safe_rev2 - safe_rev) + R_MINE * (ok & mine) + R_INVALID * (~ok),
            "C08.safe_squares_revealed_grows_by_at_most_one": (safe_rev2 - safe_rev >= 0) & (safe_rev2 - safe_rev <= 1),
            "C09.board": s2.board == spec_board,
            "C09.reward": ts.reward == spec_reward,
            "C09.last": last == spec_last,
            "C09.step_count": s2.step_count == s.step_count + 1,
            "C09.frame": (s2.flat_mine_locations == s.flat_mine_locations).all() & (s2.key == s.key).all(),
            "C11.counting": s2.step_count == s.step_count + 1,
            "C11.last_only_for_a_documented_reason": ~last | ~ok | mine | all_safe_revealed2,
            "C11.variant_decreases": last | (unexplored_safe2 < unexplored_safe),
            "C11.variant_bounded": (unexplored_safe >= 1) & (unexplored_safe <= R * C - M),
            "C11.variant_plus_steps_is_the_horizon": unexplored_safe + s.step_count == R * C - M,
            "C12.obs.board": o.board == s2.board,
            "C12.obs.action_mask": o.action_mask == (s2.board == -1),
            "C12.obs.num_mines": o.num_mines == M,
            "C12.obs.step_count": o.step_count == s2.step_count,
            "canary.chosen_square_never_changes": at(s2.board) == at(s.board),
        }
        if default_rewards:
            out["C08.reward_is_the_number_of_newly_revealed_safe_squares"] = ts.reward == (safe_rev2 - safe_rev)
        for k, v in inv(env, s2).items():
            out["C07.inv_" + k] = last | v
        out.update(K.spec_bounds(env.observation_spec, o, "C01.step_obs_bounds"))
        return out

    step = dict(title=f"Minesweeper.step@{cfg}", args=(state, a), requires=req, ensures=ens,
                targets=[Env.step, U.count_adjacent_mines, U.explored_mine, U.is_valid_action, U.is_solved, type(rf).__call__,
                         type(env.done_function).__call__, Env._state_to_observation])

    # function level: count_adjacent_mines is the neighbour count for every placement of distinct in-range mines
    def fn_req(s, a):
        i = inv(env, s)
        return {k: i[k] for k in ("mines_in_range", "mines_distinct") if k in i} | {"in_spec": E.in_spec(env, a)}

    def fn_ens(s, a):
        target = (I == a[0]) & (J == a[1])
        mines = mine_grid(R, C, s.flat_mine_locations)
        want = jnp.sum(jnp.where(target, neighbour_counts(R, C, mines), 0))
        out = {"canary.always_exactly_one_adjacent_mine": U.count_adjacent_mines(s, a) == 1}
        for p in ("C07", "C09"):
            out[f"{p}.count_adjacent_mines_is_the_neighbour_count"] = U.count_adjacent_mines(s, a) == want
            out[f"{p}.explored_mine_is_the_rule"] = U.explored_mine(s, a) == jnp.any(target & mines)
        return out

    fn = dict(title=f"Minesweeper.count_adjacent_mines@{cfg}", args=(state, a), requires=fn_req, ensures=fn_ens,
              targets=[U.count_adjacent_mines, U.explored_mine, U.get_mined_board])

    def reset_ens(key):
        s, ts = env.reset(key)
        o = ts.observation
        mines = mine_grid(R, C, s.flat_mine_locations)
        out = {"C04.reset_mask_is_exactly_the_legal_moves": o.action_mask == (s.board == -1),
               "C04.reset_every_square_is_legal": o.action_mask,
               "C07.reset_mine_count": isum(mines) == M,
               "C07.reset_board_unexplored": s.board == -1,
               "C08.reset_objective_zero": isum((s.board >= 0) & ~mines) == 0,
               "C11.reset_step_count_zero": s.step_count == 0,
               "C11.reset_variant_is_the_horizon": isum((s.board == -1) & ~mines) == R * C - M,
               "C12.reset_obs.board": o.board == s.board,
               "C12.reset_obs.action_mask": o.action_mask == (s.board == -1),
               "C12.reset_obs.num_mines": o.num_mines == M,
               "C12.reset_obs.step_count": o.step_count == s.step_count,
               "canary.reset_square_0_is_mined": mines[0, 0]}
        for k, v in inv(env, s).items():
            out["C07.reset_inv_" + k] = v
        out.update(K.spec_bounds(env.observation_spec, o, "C01.reset_obs_bounds"))
        return out

    reset = dict(title=f"Minesweeper.reset@{cfg}", args=(state.key,), requires=lambda key: {}, ensures=reset_ens,
                 targets=[Env.reset, type(env.generator).__call__, U.create_flat_mine_locations],
                 note="jax.random.choice(replace=False) replaced by its contract stub (distinct indices in range)")
    return [step, fn, reset]
