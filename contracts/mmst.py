"""Sidecar contract for jumanji.environments.routing.mmst.env:MMST (default graph: 36 nodes, 3 agents) -- C11 (counting,
never later / never earlier with a symbolic time limit), C12 (copied fields + the node-type relabelling) and C01 bounds.
C04/C06/C08 are tier 2 (not attempted).

Documented rules used: the episode ends when every agent has connected its nodes (`finished_agents`) or the step limit is
reached; observation (first agent's point of view, "to make the environment single agent"): "each agent should see its
node_types labelled with id 1 and all its already connected nodes labelled with id 0; preserve the negative ones", i.e.
a node connected by agent k shows 2k, an unconnected node of agent k shows 2k + 1, an unconnected utility node shows -1;
adj_matrix, positions, step_count and the cached action mask are copied."""
import jax.numpy as jnp

from contracts import common as K
from contracts import envs as E

ENV = "MMST"
PROPS = ("C01", "C11", "C12")
UTILITY = -1


def inv(env, s, T):
    A, N = env.num_agents, env.num_nodes
    return {
        "node_types_in_range": (s.node_types >= -1) & (s.node_types <= A - 1),
        "adjacency_is_0_1": (s.adj_matrix == 0) | (s.adj_matrix == 1),
        "positions_are_nodes": (s.positions >= 0) & (s.positions < N),
        "node_edges_in_range": (s.node_edges >= -1) & (s.node_edges < N),  # entries are -1 (no / masked edge) or a node index
        "counter": (s.step_count >= 0) & (s.step_count < T),
    }


def spec_node_types(env, s):
    """relabelling from agent 0's point of view, node by node"""
    out = []
    for n in range(env.num_nodes):
        t = s.node_types[n]
        v = jnp.where(t == UTILITY, -1, 2 * t + 1)
        for k in range(env.num_agents):
            v = jnp.where(s.connected_nodes_index[k, n] != -1, 2 * k, v)
        out.append(v)
    return jnp.stack(out)


def obs_clauses(env, s, o, prefix):
    return {
        prefix + "node_types": o.node_types == spec_node_types(env, s),
        prefix + "adj_matrix": jnp.all(o.adj_matrix == s.adj_matrix, axis=-1),
        prefix + "positions": o.positions == s.positions,
        prefix + "step_count": o.step_count == s.step_count,
        prefix + "action_mask": jnp.all(o.action_mask == s.action_mask, axis=-1),
    }


def bounds(env, o, prefix):
    """K.spec_bounds, with the 36 x 36 adjacency clause folded to one obligation per row"""
    out = K.spec_bounds(env.observation_spec, o, prefix)
    out[prefix + ".adj_matrix"] = jnp.all(out[prefix + ".adj_matrix"], axis=-1)
    return out


def problems(env, cfg, tier):
    state, ts, a = E.example(env)
    T0 = jnp.int32(env.time_limit)

    def req(T, s, a):
        return {**inv(env, s, T), "in_spec": E.in_spec(env, a), "T_positive": T >= 1}

    def ens(T, s, a):
        with K.with_attr(env, "time_limit", T):
            s2, ts = env.step(s, a)
        last = ts.step_type == K.LAST
        o = ts.observation
        out = {
            "C11.counting": s2.step_count == s.step_count + 1,
            "C11.never_later": (s.step_count + 1 < T) | last,
            "C11.never_earlier": ~last | (s.step_count + 1 >= T) | jnp.all(s2.finished_agents),
            "C11.all_finished_ends_the_episode": ~jnp.all(s2.finished_agents) | last,
            "C11.step_type_is_mid_or_last": last | (ts.step_type == K.MID),
            "C11.inv_counter": last | ((s2.step_count >= 0) & (s2.step_count < T)),
            "canary.agent0_never_moves": s2.positions[0] == s.positions[0],
        }
        c = obs_clauses(env, s2, o, "C12.obs.")
        # stated directly on the step the relabelling costs ~40 s per node (the successor's `connected_nodes_index` is a deep
        # term): it is proved on the observation function for every state with node types in range (`MMST.observation`), and
        # here the view handed out is that function of the NEW state, whose node types are still in range
        del c["C12.obs.node_types"]
        out.update(c)
        out["C12.obs.node_types_is_observation_fn_of_new_state"] = o.node_types == env._state_to_observation(s2).node_types
        out["C12.inv_node_types_in_range"] = inv(env, s2, T)["node_types_in_range"]
        return out

    step = dict(title=f"MMST.step@{cfg}", args=(T0, state, a), requires=req, ensures=ens, props=("C11", "C12"), workers=3,
                targets=[type(env).step, type(env)._state_to_timestep, type(env)._state_to_observation],
                note="time_limit is a symbolic scalar T >= 1 (the length of `connected_nodes` stays the configuration's)")

    # the observation function alone, on any state whose node types are in range
    def req_obs(s):
        i = inv(env, s, jnp.int32(2 ** 30))
        return {k: i[k] for k in ("node_types_in_range", "adjacency_is_0_1", "positions_are_nodes", "counter")}

    def ens_obs(s):
        o = env._state_to_observation(s)
        out = obs_clauses(env, s, o, "C12.observation.")
        b = bounds(env, o, "C01.observation_bounds")
        del b["C01.observation_bounds.step_count"]  # needs the time limit: stated in `MMST.step_bounds`
        out.update(b)
        out["canary.node0_is_a_utility_node"] = o.node_types[0] == -1
        return out

    obsp = dict(title=f"MMST.observation@{cfg}", args=(state,), requires=req_obs, ensures=ens_obs, props=("C01", "C12"),
                targets=[type(env)._state_to_observation], note="function-level contract of the observation function")

    # C01 with the configuration's time limit (the spec's step_count maximum)
    Tc = int(env.time_limit)

    def req01(s, a):
        return {**inv(env, s, Tc), "in_spec": E.in_spec(env, a)}

    def ens01(s, a):
        s2, ts = env.step(s, a)
        o = ts.observation
        out = {"canary.agent0_never_moves": s2.positions[0] == s.positions[0]}
        b = bounds(env, o, "C01.step_obs_bounds")
        # node_types: the relabelled values are bounded for every state with node types in range (`MMST.observation`); here:
        # the view is the observation function of the new state, which keeps Inv
        del b["C01.step_obs_bounds.node_types"]
        out.update(b)
        out["C01.step_obs_is_observation_fn_of_new_state"] = o.node_types == env._state_to_observation(s2).node_types
        i2 = inv(env, s2, Tc)
        for k in ("node_types_in_range", "positions_are_nodes"):
            out["C01.inv_" + k] = i2[k]
        out["C01.inv_adjacency_is_0_1"] = jnp.all(i2["adjacency_is_0_1"], axis=-1)
        # the edge tables of the new state are `update_active_edges` of the old ones (3888 entries, syntactic); that this
        # function keeps every entry in range is its function-level contract (`MMST.update_active_edges`)
        from jumanji.environments.routing.mmst.utils import update_active_edges
        out["C01.inv_node_edges_are_update_active_edges_of_the_old_tables"] = jnp.all(
            s2.node_edges == update_active_edges(env.num_agents, s.node_edges, s2.positions, s.node_types), axis=-1)
        return out

    step01 = dict(title=f"MMST.step_bounds@{cfg}", args=(state, a), requires=req01, ensures=ens01, props=("C01",), workers=3,
                  targets=[type(env).step, type(env)._state_to_observation],
                  note=f"time_limit = {Tc} (the configuration's), bounds read from env.observation_spec")

    # update_active_edges alone: every entry stays in range (entries are kept or masked with -1)
    def req_edges(edges, pos, types):
        N = env.num_nodes
        return {"in_range": (edges >= -1) & (edges < N), "positions": (pos >= 0) & (pos < N)}

    def ens_edges(edges, pos, types):
        from jumanji.environments.routing.mmst.utils import update_active_edges
        new = update_active_edges(env.num_agents, edges, pos, types)
        # one obligation per table row (36 entries) -- 3 x 36 rows
        return {"C01.update_active_edges_in_range": jnp.all((new >= -1) & (new < env.num_nodes), axis=-1),  # per row
                "canary.update_active_edges_is_identity": new[1, 0, 1] == edges[1, 0, 1]}

    from jumanji.environments.routing.mmst import utils as MU
    edgesp = dict(title=f"MMST.update_active_edges@{cfg}", args=(state.node_edges, state.positions, state.node_types), requires=req_edges,
                  ensures=ens_edges, props=("C01",), targets=[MU.update_active_edges], note="function-level contract (Inv preservation of the edge tables)")

    # reset: the split-graph generator (nested loops) is a contract boundary
    def gen_post(g, key):
        i0 = inv(env, g, jnp.int32(1))  # (the edge-table conjuncts of Inv are not needed by the reset clauses)
        return {**{k: i0[k] for k in ("node_types_in_range", "adjacency_is_0_1", "positions_are_nodes")}, "step_count_zero": g.step_count == 0}

    def reset_ens(g, key):
        s, ts = K.reset_from(env, "_generator", g, key)
        o = ts.observation
        out = {"C11.reset_step_count_zero": s.step_count == 0,
               "C11.reset_is_first": ts.step_type == K.FIRST,
               "canary.reset_agent0_at_node0": s.positions[0] == 0}
        out.update(obs_clauses(env, s, o, "C12.reset_obs."))
        out.update(bounds(env, o, "C01.reset_obs_bounds"))
        return out

    reset = dict(title=f"MMST.reset@{cfg}", args=(state, jnp.zeros((2,), jnp.uint32)), requires=gen_post, ensures=reset_ens, workers=3,
                 targets=[type(env).reset], note="generator replaced by its post-condition (contract boundary; the generator's own contract is C10)")
    return [step, obsp, step01, edgesp, reset]
