"""Sidecar contract for jumanji.environments.routing.lbf.env:LevelBasedForaging.

Rules, written from the class/observer/utility docstrings (the oracle is the documented game):
* actions per agent: 0 no-op, 1 up (-1,0), 2 down (+1,0), 3 left (0,-1), 4 right (0,+1), 5 load;
* a move is legal iff the target cell is inside the grid, holds no other agent and no uneaten food; no-op is always
  legal; load is legal iff some uneaten food is adjacent (Manhattan distance 1);
* an illegal move is ignored; "if a number N of agents end up in the same position after the move, the initial position
  of the agents is retained"; the loading flag is `action == LOAD`;
* a food is eaten when the levels of the adjacent loading agents add up to at least its level;
* the episode terminates when all food is eaten (discount 0) and is truncated at the time limit (discount 1);
* VectorObserver: per agent (food_0 .. food_{F-1}, self, other agents in index order), each as (x, y, level) relative to
  the top-left corner of the agent's field of view clipped to the grid, (-1,-1,0) when outside the fov / eaten;
* GridObserver: per agent three (2 fov + 1)^2 layers centred on the agent: agent levels, uneaten-food levels, accessibility
  (1 iff the cell is inside the grid and empty).
"""
import jax
import jax.numpy as jnp

from contracts import common as K
from contracts import envs as E

ENV = "LevelBasedForaging"
MOVES = ((0, 0), (-1, 0), (1, 0), (0, -1), (0, 1), (0, 0))
NOOP, LOAD = 0, 5


# ---- rule predicates (explicit loops, index based) ---------------------------------------------------------------------
def apos(s, i):
    return s.agents.position[i, 0], s.agents.position[i, 1]


def fpos(s, f):
    return s.food_items.position[f, 0], s.food_items.position[f, 1]


def inside(env, r, c):
    G = env.grid_size
    return (r >= 0) & (r < G) & (c >= 0) & (c < G)


def cell_free_for(env, s, i, r, c):
    """cell (r, c) is inside the grid, holds no agent other than i and no uneaten food"""
    other = jnp.asarray(False)
    for j in range(env.num_agents):
        if j != i:
            pr, pc = apos(s, j)
            other = other | ((pr == r) & (pc == c))
    food = jnp.asarray(False)
    for f in range(env.num_food):
        fr, fc = fpos(s, f)
        food = food | ((fr == r) & (fc == c) & ~s.food_items.eaten[f])
    return inside(env, r, c) & ~other & ~food


def adjacent(r1, c1, r2, c2):
    return jnp.abs(r1 - r2) + jnp.abs(c1 - c2) == 1


def food_adjacent(env, s, i):
    r, c = apos(s, i)
    adj = jnp.asarray(False)
    for f in range(env.num_food):
        fr, fc = fpos(s, f)
        adj = adj | (adjacent(r, c, fr, fc) & ~s.food_items.eaten[f])
    return adj


def legal(env, s):
    """bool[num_agents, 6]"""
    rows = []
    for i in range(env.num_agents):
        r, c = apos(s, i)
        row = [jnp.asarray(True)]
        for a in (1, 2, 3, 4):
            row.append(cell_free_for(env, s, i, r + MOVES[a][0], c + MOVES[a][1]))
        row.append(food_adjacent(env, s, i))
        rows.append(jnp.stack(row))
    return jnp.stack(rows)


# ---- invariant ---------------------------------------------------------------------------------------------------------
def phys(env, s):
    """occupancy: entities inside the grid, pairwise distinct cells (eaten food no longer occupies its cell)"""
    A, F = env.num_agents, env.num_food
    out = {}
    out["agents_inside"] = jnp.stack([inside(env, *apos(s, i)) for i in range(A)])
    out["food_inside"] = jnp.stack([inside(env, *fpos(s, f)) for f in range(F)])
    aa = [(apos(s, i)[0] != apos(s, j)[0]) | (apos(s, i)[1] != apos(s, j)[1]) for i in range(A) for j in range(i + 1, A)]
    if aa:
        out["agents_on_distinct_cells"] = jnp.stack(aa)
    out["agent_not_on_uneaten_food"] = jnp.stack([s.food_items.eaten[f] | (apos(s, i)[0] != fpos(s, f)[0]) | (apos(s, i)[1] != fpos(s, f)[1])
                                                  for i in range(A) for f in range(F)])
    ff = [(fpos(s, f)[0] != fpos(s, g)[0]) | (fpos(s, f)[1] != fpos(s, g)[1]) for f in range(F) for g in range(f + 1, F)]
    if ff:
        out["food_on_distinct_cells"] = jnp.stack(ff)
    return out


def tables(env, s):
    gen = env._generator
    return {
        "agent_ids_are_indices": s.agents.id == jnp.arange(env.num_agents),
        "food_ids_are_indices": s.food_items.id == jnp.arange(env.num_food),
        "agent_levels_in_range": (s.agents.level >= 1) & (s.agents.level <= gen.max_agent_level),
        "food_levels_in_range": (s.food_items.level >= 1) & (s.food_items.level <= env.num_agents * gen.max_agent_level),
    }


def inv(env, s, T):
    return {**phys(env, s), **tables(env, s), "counter": (s.step_count >= 0) & (s.step_count < T)}


# ---- spec functions (C09 / C12) ----------------------------------------------------------------------------------------
def spec_positions(env, s, a):
    """rules of movement: individually invalid moves are ignored; agents whose destinations coincide all stay"""
    A = env.num_agents
    mv = jnp.asarray(MOVES)
    dest = []
    for i in range(A):
        r, c = apos(s, i)
        tr, tc = r + mv[a[i], 0], c + mv[a[i], 1]
        moving = (a[i] >= 1) & (a[i] <= 4)
        ok = moving & cell_free_for(env, s, i, tr, tc)
        dest.append((jnp.where(ok, tr, r), jnp.where(ok, tc, c)))
    new = []
    for i in range(A):
        clash = jnp.asarray(False)
        for j in range(A):
            if j != i:
                clash = clash | ((dest[j][0] == dest[i][0]) & (dest[j][1] == dest[i][1]))
        r, c = apos(s, i)
        new.append(jnp.stack([jnp.where(clash, r, dest[i][0]), jnp.where(clash, c, dest[i][1])]))
    return jnp.stack(new)


def spec_eaten(env, agents_position, agents_level, loading, food, skip=None):
    """(eaten', eaten_this_step): a food is eaten when the adjacent loading agents' levels add up to its level"""
    e2, now = [], []
    for f in range(env.num_food):
        tot = jnp.int32(0)
        for i in range(env.num_agents):
            if i == skip:
                continue
            adj = adjacent(agents_position[i, 0], agents_position[i, 1], food.position[f, 0], food.position[f, 1])
            tot = tot + jnp.where(adj & loading[i] & ~food.eaten[f], agents_level[i], 0)
        n = tot >= food.level[f]
        now.append(n)
        e2.append(n | food.eaten[f])
    return jnp.stack(e2), jnp.stack(now)


def spec_reward_raw(env, agents_position, agents_level, loading, food):
    """un-normalised reward (normalize_reward=False): an agent that loads a food eaten at this step receives
    `agent level * food level`; every agent pays `penalty` for each food that is loaded by agents whose levels do not suffice"""
    rs = []
    for i in range(env.num_agents):
        r = jnp.float32(0)
        for f in range(env.num_food):
            tot = jnp.int32(0)
            mine = jnp.asarray(False)
            for j in range(env.num_agents):
                adj = adjacent(agents_position[j, 0], agents_position[j, 1], food.position[f, 0], food.position[f, 1]) & loading[j] & ~food.eaten[f]
                tot = tot + jnp.where(adj, agents_level[j], 0)
                if j == i:
                    mine = adj
            r = r + jnp.where(mine & (tot >= food.level[f]), (agents_level[i] * food.level[f]).astype(jnp.float32), 0.0)
            r = r - jnp.where((tot != 0) & (tot < food.level[f]), jnp.float32(env.penalty), 0.0)
        rs.append(r)
    return jnp.stack(rs)


def spec_vector_view(env, s):
    A, F, fov = env.num_agents, env.num_food, env.fov
    rows = []
    for i in range(A):
        r, c = apos(s, i)
        r0, c0 = jnp.maximum(r - fov, 0), jnp.maximum(c - fov, 0)  # top-left corner of the fov window clipped to the grid

        def triple(pr, pc, lvl, seen):
            return [jnp.where(seen, pr - r0, -1), jnp.where(seen, pc - c0, -1), jnp.where(seen, lvl, 0)]

        row = []
        for f in range(F):
            fr, fc = fpos(s, f)
            seen = (jnp.abs(fr - r) <= fov) & (jnp.abs(fc - c) <= fov) & ~s.food_items.eaten[f]
            row += triple(fr, fc, s.food_items.level[f], seen)
        row += triple(r, c, s.agents.level[i], jnp.asarray(True))
        for j in range(A):
            if j != i:
                pr, pc = apos(s, j)
                seen = (jnp.abs(pr - r) <= fov) & (jnp.abs(pc - c) <= fov)
                row += triple(pr, pc, s.agents.level[j], seen)
        rows.append(jnp.stack(row))
    return jnp.stack(rows)


def spec_grid_view(env, s):
    A, F, fov = env.num_agents, env.num_food, env.fov
    W = 2 * fov + 1
    views = []
    for i in range(A):
        r, c = apos(s, i)
        layers = [[], [], []]
        for dr in range(W):
            for dc in range(W):
                cr, cc = r - fov + dr, c - fov + dc  # the window is centred on the agent
                al = jnp.int32(0)
                for j in range(A):
                    pr, pc = apos(s, j)
                    al = al + jnp.where((pr == cr) & (pc == cc), s.agents.level[j], 0)
                fl = jnp.int32(0)
                for f in range(F):
                    fr, fc = fpos(s, f)
                    fl = fl + jnp.where((fr == cr) & (fc == cc) & ~s.food_items.eaten[f], s.food_items.level[f], 0)
                layers[0].append(al)
                layers[1].append(fl)
                layers[2].append((inside(env, cr, cc) & (al == 0) & (fl == 0)).astype(jnp.int32))
        views.append(jnp.stack([jnp.stack(l).reshape(W, W) for l in layers]))
    return jnp.stack(views)


def is_grid(env):
    return type(env._observer).__name__ == "GridObserver"


def spec_view(env, s):
    return spec_grid_view(env, s) if is_grid(env) else spec_vector_view(env, s)


def configs(tier):
    """quick: the two configurations of contracts/envs.py (vector observer fov 2; grid observer fov 6 = whole grid visible,
    13x13 windows) plus a grid observer with a proper window (fov 2, 5x5 windows clipped by the border) and a
    vector-observer configuration with the un-normalised reward and a non-zero penalty (for `C09.reward`).  For the 13x13
    windows the per-cell view clauses (2 x 3 x 169 cells, ~0.1-0.3 s each) run in the thorough tier only."""
    from jumanji.environments import LevelBasedForaging
    from jumanji.environments.routing.lbf.generator import RandomGenerator as LGen

    out = dict(E.configs(ENV, tier))
    out["g6a2f2grid2"] = lambda: LevelBasedForaging(LGen(6, 2, 2, 2), time_limit=7, grid_observation=True)
    out["g6a2f2raw"] = lambda: LevelBasedForaging(LGen(6, 2, 2, 2), time_limit=7, normalize_reward=False, penalty=0.5)
    if tier != "quick":
        out["g7a3f2v"] = lambda: LevelBasedForaging(LGen(7, 3, 2, 2), time_limit=7)
    return out


# ---- problems ----------------------------------------------------------------------------------------------------------
def problems(env, cfg, tier):
    from jumanji.environments.routing.lbf import utils as U

    state, ts, a = E.example(env)
    T0 = jnp.int32(env.time_limit)
    A, F = env.num_agents, env.num_food
    mv = jnp.asarray(MOVES)
    big_view = is_grid(env) and env.fov > 2
    pool = 3 if is_grid(env) else 1

    def views(out):
        """13x13 windows: the per-cell view clauses are thorough-tier only (see `configs`)"""
        if big_view and tier == "quick":
            return {k: v for k, v in out.items() if not k.endswith("agents_view")}
        return out

    def observer_view(s):
        return env._observer.make_agents_view(s) if is_grid(env) else jax.vmap(env._observer.make_agents_view, (0, None))(s.agents, s)

    def req(T, s, a):
        return {**inv(env, s, T), "in_spec": E.in_spec(env, a), "T_positive": T >= 1}

    def ens(T, s, a):
        with K.with_attr(env, "time_limit", T):
            s2, ts = env.step(s, a)
        last = ts.step_type == K.LAST
        o = ts.observation
        L = legal(env, s)
        all_eaten = jnp.all(s2.food_items.eaten)
        p1, p2 = s.agents.position, s2.agents.position
        sp = spec_positions(env, s, a)
        se, _ = spec_eaten(env, sp, s.agents.level, a == LOAD, s.food_items)
        out = {
            # C04: the mask handed out is the rule evaluated on the new state, for every agent and every action
            "C04.mask_is_exactly_the_legal_moves": o.action_mask == legal(env, s2),
            # C09: field by field
            "C09.agent_positions": p2 == sp,
            "C09.agent_loading": s2.agents.loading == (a == LOAD),
            "C09.agent_frame": (s2.agents.id == s.agents.id) & (s2.agents.level == s.agents.level),
            "C09.food_eaten": s2.food_items.eaten == se,
            "C09.food_frame": (s2.food_items.id == s.food_items.id) & (s2.food_items.level == s.food_items.level)
                              & jnp.all(s2.food_items.position == s.food_items.position, axis=-1),
            "C09.last": last == (all_eaten | (s.step_count + 1 >= T)),
            "C09.key_frame": (s2.key == s.key).all(),
            # C11
            "C11.counting": s2.step_count == s.step_count + 1,
            "C11.never_later": (s.step_count + 1 < T) | last,
            "C11.never_earlier": ~last | (s.step_count + 1 >= T) | all_eaten,
            "C11.all_eaten_ends_the_episode": ~all_eaten | last,
            "C11.truncation_keeps_discount_one": ~(last & ~all_eaten) | (ts.discount == 1.0),
            "C11.termination_has_discount_zero": ~all_eaten | (ts.discount == 0.0),
            "C11.mid_discount_one": last | (ts.discount == 1.0),
            "C11.inv_counter": last | ((s2.step_count >= 0) & (s2.step_count < T)),
            # C12
            "C12.obs.agents_view": o.agents_view == spec_view(env, s2),
            "C12.obs.step_count": o.step_count == s2.step_count,
            "C12.obs.action_mask_is_mask_fn_of_new_state": o.action_mask == jax.vmap(U.compute_action_mask, (0, None, None))(s2.agents, s2, env.grid_size),
            "canary.agent0_never_moves": p2[0, 0] == p1[0, 0],
        }
        if not env.normalize_reward:
            # the normalised reward divides by (sum of loaders' levels) * (total food level) under `nan_to_num`: 0/0 is outside
            # the engine's real arithmetic, so the reward clause is stated for the un-normalised configuration only
            out["C09.reward"] = ts.reward == spec_reward_raw(env, sp, s.agents.level, a == LOAD, s.food_items)
        # C04 own reaction / C05 ignore-invalid, per agent
        c04_exec, c05_stay, c05_load, c05_coll, c05_noop_like = [], [], [], [], []
        for i in range(A):
            ai = a[i]
            moving = (ai >= 1) & (ai <= 4)
            tr, tc = p1[i, 0] + mv[ai, 0], p1[i, 1] + mv[ai, 1]
            same_dest = jnp.asarray(False)
            for j in range(A):
                if j != i:
                    mj = (a[j] >= 1) & (a[j] <= 4) & L[j, a[j]]
                    same_dest = same_dest | (mj & (p1[j, 0] + mv[a[j], 0] == tr) & (p1[j, 1] + mv[a[j], 1] == tc))
            stay = (p2[i, 0] == p1[i, 0]) & (p2[i, 1] == p1[i, 1])
            # a legal move is executed unless another agent legally moves to the same cell (documented collision rule)
            c04_exec.append(~(moving & L[i, ai]) | same_dest | ((p2[i, 0] == tr) & (p2[i, 1] == tc)))
            c05_stay.append(~(moving & ~L[i, ai]) | stay)
            c05_coll.append(~(moving & L[i, ai] & same_dest) | stay)
            # an illegal LOAD eats nothing: the food table is what the other agents alone produce
            e_wo, _ = spec_eaten(env, sp, s.agents.level, a == LOAD, s.food_items, skip=i)
            c05_load.append(~((ai == LOAD) & ~L[i, LOAD]) | jnp.all(s2.food_items.eaten == e_wo))
            # an illegal action leaves the acting agent's holdings (level, id) untouched and never ends the episode by itself
            c05_noop_like.append(L[i, ai] | ((s2.agents.level[i] == s.agents.level[i]) & (s2.agents.id[i] == s.agents.id[i]) & stay))
        out["C04.legal_move_is_executed_unless_collision"] = jnp.stack(c04_exec)
        out["C05.illegal_move_is_ignored"] = jnp.stack(c05_stay)
        out["C05.agents_moving_to_one_cell_all_stay"] = jnp.stack(c05_coll)
        out["C05.illegal_load_eats_nothing"] = jnp.stack(c05_load)
        out["C05.illegal_action_frame"] = jnp.stack(c05_noop_like)
        out["C05.episode_continues_as_for_noop"] = last == (all_eaten | (s.step_count + 1 >= T))
        out["C05.step_count_plus_one"] = s2.step_count == s.step_count + 1
        out["C05.food_never_moves"] = jnp.all(s2.food_items.position == s.food_items.position)
        # C07: occupancy for ANY joint action -- it does not depend on the step being LAST, so it is stated unguarded
        for k, v in phys(env, s2).items():
            out["C07." + k] = v
        for k, v in tables(env, s2).items():
            out["C07." + k] = v
        out["C07.food_only_disappears"] = s2.food_items.eaten | ~s.food_items.eaten
        # the view handed out is the observer's function of the NEW state (with `C12.observer.*` on any state satisfying Inv and
        # `C07.*` = Inv of the new state this gives `C12.obs.agents_view`; it is the only step-level view clause in the quick
        # tier for 13x13 windows)
        out["C12.obs.view_is_observer_of_new_state"] = o.agents_view == observer_view(s2)
        return views(out)

    targets = [type(env).step, U.update_agent_positions, U.simulate_agent_movement, U.fix_collisions, U.flag_duplicates, U.eat_food,
               U.compute_action_mask, type(env._observer).state_to_observation, type(env._observer).make_agents_view]
    step = dict(title=f"LevelBasedForaging.step@{cfg}", args=(T0, state, a), requires=req, ensures=ens, targets=targets,
                props=("C04", "C05", "C07", "C09", "C11", "C12"), workers=pool, note="time_limit is a symbolic scalar T >= 1")

    # ---- function level: mask function == rule, observer == spec, movement / eating utilities == spec (any state with Inv)
    def req_s(s, a):
        return {**inv(env, s, jnp.int32(2 ** 30)), "in_spec": E.in_spec(env, a)}

    def ens_fn(s, a):
        mask = jax.vmap(U.compute_action_mask, (0, None, None))(s.agents, s, env.grid_size)
        o = env._observer.state_to_observation(s)
        moved = U.update_agent_positions(s.agents, a, s.food_items, env.grid_size)
        food2, now, adj = jax.vmap(U.eat_food, (None, 0))(moved, s.food_items)
        se, snow = spec_eaten(env, moved.position, moved.level, moved.loading, s.food_items)
        return views({
            "C04.compute_action_mask_is_the_rule": mask == legal(env, s),
            "C04.observer_mask_is_compute_action_mask": o.action_mask == mask,
            "C09.update_agent_positions.position": moved.position == spec_positions(env, s, a),
            "C09.update_agent_positions.loading": moved.loading == (a == LOAD),
            "C09.update_agent_positions.frame": (moved.id == s.agents.id) & (moved.level == s.agents.level),
            "C09.eat_food.eaten": food2.eaten == se,
            "C09.eat_food.eaten_this_step": now == snow,
            "C09.eat_food.frame": (food2.id == s.food_items.id) & (food2.level == s.food_items.level)
                                  & jnp.all(food2.position == s.food_items.position, axis=-1),
            "C12.observer.agents_view": o.agents_view == spec_view(env, s),
            "C12.observer.step_count": o.step_count == s.step_count,
            "C12.observer.action_mask": o.action_mask == legal(env, s),
            "canary.noop_is_masked_out": ~mask[0, 0],
        })

    fn = dict(title=f"LevelBasedForaging.functions@{cfg}", args=(state, a), requires=req_s, ensures=ens_fn, props=("C04", "C09", "C12"), workers=pool,
              targets=[U.compute_action_mask, U.update_agent_positions, U.eat_food, type(env._observer).state_to_observation,
                       type(env._observer).make_agents_view],
              note="function-level contracts on any state satisfying Inv")

    # ---- C01 bounds (concrete time limit of the configuration: the spec's step_count maximum is the constructor's time_limit)
    Tc = int(env.time_limit)

    def req01(s, a):
        return {**inv(env, s, Tc), "in_spec": E.in_spec(env, a)}

    def ens01(s, a):
        s2, ts = env.step(s, a)
        out = {"canary.agent0_never_moves": s2.agents.position[0, 0] == s.agents.position[0, 0]}
        out.update(K.spec_bounds(env.observation_spec, ts.observation, "C01.step_obs_bounds"))
        out["C01.discount_bounds"] = (ts.discount >= 0.0) & (ts.discount <= 1.0)
        return views(out)

    step01 = dict(title=f"LevelBasedForaging.step_bounds@{cfg}", args=(state, a), requires=req01, ensures=ens01, props=("C01",), workers=pool,
                  targets=[type(env).step, type(env._observer).state_to_observation],
                  note=f"time_limit = {Tc} (the configuration's), bounds read from env.observation_spec")

    # ---- reset, generator as a contract boundary (its post-condition is C10's obligation)
    def gen_post(g, key):
        return {**phys(env, g), **tables(env, g), "step_count_zero": g.step_count == 0, "nothing_eaten": ~g.food_items.eaten,
                "nobody_loading": ~g.agents.loading}

    def reset_ens(g, key):
        s, ts = K.reset_from(env, "_generator", g, key)
        o = ts.observation
        out = {"C04.reset_mask_is_exactly_the_legal_moves": o.action_mask == legal(env, s),
               "C11.reset_step_count_zero": s.step_count == 0,
               "C11.reset_is_first": ts.step_type == K.FIRST,
               "C12.reset_obs.agents_view": o.agents_view == spec_view(env, s),
               "C12.reset_obs.step_count": o.step_count == s.step_count,
               "C12.reset_obs.action_mask": o.action_mask == legal(env, s),
               "canary.reset_agent0_in_corner": s.agents.position[0, 0] == 0}
        for k, v in inv(env, s, jnp.int32(1)).items():
            out["C07.reset_" + k] = v
        out.update(K.spec_bounds(env.observation_spec, o, "C01.reset_obs_bounds"))
        return views(out)

    reset = dict(title=f"LevelBasedForaging.reset@{cfg}", args=(state, jnp.zeros((2,), jnp.uint32)), requires=gen_post, ensures=reset_ens, workers=pool,
                 targets=[type(env).reset, type(env._observer).state_to_observation],
                 note="generator replaced by its post-condition (contract boundary; the generator's own contract is C10)")
    return [step, fn, step01, reset]
