"""Sidecar contract for jumanji.environments.routing.mmst.env:MMST -- C04 (the action mask is exactly the set of legal moves, per agent) and
C06 (routes never share a utility node; completion => every agent has connected all of its nodes), on small instances built with the public
constructor (the default 36-node graph is too big for the per-entry edge-table clauses).

Documented rules used (docs/environments/mmst.md, class docstring of `MMST`, `Observation` docstring, `make_action_mask` docstring):
* "During every step, an agent picks the next node it wants to move to.  An action is invalid if the agent picks a node it has no edge to or
  the node is a utility node already been used by another agent."  (utility node = node that belongs to no group, type -1)
* action_mask: "Given the current node on which the agent is located, this mask determines if there is a valid edge to every other node";
  `make_action_mask`: "finished_agents: used to mask finished agents" (a finished agent has no legal move; the step ignores its action).
* "-2 indicates do not move because of tie break": when several agents pick the same node in the same step one of them (random order) moves.
* "connect all nodes of the same type together without using the same utility nodes"; "An episode ends when all group of nodes are connected
  or the maximum number of steps is reached."
The documentation does NOT forbid an agent to step on a node of another agent's group (only utility nodes are exclusive) and the code allows it.

Raw-array vocabulary: the ROUTE of agent k is `V[k, n] := connected_nodes_index[k, n] != -1` (the nodes it has stepped on, start included);
`node_edges[k]` (the per-agent edge tables the implementation masks) is a cache that the invariant ties to `adj_matrix`, `node_types` and `V`.
Route connectivity is the induction `head on its route` + `a move follows an edge of the graph` + `the route grows by the entered node only`.

Defect candidates of the pinned tree that these clauses report (natively confirmed on states reached by playing from `reset`; clauses kept):
* `MMST.step` builds the mask of the new state with the OLD `finished_agents` ("Not updated yet"): on the step on which an agent connects its last
  node (episode continuing) the mask handed out / cached still offers that agent its neighbours although the next step ignores whatever it plays
  (`C04.mask_handed_out_is_the_mask_function_of_the_new_state`, `C04.mask_is_exactly_the_legal_moves`; the variant
  `...agents_that_did_not_finish_on_this_step` discharges: the stale flag is the only cause).
* `_trim_duplicated_invalid_actions` lets a FINISHED agent take part in the random tie break before its action is discarded: an unfinished agent
  that plays a masked-in node also named by a finished agent loses the tie break (reward 0, no move) and nobody enters the node
  (`C04.legal_move_not_treated_as_invalid`, with >= 3 agents also `C04.a_contested_node_is_entered_by_one_of_the_contenders`; the variants
  `...unless_a_finished_agent_names_the_same_node` discharge)."""
import jax.numpy as jnp

from contracts import common as K
from contracts import envs as E

ENV = "MMST"
PROPS = ("C04", "C06")
UTILITY = -1


def configs(tier):
    from jumanji.environments import MMST
    from jumanji.environments.routing.mmst.generator import SplitRandomGenerator as G
    # independent sizes DISTINCT: nodes / agents / nodes per agent / route buffer (max_step) / time limit
    out = {"n12a2-c04": lambda: MMST(generator=G(num_nodes=12, num_edges=18, max_degree=4, num_agents=2, num_nodes_per_agent=3, max_step=9), time_limit=7),
           "n9a3-c04": lambda: MMST(generator=G(num_nodes=9, num_edges=12, max_degree=3, num_agents=3, num_nodes_per_agent=2, max_step=8), time_limit=6)}
    if tier != "quick":
        out["n10a3-c04"] = lambda: MMST(generator=G(num_nodes=10, num_edges=14, max_degree=3, num_agents=3, num_nodes_per_agent=2, max_step=8), time_limit=6)
    return out


# ---------------------------------------------------------------------------------------------------------------- rules, from raw arrays
def route(s):
    """(A, N) bool: node n is on the route of agent k"""
    return s.connected_nodes_index != -1


def taken_by_other(env, s):
    """(A, N) bool: n is a utility node on the route of an agent other than k"""
    A = env.num_agents
    V, util = route(s), s.node_types == UTILITY
    return jnp.stack([util & jnp.any(jnp.stack([V[q] for q in range(A) if q != k]), axis=0) for k in range(A)])


def row_of(mat, i):
    """row `i` of an (N, N) matrix by explicit case analysis (no gather)"""
    N = mat.shape[0]
    return jnp.sum(jnp.where((jnp.arange(N) == i)[:, None], mat, 0), axis=0)


def at_(vec, i):
    """vec[i] by explicit case analysis"""
    hit = jnp.arange(vec.shape[0]) == i
    return jnp.any(hit & vec) if vec.dtype == bool else jnp.sum(jnp.where(hit, vec, 0))


def legal(env, s):
    """(A, N) bool, the documented rule: an edge from the agent's node, not a utility node used by another agent, agent not finished"""
    tb = taken_by_other(env, s)
    return jnp.stack([~s.finished_agents[k] & (row_of(s.adj_matrix, s.positions[k]) == 1) & ~tb[k] for k in range(env.num_agents)])


def edge_tables(env, s):
    """what `node_edges` caches: A_ij = j for an edge whose head is not a utility node used by another agent, -1 otherwise"""
    N = env.num_nodes
    tb = taken_by_other(env, s)
    return jnp.stack([jnp.where((s.adj_matrix == 1) & ~tb[k][None, :], jnp.arange(N)[None, :], -1) for k in range(env.num_agents)])


def recomputed_finished(env, s):
    """every node the agent has to connect occurs in its recorded path"""
    return jnp.stack([jnp.all(jnp.stack([jnp.any(s.connected_nodes[k] == s.nodes_to_connect[k, i]) for i in range(env.num_nodes_per_agent)]))
                      for k in range(env.num_agents)])


def inv(env, s, T):
    A, N = env.num_agents, env.num_nodes
    V = route(s)
    cn = s.connected_nodes
    cn_on_route = jnp.stack([jnp.stack([(cn[k, t] == -1) | jnp.any((jnp.arange(N) == cn[k, t]) & V[k]) for t in range(cn.shape[1])]) for k in range(A)])
    pairs = [(i, j) for i in range(A) for j in range(i + 1, A)]
    ntc = s.nodes_to_connect
    return {
        "node_types_in_range": (s.node_types >= -1) & (s.node_types <= A - 1),
        "adjacency_is_0_1": (s.adj_matrix == 0) | (s.adj_matrix == 1),
        "positions_are_nodes": (s.positions >= 0) & (s.positions < N),
        "edge_tables_cache_the_graph_minus_taken_utility_nodes": jnp.all(s.node_edges == edge_tables(env, s), axis=-1),
        "head_on_its_route": jnp.stack([at_(V[k], s.positions[k]) for k in range(A)]),
        "route_table_entries": (s.connected_nodes_index == -1) | (s.connected_nodes_index == jnp.arange(N)[None, :]),
        "no_utility_node_on_two_routes": jnp.stack([~((s.node_types == UTILITY) & V[i] & V[j]) for i, j in pairs]),
        "recorded_path_is_on_the_route": cn_on_route,
        "recorded_path_is_empty_beyond_its_index": (jnp.arange(cn.shape[1])[None, :] <= s.position_index[:, None]) | (cn == -1),
        "nodes_to_connect_are_nodes": (ntc >= 0) & (ntc < N),
        "nodes_to_connect_have_the_agents_type": jnp.stack([jnp.stack([at_(s.node_types, ntc[k, i]) == k for i in range(ntc.shape[1])]) for k in range(A)]),
        "every_node_of_the_agents_type_is_to_connect": jnp.stack([(s.node_types != k) | jnp.any(ntc[k][:, None] == jnp.arange(N)[None, :], axis=0)
                                                                  for k in range(A)]),
        "finished_flags_are_recomputable": s.finished_agents == recomputed_finished(env, s),
        "path_index": (s.position_index >= 0) & (s.position_index <= s.step_count),
        "counter": (s.step_count >= 0) & (s.step_count < T),
    }


MASK_INV = ("node_types_in_range", "adjacency_is_0_1", "positions_are_nodes", "edge_tables_cache_the_graph_minus_taken_utility_nodes")
FIN_INV = ("node_types_in_range", "route_table_entries", "recorded_path_is_on_the_route", "nodes_to_connect_are_nodes",
           "every_node_of_the_agents_type_is_to_connect")


def problems(env, cfg, tier):
    from jumanji.environments.routing.mmst import utils as MU

    state, ts, a0 = E.example(env)
    T0 = jnp.int32(env.time_limit)
    A, N = env.num_agents, env.num_nodes
    mask_fn = lambda s: MU.make_action_mask(A, N, s.node_edges, s.positions, s.finished_agents)

    def req(T, s, a):
        return {**inv(env, s, T), "in_spec": E.in_spec(env, a), "T_positive": T >= 1}

    def ens(T, s, a):
        with K.with_attr(env, "time_limit", T):
            s2, ts = env.step(s, a)
        o = ts.observation
        last = ts.step_type == K.LAST
        pos, pos2 = s.positions, s2.positions
        V, V2 = route(s), route(s2)
        ok = legal(env, s)
        chosen_ok = jnp.stack([at_(ok[k], a[k]) for k in range(A)])                    # the agent's own choice is legal
        contested = jnp.stack([jnp.any(jnp.stack([(a[q] == a[k]) & chosen_ok[q] for q in range(A) if q != k])) for k in range(A)])
        moved = pos2 != pos
        # a FINISHED agent (whose action the step ignores) naming the same node, reachable from its node in its own edge table
        would_be_ok = legal(env, s.replace(finished_agents=jnp.zeros_like(s.finished_agents)))
        shadowed = jnp.stack([jnp.any(jnp.stack([(a[q] == a[k]) & s.finished_agents[q] & at_(would_be_ok[q], a[q]) for q in range(A) if q != k]))
                              for k in range(A)])
        entered_by_a_contender = jnp.stack([jnp.any(jnp.stack([(a[q] == a[k]) & chosen_ok[q] & (pos2[q] == a[q]) for q in range(A)])) for k in range(A)])
        rule2 = legal(env, s2)
        just_finished = s2.finished_agents & ~s.finished_agents
        out = {
            # ---- C04: the mask handed out / cached (clause `mask function == rule` is the problem `MMST.make_action_mask`)
            "C04.mask_handed_out_is_the_mask_function_of_the_new_state": last | (o.action_mask == mask_fn(s2)),
            "C04.mask_is_exactly_the_legal_moves": last | (o.action_mask == rule2),
            "C04.mask_is_exactly_the_legal_moves.agents_that_did_not_finish_on_this_step": last | just_finished[:, None] | (o.action_mask == rule2),
            "C04.cached_mask_is_the_mask": jnp.all(s2.action_mask == o.action_mask, axis=-1),
            # the environment's own reaction: a legal choice is executed unless another agent legally picked the same node (documented random
            # tie break: then one of the contenders moves); an illegal choice is not executed
            "C04.legal_move_not_treated_as_invalid": ~chosen_ok | contested | (pos2 == a),
            "C04.legal_move_not_treated_as_invalid.unless_a_finished_agent_names_the_same_node": ~chosen_ok | contested | shadowed | (pos2 == a),
            "C04.a_contested_node_is_entered_by_one_of_the_contenders": ~(chosen_ok & contested) | entered_by_a_contender,
            "C04.a_contested_node_is_entered_by_one_of_the_contenders.unless_a_finished_agent_names_the_same_node":
                ~(chosen_ok & contested) | shadowed | entered_by_a_contender,
            "C04.illegal_move_is_not_executed": chosen_ok | ((pos2 == pos) & jnp.all(V2 == V, axis=-1)),
            # ---- C06: hard constraints, for ANY in-spec joint action (illegal choices are ignored by the environment)
            "C06.no_utility_node_on_two_routes": inv(env, s2, T)["no_utility_node_on_two_routes"],
            "C06.route_grows_by_the_entered_node_only": V2 == (V | (jnp.arange(N)[None, :] == pos2[:, None])),
            "C06.a_move_follows_an_edge_of_the_graph": ~moved | jnp.stack([at_(row_of(s.adj_matrix, pos[k]), pos2[k]) == 1 for k in range(A)]),
            "C06.an_entered_utility_node_was_on_no_other_route":
                ~moved | jnp.stack([~at_(taken_by_other(env, s)[k], pos2[k]) for k in range(A)]),
            "C06.graph_and_assignment_are_frozen": K.all_(s2.node_types == s.node_types, s2.adj_matrix == s.adj_matrix, s2.nodes_to_connect == s.nodes_to_connect),
            "C06.completion_flags_are_get_finished_agents_of_the_new_state": s2.finished_agents == env.get_finished_agents(s2),
            "C06.episode_ends_iff_all_agents_finished_or_horizon": last == (jnp.all(s2.finished_agents) | (s.step_count + 1 >= T)),
            "C06.completion_means_every_agent_connected_all_its_nodes":
                ~jnp.all(s2.finished_agents) | jnp.stack([(s2.node_types != k) | V2[k] for k in range(A)]),
            "canary.agent0_never_moves": pos2[0] == pos[0],
        }
        i2 = inv(env, s2, T)
        for k, v in i2.items():
            v = (last | v) if k == "counter" else v
            if k in MASK_INV + ("head_on_its_route", "route_table_entries"):
                out["C04.inv_" + k] = v
            out["C06.inv_" + k] = v
        return out

    tg = [type(env).step, type(env)._trim_duplicated_invalid_actions, type(env)._update_conected_nodes, type(env)._state_to_timestep,
          type(env).get_finished_agents, MU.update_active_edges, MU.make_action_mask]
    step = dict(title=f"MMST.step@{cfg}", args=(T0, state, a0), requires=req, ensures=ens, targets=tg, workers=4, while_bound=A + 1,
                note="time limit symbolic (every T >= 1); any in-spec joint action; jax.random.permutation (tie-break order) replaced by its contract")

    # ---- the mask function alone against the documented rule, on every state whose edge tables cache the graph
    def mask_req(s):
        i = inv(env, s, jnp.int32(2 ** 30))
        return {k: i[k] for k in MASK_INV}

    def mask_ens(s):
        m = mask_fn(s)
        return {"C04.mask_fn_is_the_rule": m == legal(env, s), "canary.mask_all_false": ~m[0, 1]}

    maskp = dict(title=f"MMST.make_action_mask@{cfg}", args=(state,), requires=mask_req, ensures=mask_ens, targets=[MU.make_action_mask], props=("C04",),
                 note="function-level: mask function == documented rule recomputed from adj_matrix / node_types / routes / finished flags")

    # ---- the completion flags alone: a finished agent has every node of its type on its route
    def fin_req(s):
        i = inv(env, s, jnp.int32(2 ** 30))
        return {k: i[k] for k in FIN_INV}

    def fin_ens(s):
        f = env.get_finished_agents(s)
        V = route(s)
        return {"C06.finished_means_every_node_of_the_agent_is_on_its_route": jnp.stack([~f[k] | (s.node_types != k) | V[k] for k in range(A)]),
                "C06.finished_is_every_node_to_connect_on_the_recorded_path": f == recomputed_finished(env, s),
                "canary.nobody_finished": ~f[0]}

    finp = dict(title=f"MMST.get_finished_agents@{cfg}", args=(state,), requires=fin_req, ensures=fin_ens, targets=[type(env).get_finished_agents],
                props=("C06",), note="function-level contract of the completion test")

    # ---- reset: the split-graph generator (nested data-dependent loops) is a contract boundary
    def gen_post(g, key):
        i = inv(env, g, jnp.int32(1))
        V = route(g)
        return {**i, "step_count_zero": g.step_count == 0, "nobody_finished": ~g.finished_agents,
                "cached_mask_is_the_mask_function": g.action_mask == mask_fn(g),
                "route_is_the_start_node": V == (jnp.arange(N)[None, :] == g.positions[:, None]),
                "agents_start_on_a_node_of_their_own": jnp.stack([at_(g.node_types, g.positions[k]) == k for k in range(A)])}

    def reset_ens(g, key):
        s, ts = K.reset_from(env, "_generator", g, key)
        o = ts.observation
        out = {"C04.reset_mask_is_exactly_the_legal_moves": o.action_mask == legal(env, s),
               "C04.reset_mask_is_the_mask_function_of_the_state": o.action_mask == mask_fn(s),
               "C06.reset_no_utility_node_on_any_route": jnp.stack([(s.node_types != UTILITY) | ~route(s)[k] for k in range(A)]),
               "C06.reset_state_is_the_generated_instance": K.tree_eq(
                   (s.node_types, s.adj_matrix, s.nodes_to_connect, s.connected_nodes, s.connected_nodes_index, s.node_edges, s.positions,
                    s.position_index, s.finished_agents, s.step_count),
                   (g.node_types, g.adj_matrix, g.nodes_to_connect, g.connected_nodes, g.connected_nodes_index, g.node_edges, g.positions,
                    g.position_index, g.finished_agents, g.step_count)),
               "canary.reset_agent0_at_node0": s.positions[0] == 0}
        for k, v in inv(env, s, jnp.int32(1)).items():
            if k in MASK_INV + ("head_on_its_route", "route_table_entries"):
                out["C04.reset_inv_" + k] = v
            out["C06.reset_inv_" + k] = v
        return out

    reset = dict(title=f"MMST.reset@{cfg}", args=(state, jnp.zeros((2,), jnp.uint32)), requires=gen_post, ensures=reset_ens, targets=[type(env).reset],
                 note="generator replaced by its post-condition (contract boundary; the generator's own contract is C10)")
    return [step, maskp, finp, reset]
