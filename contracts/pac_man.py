"""Sidecar contract for jumanji.environments.routing.pac_man.env:PacMan (default maze only; 31x28 grid: clauses are kept cheap).

Conventions read from the code: `Position.x` is the ROW (0..x_size-1 = 30), `Position.y` the COLUMN (0..y_size-1 = 27); `grid[x, y] == 1`
is a walkable cell, 0 a wall.  Rules from the docstrings: 5 actions; "if an invalid action is taken, i.e. there is a wall
blocking the action, then no action (no-op) is taken"; the maze has a tunnel: positions wrap around modulo the maze size
("teleporter"); the mask marks the moves that do not lead into a wall; the no-op is masked out by construction (judgement call
recorded in DESIGN section 6/C04); "episode termination: all pellets collected, killed by a ghost, timer has elapsed".
The ghost AI (sqrt / softmax / sampled direction) is outside these clauses (tier 2)."""
import jax.numpy as jnp

from contracts import common as K
from contracts import envs as E

ENV = "PacMan"
DELTA = ((-1, 0), (0, -1), (1, 0), (0, 1), (0, 0))  # (d row, d col) per action, read from the action list of `player_step`


def maze(env):
    return jnp.asarray(env.generator.numpy_maze)


def target(env, p, a):
    """cell reached by action `a` (static) from position p, through the tunnel (modulo the maze size)"""
    return (p.x + DELTA[a][0]) % env.x_size, (p.y + DELTA[a][1]) % env.y_size


def walkable(env, x, y):
    X, Y = env.x_size, env.y_size
    inside = (x >= 0) & (x < X) & (y >= 0) & (y < Y)
    return inside & (maze(env)[jnp.clip(x, 0, X - 1), jnp.clip(y, 0, Y - 1)] == 1)


def legal(env, s):
    p = s.player_locations
    return jnp.stack([walkable(env, *target(env, p, a)) for a in range(4)] + [jnp.asarray(False)])


def inv(env, s, T):
    p = s.player_locations
    return {
        "grid_is_the_maze": s.grid == maze(env),
        "player_on_walkable_cell": walkable(env, p.x, p.y),
        "ghosts_inside_grid": (s.ghost_locations[:, 0] >= 0) & (s.ghost_locations[:, 0] < env.y_size)
                              & (s.ghost_locations[:, 1] >= 0) & (s.ghost_locations[:, 1] < env.x_size),
        "ghost_homes_inside_grid": (jnp.asarray(s.initial_ghost_positions)[:, 0] >= 0) & (jnp.asarray(s.initial_ghost_positions)[:, 0] < env.y_size)
                                   & (jnp.asarray(s.initial_ghost_positions)[:, 1] >= 0) & (jnp.asarray(s.initial_ghost_positions)[:, 1] < env.x_size),
        "counter": (s.step_count >= 0) & (s.step_count < T),
    }


def copied(s):
    return (s.grid, s.player_locations.x, s.player_locations.y, s.ghost_locations, s.power_up_locations, s.frightened_state_time,
            s.pellet_locations, s.score)


def copied_obs(o):
    return (o.grid, o.player_locations.x, o.player_locations.y, o.ghost_locations, o.power_up_locations, o.frightened_state_time,
            o.pellet_locations, o.score)


FIELDS = ("grid", "player_locations.x", "player_locations.y", "ghost_locations", "power_up_locations", "frightened_state_time",
          "pellet_locations", "score")


def problems(env, cfg, tier):
    state, ts, a = E.example(env)
    state, _ = env.step(state, a)  # array-typed leaves (reset leaves Python scalars in `dead`, `player_locations`)
    T0 = jnp.int32(env.time_limit)

    def req(T, s, a):
        return {**inv(env, s, T), "in_spec": E.in_spec(env, a), "T_positive": T >= 1}

    def ens(T, s, a):
        with K.with_attr(env, "time_limit", T):
            s2, ts = env.step(s, a)
        last = ts.step_type == K.LAST
        o = ts.observation
        p, q = s.player_locations, s2.player_locations
        L = legal(env, s)
        ok = L[a]
        tx = jnp.stack([target(env, p, b)[0] for b in range(5)])[a]
        ty = jnp.stack([target(env, p, b)[1] for b in range(5)])[a]
        stay = (q.x == p.x) & (q.y == p.y)
        out = {
            "C04.mask_is_exactly_the_legal_moves": o.action_mask == legal(env, s2),
            "C04.legal_move_is_executed": ~ok | ((q.x == tx) & (q.y == ty)),
            "C05.illegal_move_is_ignored": ok | stay,
            "C05.illegal_move_frame": ok | ((s2.grid == s.grid).all() & (s2.step_count == s.step_count + 1)),
            "C07.player_on_walkable_cell": walkable(env, q.x, q.y),
            "C07.grid_is_the_maze": jnp.all(s2.grid == maze(env)),  # one obligation for the 868 cells (each is literally a conjunct of Inv)
            "C07.ghosts_inside_grid": inv(env, s2, T)["ghosts_inside_grid"],
            "C07.ghost_homes_inside_grid": inv(env, s2, T)["ghost_homes_inside_grid"],
            "C07.counter": last | ((s2.step_count >= 0) & (s2.step_count < T)),
            "C11.counting": s2.step_count == s.step_count + 1,
            "C11.never_later": (s.step_count + 1 < T) | last,
            "C11.step_type_is_mid_or_last": last | (ts.step_type == K.MID),
            "C11.inv_counter": last | ((s2.step_count >= 0) & (s2.step_count < T)),
            "canary.player_never_moves": q.x == p.x,
        }
        out.update(K.spec_bounds(env.observation_spec, o, "C01.step_obs_bounds"))
        return out

    step = dict(title=f"PacMan.step@{cfg}", args=(T0, state, a), requires=req, ensures=ens, props=("C01", "C04", "C05", "C07", "C11"),
                targets=[type(env).step, type(env)._update_state, type(env).check_wall_collisions, type(env)._compute_action_mask,
                         type(env)._observation_from_state],
                note="time_limit is a symbolic scalar T >= 1; the maze is the generator's constant maze (Inv: grid never changes)")

    # counting / copied fields need no invariant: also valid after LAST and for any grid content
    def req_weak(T, s, a):
        return {"in_spec": E.in_spec(env, a)}

    def ens_weak(T, s, a):
        with K.with_attr(env, "time_limit", T):
            s2, ts = env.step(s, a)
        o = ts.observation
        out = {"C11.counting_any_state": s2.step_count == s.step_count + 1,
               "C11.never_later_any_state": (s.step_count + 1 < T) | (ts.step_type == K.LAST),
               "canary.counter_never_reaches_T": s2.step_count < T}
        for nm, x, y in zip(FIELDS, copied(s2), copied_obs(o)):
            out["C12.obs_any_state." + nm] = jnp.all(jnp.asarray(x) == jnp.asarray(y))
        # the mask handed out is the mask function of the NEW state; with `C04.compute_action_mask_is_the_rule` (any state
        # satisfying Inv) and `C07.*` (Inv of the new state) this gives `obs.action_mask == legal(new state)`, which is also
        # proved directly as `C04.mask_is_exactly_the_legal_moves`
        out["C12.obs_any_state.action_mask_is_mask_fn_of_new_state"] = o.action_mask == env._compute_action_mask(s2).astype(bool)
        return out

    step_weak = dict(title=f"PacMan.step_any_state@{cfg}", args=(T0, state, a), requires=req_weak, ensures=ens_weak, props=("C11", "C12"),
                     targets=[type(env).step, type(env)._observation_from_state], note="no invariant assumed (covers steps after LAST)")

    # mask function alone, on any state satisfying Inv
    def req_s(s):
        return inv(env, s, jnp.int32(2 ** 30))

    def ens_mask(s):
        m = env._compute_action_mask(s).astype(bool)
        return {"C04.compute_action_mask_is_the_rule": m == legal(env, s),
                "C12.mask_fn_is_the_rule": m == legal(env, s),
                "canary.up_is_always_legal": m[0]}

    maskp = dict(title=f"PacMan.mask@{cfg}", args=(state,), requires=req_s, ensures=ens_mask, props=("C04", "C12"),
                 targets=[type(env)._compute_action_mask], note="function-level contract of the mask function")

    # reset: the generator is deterministic (constant maze): called directly
    def reset_ens(key):
        s, ts = env.reset(key)
        o = ts.observation
        out = {"C04.reset_mask_is_exactly_the_legal_moves": o.action_mask == legal(env, s),
               "C11.reset_step_count_zero": s.step_count == 0,
               "C11.reset_is_first": ts.step_type == K.FIRST,
               "C12.reset_obs.action_mask": o.action_mask == legal(env, s),
               "canary.reset_player_in_top_row": jnp.asarray(s.player_locations.x) == 0}
        for nm, x, y in zip(FIELDS, copied(s), copied_obs(o)):
            out["C12.reset_obs." + nm] = jnp.all(jnp.asarray(x) == jnp.asarray(y))
        for k, v in inv(env, s, jnp.int32(1)).items():
            out["C07.reset_" + k] = v
        out.update(K.spec_bounds(env.observation_spec, o, "C01.reset_obs_bounds"))
        return out

    reset = dict(title=f"PacMan.reset@{cfg}", args=(jnp.zeros((2,), jnp.uint32),), requires=None, ensures=reset_ens, targets=[type(env).reset],
                 note="deterministic generator evaluated directly")
    return [step, step_weak, maskp, reset]
