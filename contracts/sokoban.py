"""Sidecar contract for jumanji.environments.routing.sokoban.env:Sokoban (10x10, fixed by the code).

Rules (class docstring, `detect_noop_action`/`update_box_push_action`/`move_agent` docstrings): 4 actions
[Up, Right, Down, Left]; the agent moves one cell unless that cell is outside the grid or a wall; if the cell holds a box
the box is pushed one cell further unless that cell is outside the grid, a wall or another box; an impossible move/push
"has no effect on the variable grid" (it is turned into a no-op).  Dense reward: +1 per box placed on a target, -1 per box
removed from a target, -0.1 per step, +10 when all (N_BOXES = 4) boxes are on targets.  The episode ends when all 4
boxes are on targets or at the time limit.  There is no action mask (C04 not applicable).

Global cardinalities ("exactly 4 boxes") are stated as frame + balance (DESIGN 3.2): every cell outside the touched set
{agent cell, cell ahead, cell two ahead} is unchanged, and the number of boxes on the touched cells is unchanged; `reset`
establishes the count.  `boxes == 4` is therefore not a precondition of any step obligation.
"""
import jax.numpy as jnp

from contracts import common as K
from contracts import envs as E

ENV = "Sokoban"
PROPS = ["C01", "C05", "C07", "C09", "C11", "C12"]   # no action mask (C04), not a CO problem (C06), per-step reward (C08 n/a, DESIGN 6)
G = 10
EMPTY, WALL, TARGET, AGENT, BOX = 0, 1, 2, 3, 4
NOOP = -1
N_BOXES = 4
MOVES = ((-1, 0), (0, 1), (1, 0), (0, -1))
II = jnp.arange(G)[:, None]
JJ = jnp.arange(G)[None, :]


def inside(r, c):
    return (r >= 0) & (r < G) & (c >= 0) & (c < G)


def at(grid, r, c):
    return grid[jnp.clip(r, 0, G - 1), jnp.clip(c, 0, G - 1)]


def is_cell(r, c):
    """(G, G) bool: the cell is (r, c)"""
    return (II == r) & (JJ == c)


def iff(x, y):
    """x <=> y as two implications (two obligations; the solver is much faster on each half)"""
    return jnp.stack([~x | y, ~y | x])


def inv(s, T):
    V, F = s.variable_grid, s.fixed_grid
    r, c = s.agent_location[0], s.agent_location[1]
    return {
        "variable_alphabet": (V == EMPTY) | (V == AGENT) | (V == BOX),
        "fixed_alphabet": (F == EMPTY) | (F == WALL) | (F == TARGET),
        "nothing_on_walls": (F != WALL) | (V == EMPTY),
        "agent_in_grid": inside(r, c),
        "one_agent_cell_at_agent_location": (V == AGENT) == is_cell(r, c),
        "counter": (s.step_count >= 0) & (s.step_count < T),
    }


def n_boxes(V):
    return jnp.sum(V == BOX)


def on_target(V, F):
    return jnp.sum((V == BOX) & (F == TARGET))


def rules(V, F, loc, a):
    """what the documented rules say about action a: (moves, box_ahead, (r1,c1), (r2,c2))"""
    d = jnp.asarray(MOVES)[a]
    r, c = loc[0], loc[1]
    r1, c1, r2, c2 = r + d[0], c + d[1], r + 2 * d[0], c + 2 * d[1]
    blocked = ~inside(r1, c1) | (at(F, r1, c1) == WALL)
    box_ahead = inside(r1, c1) & (at(V, r1, c1) == BOX)
    push_blocked = ~inside(r2, c2) | (at(V, r2, c2) == BOX) | (at(F, r2, c2) == WALL)
    moves = ~blocked & (~box_ahead | ~push_blocked)
    return moves, box_ahead, (r1, c1), (r2, c2)


def spec_move(V, loc, moves, box_ahead, n1, n2):
    """explicit per-cell case analysis of the executed move"""
    r, c = loc[0], loc[1]
    V2 = jnp.where(moves & is_cell(r, c), jnp.uint8(EMPTY),
                   jnp.where(moves & is_cell(*n1), jnp.uint8(AGENT),
                             jnp.where(moves & box_ahead & is_cell(*n2), jnp.uint8(BOX), V)))
    loc2 = jnp.where(moves, jnp.stack([n1[0], n1[1]]), loc)
    return V2, loc2


def spec_step(s, a, T):
    V, F, loc = s.variable_grid, s.fixed_grid, s.agent_location
    moves, box_ahead, n1, n2 = rules(V, F, loc, a)
    V2, loc2 = spec_move(V, loc, moves, box_ahead, n1, n2)
    solved = on_target(V2, F) == N_BOXES
    reward = (on_target(V2, F) - on_target(V, F)) + 10 * solved - 0.1
    last = solved | (s.step_count + 1 >= T)
    return dict(moves=moves, box_ahead=box_ahead, n1=n1, n2=n2, V2=V2, loc2=loc2, reward=reward, last=last)


def problems(env, cfg, tier):
    from jumanji.environments.routing.sokoban.reward import DenseReward

    assert (env.num_rows, env.num_cols) == (G, G) and isinstance(env.reward_fn, DenseReward)
    state, ts, a0 = E.example(env)
    T0 = jnp.int32(env.time_limit)

    def req(T, s, a):
        return {**inv(s, T), "in_spec": E.in_spec(env, a), "T_positive": T >= 1}

    def ens(T, s, a):
        with K.with_attr(env, "time_limit", T):
            s2, ts = env.step(s, a)
        sp = spec_step(s, a, T)
        V, F, loc = s.variable_grid, s.fixed_grid, s.agent_location
        V2, F2, loc2 = s2.variable_grid, s2.fixed_grid, s2.agent_location
        moves, (r1, c1), (r2, c2) = sp["moves"], sp["n1"], sp["n2"]
        r, c = loc[0], loc[1]
        last = ts.step_type == K.LAST
        o = ts.observation
        touched = is_cell(r, c) | is_cell(r1, c1) | is_cell(r2, c2)
        tcells = ((r, c), (r1, c1), (r2, c2))
        boxes_on = lambda W: sum((inside(rr, cc) & (at(W, rr, cc) == BOX)).astype(jnp.int32) for rr, cc in tcells)
        targets_on = lambda W: sum((inside(rr, cc) & (at(W, rr, cc) == BOX) & (at(F, rr, cc) == TARGET)).astype(jnp.int32)
                                   for rr, cc in tcells)
        pushed = moves & sp["box_ahead"]
        noop = jnp.all(env.detect_noop_action(V, F, a, loc) == NOOP)
        AA = jnp.arange(4)[:, None]
        case = (a != AA) | (r != jnp.arange(G)[None, :])      # (4, G) case split on (action, agent row); covers every input under Inv
        out = {
            # ---- C05: an impossible move/push is ignored
            "C05.illegal_move_is_ignored.variable_grid": moves | (V2 == V),
            "C05.illegal_move_is_ignored.agent_location": moves | (loc2 == loc),
            "C05.illegal_move_frame": moves | ((F2 == F).all() & (s2.step_count == s.step_count + 1) & (s2.key == s.key).all()),
            # cut through the callee contract: `act` is the very term `step` computes with detect_noop_action; the first clause is
            # that callee's post-condition, the next two take it as a hypothesis (A: moves | noop, B: moves | ~noop | R, together
            # moves | R).  Stated directly, R compares two 100-term counts over syntactically different grids: unknown after 120 s.
            "C05.impossible_move_becomes_noop": moves | noop,
            "C05.illegal_move_episode_continues_like_noop": moves | ~noop | (last == ((on_target(V, F) == N_BOXES) | (s.step_count + 1 >= T))),
            "C05.illegal_move_reward_like_noop": moves | ~noop | (ts.reward == 10 * (on_target(V, F) == N_BOXES) - 0.1),
            "C05.possible_move_is_executed": ~moves | ((loc2[0] == r1) & (loc2[1] == c1)),
            # ---- C07 two-state clauses (conservation as frame + balance)
            "C07.fixed_grid_unchanged": F2 == F,
            "C07.boxes_frame": touched | (V2 == V),
            "C07.boxes_balance": case | (boxes_on(V2) == boxes_on(V)),
            # ---- C09 reference model
            "C09.variable_grid": V2 == sp["V2"],
            "C09.agent_location": loc2 == sp["loc2"],
            "C09.frame": (F2 == F).all() & (s2.step_count == s.step_count + 1) & (s2.key == s.key).all(),
            # reward and termination are the documented functions of the NEW state (whose grids are the reference model's, cell by
            # cell, by the clauses above) -- comparing against counts over the model's own grid is two 100-term sums over
            # syntactically different terms (unknown after 120 s); the local effect on the count is the balance clause below
            "C09.reward": ts.reward == (on_target(V2, F2) - on_target(V, F)) + 10 * (on_target(V2, F2) == N_BOXES) - 0.1,
            "C09.last": iff(last, (on_target(V2, F2) == N_BOXES) | (s.step_count + 1 >= T)),
            # the change of the number of boxes on targets is the effect of the one pushed box (balance over the touched cells;
            # with C07.boxes_frame and fixed_grid_unchanged this is the global change)
            "C09.boxes_on_target_balance": case | (targets_on(V2) - targets_on(V)
                == jnp.where(pushed, (at(F, r2, c2) == TARGET).astype(jnp.int32) - (at(F, r1, c1) == TARGET).astype(jnp.int32), 0)),
            # ---- C11
            "C11.counting": s2.step_count == s.step_count + 1,
            "C11.never_later": (s.step_count + 1 < T) | last,
            "C11.never_earlier": ~last | (s.step_count + 1 >= T) | (on_target(V2, F2) == N_BOXES),
            # ---- C12
            "C12.obs.grid_variable": o.grid[..., 0] == V2,
            "C12.obs.grid_fixed": o.grid[..., 1] == F2,
            "C12.obs.step_count": o.step_count == s2.step_count,
            "canary.agent_never_moves": loc2[0] == r,
        }
        for k, v in inv(s2, T).items():       # everything but the counter holds on the terminal step as well
            out["C07." + k] = (last | v) if k == "counter" else v
        out.update(K.spec_bounds(env.observation_spec, o, "C01.step_obs_bounds"))
        return out

    tg = [type(env).step, type(env).detect_noop_action, type(env).update_box_push_action, type(env).move_agent,
          type(env).level_complete, type(env)._state_to_observation, DenseReward.__call__, DenseReward.count_targets]
    step = dict(title=f"Sokoban.step@{cfg}", args=(T0, state, a0), requires=req, ensures=ens, targets=tg, workers=4,
                note="time limit symbolic: proved for every T >= 1; box count as frame + balance")

    # ---- function-level contracts of the two rule functions (C09)
    def fn_req(V, F, a, loc):
        return {"agent_in_grid": inside(loc[0], loc[1]), "in_spec": (a >= 0) & (a < 4)}

    def noop_ens(V, F, a, loc):
        moves, _, _, _ = rules(V, F, loc, a)
        got = env.detect_noop_action(V, F, a, loc)
        return {"C09.detect_noop_action_is_the_rule": got == jnp.where(moves, a, NOOP),
                "C05.impossible_move_becomes_noop": moves | (got == NOOP),
                "canary.never_noop": got == a}

    noop = dict(title=f"Sokoban.detect_noop_action@{cfg}", args=(state.variable_grid, state.fixed_grid, a0, state.agent_location),
                requires=fn_req, ensures=noop_ens, targets=[type(env).detect_noop_action, type(env).update_box_push_action],
                props=["C05", "C09"], note="function-level: for ANY grid contents")

    def mv_req(V, F, a, loc):
        moves, _, _, _ = rules(V, F, loc, a)
        return {**fn_req(V, F, a, loc), "move_is_possible": moves}

    def mv_ens(V, F, a, loc):
        moves, box_ahead, n1, n2 = rules(V, F, loc, a)
        V2, loc2 = env.move_agent(V, a, loc)
        sV2, sloc2 = spec_move(V, loc, moves, box_ahead, n1, n2)
        return {"C09.move_agent.variable_grid": V2 == sV2, "C09.move_agent.agent_location": loc2 == sloc2,
                "canary.move_agent_pushes_nothing": V2[0, 0] == V[0, 0]}

    mv = dict(title=f"Sokoban.move_agent@{cfg}", args=(state.variable_grid, state.fixed_grid, a0, state.agent_location),
              requires=mv_req, ensures=mv_ens, targets=[type(env).move_agent], props=["C09"], workers=4,
              note="function-level: pre-condition = the move is possible by the rules (what detect_noop_action guarantees)")

    # ---- reset, generator = contract boundary (its post-condition, incl. exactly 4 boxes, is C10's obligation)
    def gen_post(g, key):
        return {**inv(g, jnp.int32(1)), "four_boxes": n_boxes(g.variable_grid) == N_BOXES, "step_count_zero": g.step_count == 0}

    def reset_ens(g, key):
        s, ts = K.reset_from(env, "generator", g, key)
        o = ts.observation
        out = {"C07.reset_four_boxes": n_boxes(s.variable_grid) == N_BOXES,
               "C09.reset_state_is_the_generated_instance": K.tree_eq((s.variable_grid, s.fixed_grid, s.agent_location, s.step_count),
                                                                      (g.variable_grid, g.fixed_grid, g.agent_location, g.step_count)),
               "C11.reset_step_count_zero": s.step_count == 0,
               "C12.reset_obs.grid_variable": o.grid[..., 0] == s.variable_grid,
               "C12.reset_obs.grid_fixed": o.grid[..., 1] == s.fixed_grid,
               "C12.reset_obs.step_count": o.step_count == s.step_count,
               "canary.reset_agent_in_corner": s.agent_location[0] == 0}
        for k, v in inv(s, jnp.int32(1)).items():
            out["C07.reset_" + k] = v
        out.update(K.spec_bounds(env.observation_spec, o, "C01.reset_obs_bounds"))
        return out

    reset = dict(title=f"Sokoban.reset@{cfg}", args=(state, jnp.zeros(2, jnp.uint32)), requires=gen_post, ensures=reset_ens,
                 targets=[type(env).reset],
                 note="generator replaced by its post-condition (contract boundary; the generator's own contract is C10)")
    out = [step, noop, mv, reset]

    # ---- the light generator of this configuration run for real (randint replaced by its contract stub): every key
    from jumanji.environments.routing.sokoban.generator import ToyGenerator

    if isinstance(env.generator, ToyGenerator):
        def toy_ens(key):
            s, ts = env.reset(key)
            o = ts.observation
            res = {"C07.reset_four_boxes": n_boxes(s.variable_grid) == N_BOXES, "C11.reset_step_count_zero": s.step_count == 0,
                   "C12.reset_obs.grid_variable": o.grid[..., 0] == s.variable_grid, "C12.reset_obs.grid_fixed": o.grid[..., 1] == s.fixed_grid,
                   "C12.reset_obs.step_count": o.step_count == s.step_count,
                   "canary.reset_always_level_1": s.agent_location[0] == 1}
            for k, v in inv(s, jnp.int32(1)).items():
                res["C07.reset_" + k] = v
            res.update(K.spec_bounds(env.observation_spec, o, "C01.reset_obs_bounds"))
            return res

        out.append(dict(title=f"Sokoban.reset[ToyGenerator]@{cfg}", args=(jnp.zeros(2, jnp.uint32),), ensures=toy_ens,
                        targets=[type(env).reset, ToyGenerator.__call__], props=["C01", "C07", "C11", "C12"],
                        note="real generator; jax.random.randint replaced by its assumed contract (any index in range): all keys"))
    return out
