"""Sidecar contract for jumanji.environments.logic.game_2048 (env.py:Game2048 and utils.py).

Rules (class docstring + the game): a move slides every tile as far as possible in the chosen direction
[0,1,2,3] = [Up, Right, Down, Left]; going through a line from the side the tiles move to, two equal neighbouring tiles
(ignoring blanks) merge once into a tile of twice the value (exponent + 1) and a merged tile does not merge again in the
same move.  The reward is the sum of the values of the tiles created by merges.  A move is legal iff it changes the
board; an illegal move is ignored (board identical, no tile spawned, reward 0).  After a legal move one new tile of
value 2 or 4 (exponent 1 or 2) appears on an empty cell.  The episode ends when no move is legal.
Tiles are stored as exponents (0 = empty).

Configurations: "rows" = function-level contracts of the row functions for every row length 2..5;
"2", "3" (thorough: "4") = board-level function contracts, step and reset for that board size.
Tile exponents are symbolic in [0, 30] (a stated range assumption: float rewards 2^31 and int32 are then exact).
"""
import jax
import jax.numpy as jnp

from contracts import common as K
from contracts import envs as E

ENV = "Game2048"
TILE_MAX = 30


def configs(tier):
    from jumanji.environments import Game2048

    out = {"rows": lambda: Game2048(board_size=2), "2": lambda: Game2048(board_size=2), "3": lambda: Game2048(board_size=3)}
    if tier != "quick":
        out["4"] = lambda: Game2048(board_size=4)
    return out


def spec_bounds(spec, value, prefix):
    """K.spec_bounds + the boolean leaves (trivially inside [False, True]; the board spec is an unbounded int32 Array, so
    without them Game2048 would contribute no bound clause at all)"""
    out = K.spec_bounds(spec, value, prefix)
    out[prefix + ".action_mask"] = jnp.ones(jnp.shape(value.action_mask), bool)
    return out


# ---- the rules --------------------------------------------------------------------------------------------------------
def tile_value(v):
    """2^v for a tile exponent v in 1..31, 0 for the empty cell (table: no exponentiation in the formula)"""
    r = jnp.float32(0.0)
    for t in range(TILE_MAX + 1, 0, -1):
        r = jnp.where(v == t, jnp.float32(2.0 ** t), r)
    return r


def merge_line(xs):
    """xs: the tiles of one line, first the one nearest to the side the tiles move to.
    Returns (new line, reward, value of each tile of the new line as the SUM of the values of the tiles it is made of).
    Sequential reading of the rule: keep the list of tiles already placed (`out[:cnt]`) and whether the last placed tile
    may still merge; a non-blank tile merges with the last placed tile iff that one is equal and not itself a merge."""
    n = len(xs)
    out = [jnp.int32(0)] * n
    val = [jnp.float32(0.0)] * n
    cnt = jnp.int32(0)
    can = jnp.asarray(False)
    rew = jnp.float32(0.0)
    for x in xs:
        nz = x != 0
        vx = tile_value(x)
        last = jnp.int32(0)
        for j in range(n):
            last = jnp.where(cnt - 1 == j, out[j], last)
        do_merge = nz & can & (last == x)
        place = nz & ~do_merge
        out = [jnp.where(do_merge & (cnt - 1 == j), x + 1, jnp.where(place & (cnt == j), x, out[j])) for j in range(n)]
        val = [jnp.where(do_merge & (cnt - 1 == j), val[j] + vx, jnp.where(place & (cnt == j), vx, val[j])) for j in range(n)]
        rew = rew + jnp.where(do_merge, 2.0 ** (x + 1), 0.0)
        cnt = cnt + place.astype(jnp.int32)
        can = jnp.where(do_merge, False, jnp.where(nz, True, can))
    return out, rew, val


def lines(n, d):
    """cells of every line of the board, listed from the side the tiles move to (d: 0 Up, 1 Right, 2 Down, 3 Left)"""
    if d == 0:
        return [[(r, c) for r in range(n)] for c in range(n)]
    if d == 1:
        return [[(r, c) for c in reversed(range(n))] for r in range(n)]
    if d == 2:
        return [[(r, c) for r in reversed(range(n))] for c in range(n)]
    return [[(r, c) for c in range(n)] for r in range(n)]


def spec_move_dir(board, d):
    n = board.shape[0]
    new = [[None] * n for _ in range(n)]
    val = [[None] * n for _ in range(n)]
    rew = jnp.float32(0.0)
    for line in lines(n, d):
        out, r, vs = merge_line([board[p] for p in line])
        rew = rew + r
        for p, v, w in zip(line, out, vs):
            new[p[0]][p[1]] = v
            val[p[0]][p[1]] = w
    return jnp.stack([jnp.stack(row) for row in new]), rew, jnp.stack([jnp.stack(row) for row in val])


def spec_move(board, a):
    """(moved board, reward, value of every tile of the moved board as the sum of the values of the tiles it is made of)"""
    res = [spec_move_dir(board, d) for d in range(4)]
    out = list(res[3])
    for d in range(3):
        out = [jnp.where(a == d, x, y) for x, y in zip(res[d], out)]
    return tuple(out)


def legal(board):
    """a move is legal iff it changes the board"""
    return jnp.stack([jnp.any(spec_move_dir(board, d)[0] != board) for d in range(4)])


# ---- conservation of the sum of tile values -----------------------------------------------------------------------------
# Stated in two local parts (DESIGN 3.2): (1) per cell, the value 2^tile of the resulting tile equals the sum of the values of
# the source tiles that the rules put there (`val`, carried by merge_line: table look-ups on one cell, no global sum);
# (2) the `val`s add up to the total value of the source tiles (linear: every source tile goes to exactly one place).
# (1) and (2) give  sum 2^tile' == sum 2^tile  by substitution under the finite sum.  Values are float32 (2^31 is exact;
# the proof is over the reals; only a native replay with tiles above 2^24 may see float rounding in the sums).
def total(vals):
    r = jnp.float32(0.0)
    for v in vals:
        r = r + v
    return r


def line_balance(board, a):
    """part (2) per line of the chosen direction (lines partition the board): the values carried to the line's new tiles add
    up to the values of the line's old tiles.  Shape (4 directions, n lines); direction d is vacuous unless a == d."""
    n = board.shape[0]
    out = []
    for d in range(4):
        val = spec_move_dir(board, d)[2]
        out.append(jnp.stack([(a != d) | (total([val[p] for p in line]) == total([tile_value(board[p]) for p in line])) for line in lines(n, d)]))
    return jnp.stack(out)


def flat(b):
    return [b[i, j] for i in range(b.shape[0]) for j in range(b.shape[1])]


def per_action(a, clause):
    """case split of a clause on the 4 in-spec actions: one obligation (block) per direction"""
    return jnp.stack([(a != d) | clause for d in range(4)])


def in_range(x):
    return (x >= 0) & (x <= TILE_MAX)


# ---- problems ---------------------------------------------------------------------------------------------------------
def row_problems():
    from jumanji.environments.logic.game_2048 import utils as U

    out = []
    for n in (2, 3, 4, 5):
        def ens(row, n=n):
            r2, rew = U.move_left_row(row)
            spec, srew, val = merge_line([row[j] for j in range(n)])
            spec, val = jnp.stack(spec), jnp.stack(val)
            cm = U.can_move_left_row(row)
            out = {} if n > 3 else {  # the global statement itself, where the solver manages it directly
                "C07.row_tile_sum_conserved": total([tile_value(r2[j]) for j in range(n)]) == total([tile_value(row[j]) for j in range(n)])}
            return {
                **out,
                "C09.move_left_row_is_the_merge_spec": r2 == spec,
                "C09.move_left_row_reward_is_the_merge_spec": rew == srew,
                "C09.merged_row_is_left_packed": jnp.stack([(r2[j] != 0) | (r2[j + 1] == 0) for j in range(n - 1)]),
                "C08.row_reward_is_sum_of_created_tile_values": rew == srew,
                "C08.row_reward_zero_iff_nothing_merged": (rew == 0.0) | (jnp.sum((r2 != 0).astype(jnp.int32)) < jnp.sum((row != 0).astype(jnp.int32))),
                "C07.row_tile_sum.each_result_tile_is_worth_its_source_tiles": jnp.stack([tile_value(r2[j]) for j in range(n)]) == val,
                "C07.row_tile_sum.source_tiles_all_accounted_for": total(list(val)) == total([tile_value(row[j]) for j in range(n)]),
                "C07.row_tiles_stay_nonnegative": r2 >= 0,
                "C04.can_move_left_row_iff_the_rule_changes_the_row": cm == jnp.any(spec != row),
                "C04.can_move_left_row_iff_move_left_row_changes_the_row": cm == jnp.any(r2 != row),
                "canary.row_never_changes": (r2 == row).all(),
            }

        out.append(dict(title=f"Game2048.move_left_row@n{n}", args=(jnp.zeros((n,), jnp.int32),), requires=lambda row: {"tiles_in_range": in_range(row)},
                        ensures=ens, targets=[U.move_left_row, U.move_left_row_body, U.no_op, U.shift, U.merge, U.can_move_left_row,
                                              U.can_move_left_row_body],
                        while_bound=2 * n, workers=3, props=("C04", "C07", "C08", "C09"),
                        note=f"all rows of length {n}, tiles symbolic in [0,{TILE_MAX}]; while loops unwound {2 * n} times + unwinding assertion"))
    return out


def board_problem(env, cfg):
    from jumanji.environments.logic.game_2048 import utils as U

    n = env.board_size
    board0 = jnp.zeros((n, n), jnp.int32)

    def req(board, a):
        return {"tiles_in_range": in_range(board), "in_spec": E.in_spec(env, a)}

    def ens(board, a):
        mb, mr = U.move(board, a)
        sb, sr, sval = spec_move(board, a)
        tb = U.transform_board(board, a)
        t_spec = board  # explicit coordinate maps: 0 transpose, 1 mirror columns, 2 anti-transpose, 3 identity
        maps = (lambda i, j: (j, i), lambda i, j: (i, n - 1 - j), lambda i, j: (n - 1 - j, n - 1 - i))
        for d, f in enumerate(maps):
            t_spec = jnp.where(a == d, jnp.stack([jnp.stack([board[f(i, j)] for j in range(n)]) for i in range(n)]), t_spec)
        ml, mlr = U.move_left(tb)
        rule = legal(board)
        out = {
            "C09.move_is_the_spec_move": mb == sb,
            "C09.move_reward_is_the_spec_reward": mr == sr,
            "C09.transform_board_is_an_involution": U.transform_board(tb, a) == board,
            "C09.transform_board_is_the_documented_reflection": tb == t_spec,
            "C09.move_is_transform_move_left_transform": (mb == U.transform_board(ml, a)) & (mr == mlr),
            "C09.move_up": U.move_up(board)[0] == spec_move_dir(board, 0)[0],
            "C09.move_right": U.move_right(board)[0] == spec_move_dir(board, 1)[0],
            "C09.move_down": U.move_down(board)[0] == spec_move_dir(board, 2)[0],
            "C09.move_left": U.move_left(board)[0] == spec_move_dir(board, 3)[0],
            "C08.move_reward_is_sum_of_created_tile_values": mr == sr,
            "C07.move_tile_sum.each_result_tile_is_worth_its_source_tiles": jnp.stack([tile_value(v) for v in flat(mb)]) == jnp.stack(flat(sval)),
            "C07.move_tile_sum.source_tiles_all_accounted_for": line_balance(board, a),
            "C07.move_keeps_tiles_nonnegative_and_grows_by_at_most_one": (mb >= 0) & (mb <= jnp.max(board) + 1),
            "C04.can_move_iff_the_move_changes_the_board": U.can_move(board, a) == rule[a],
            "C04.can_move_iff_move_changes_the_board_impl": U.can_move(board, a) == jnp.any(mb != board),
            "C04.can_move_up_right_down_left": jnp.stack([U.can_move_up(board), U.can_move_right(board), U.can_move_down(board),
                                                          U.can_move_left(board)]) == rule,
            "C04.action_mask_fn_is_the_rule": env._get_action_mask(board) == rule,
            "canary.move_never_changes_the_board": (mb == board).all(),
        }
        return out

    return dict(title=f"Game2048.move@{cfg}", args=(board0, jnp.int32(0)), requires=req, ensures=ens, while_bound=2 * n, workers=4,
                props=("C04", "C07", "C08", "C09"),
                targets=[U.move, U.move_left, U.move_left_row, U.transform_board, U.can_move, U.can_move_left, U.can_move_left_row,
                         U.move_up, U.move_right, U.move_down, U.can_move_up, U.can_move_right, U.can_move_down, type(env)._get_action_mask],
                note=f"all {n}x{n} boards, tiles symbolic in [0,{TILE_MAX}], all 4 directions")


def inv(s):
    return {"tiles_in_range": in_range(s.board),
            "cached_mask_is_the_mask": s.action_mask == legal(s.board),
            "step_count_nonnegative": s.step_count >= 0}


def step_problem(env, cfg):
    from jumanji.environments.logic.game_2048 import utils as U

    n = env.board_size
    state, ts, a = E.example(env)
    cells = [(i, j) for i in range(n) for j in range(n)]

    def req(s, a):
        return {**inv(s), "in_spec": E.in_spec(env, a), "step_count_below_int32_max": s.step_count < 2 ** 31 - 1}

    def ens(s, a):
        s2, ts = env.step(s, a)
        o = ts.observation
        b, b2 = s.board, s2.board
        rule = legal(b)
        ok = rule[a]
        moved, srew, _ = spec_move(b, a)
        mb, _ = U.move(b, a)  # the real callee, under its own contracts (Game2048.move@cfg: mb == moved, tile sum conserved)
        last = ts.step_type == K.LAST
        rule2 = legal(b2)
        differs = b2 != mb
        n_spawned = jnp.sum(differs.astype(jnp.int32))
        spawn_ok = jnp.asarray(False)  # exists an empty cell of the moved board that receives 1 or 2, every other cell as moved
        for c in cells:
            others = jnp.asarray(True)
            for c2 in cells:
                if c2 != c:
                    others = others & (b2[c2] == moved[c2])
            spawn_ok = spawn_ok | ((moved[c] == 0) & ((b2[c] == 1) | (b2[c] == 2)) & others)
        spawned = jnp.where(differs, jnp.where(b2 == 1, 2.0, jnp.where(b2 == 2, 4.0, -1.0)), 0.0)  # value of the spawned tile, per cell
        out = {
            # C04
            "C04.mask_is_exactly_the_legal_moves": o.action_mask == rule2,
            "C04.cached_mask_is_the_mask": s2.action_mask == rule2,
            "C04.legal_move_is_executed": ~ok | jnp.any(b2 != b),
            "C04.last_iff_no_legal_move": last == ~jnp.any(rule2),
            # C05: illegal move ignored
            "C05.illegal_move_is_ignored": per_action(a, ok | (b2 == b)),
            "C05.illegal_move_spawns_no_tile": ok | (jnp.sum((b2 != 0).astype(jnp.int32)) == jnp.sum((b != 0).astype(jnp.int32))),
            "C05.illegal_move_reward_zero": ok | (ts.reward == 0.0),
            "C05.illegal_move_score_unchanged": ok | (s2.score == s.score),
            "C05.illegal_move_step_count_incremented": ok | (s2.step_count == s.step_count + 1),
            "C05.illegal_move_episode_continues_like_noop": per_action(a, ok | (last == ~jnp.any(rule))),
            "C05.illegal_move_mask_unchanged": per_action(a, ok | (s2.action_mask == s.action_mask)),
            # C07: frame (cells other than the spawn cell are as moved) + balance (one empty cell receives 2 or 4)
            "C07.frame_cells_as_moved_or_spawned_on_empty": per_action(a, ~differs | (ok & (mb == 0) & ((b2 == 1) | (b2 == 2)))),
            "C07.exactly_one_tile_spawned_iff_legal": per_action(a, n_spawned == jnp.where(ok, 1, 0)),
            "C07.tile_sum.each_tile_is_worth_the_moved_tile_or_is_the_spawned_tile":
                jnp.stack([tile_value(v) for v in flat(b2)]) == jnp.stack([tile_value(v) for v in flat(mb)]) + jnp.stack(flat(spawned)),
            "C07.tile_sum.spawned_value_is_2_or_4_iff_legal": jnp.where(ok, (total(flat(spawned)) == 2.0) | (total(flat(spawned)) == 4.0),
                                                                        total(flat(spawned)) == 0.0),
            "C07.tiles_nonnegative_and_grow_by_at_most_one": (b2 >= 0) & (b2 <= jnp.maximum(jnp.max(b) + 1, 2)),
            "C07.cached_mask_is_the_mask": s2.action_mask == rule2,
            "C07.step_count_nonnegative": s2.step_count >= 0,
            # C08: ghost return == score
            "C08.reward_is_sum_of_created_tile_values": ts.reward == srew,
            "C08.score_accumulates_reward": s2.score == s.score + ts.reward,
            # C09
            "C09.board": per_action(a, jnp.where(ok, spawn_ok, jnp.all(b2 == b))),
            "C09.reward": ts.reward == srew,
            "C09.score": s2.score == s.score + srew,
            "C09.last": last == ~jnp.any(rule2),
            "C09.step_type_mid_otherwise": last | (ts.step_type == K.MID),
            "C09.discount": ts.discount == jnp.where(last, 0.0, 1.0),
            "C09.step_count": s2.step_count == s.step_count + 1,
            "C09.key_is_split": (s2.key == jax.random.split(s.key)[1]).all(),
            "C09.action_mask": s2.action_mask == rule2,
            # C11 (no time limit: counting only)
            "C11.counting": s2.step_count == s.step_count + 1,
            # C12
            "C12.obs.board": o.board == s2.board,
            "C12.obs.action_mask": o.action_mask == s2.action_mask,
            "C12.observation_is_a_view": K.tree_eq((o.board, o.action_mask), (s2.board, s2.action_mask)),
            "canary.board_never_changes": (b2 == b).all(),
        }
        out.update(spec_bounds(env.observation_spec, o, "C01.step_obs_bounds"))
        return out

    return dict(title=f"Game2048.step@{cfg}", args=(state, a), requires=req, ensures=ens, while_bound=2 * n, workers=4,
                targets=[type(env).step, type(env)._add_random_cell, type(env)._get_action_mask],
                note=f"tiles symbolic in [0,{TILE_MAX}] (stated range assumption, not inductive: a merge of two 2^30 tiles gives 2^31)")


def reset_problem(env, cfg):
    n = env.board_size

    def ens(key):
        s, ts = env.reset(key)
        o = ts.observation
        b = s.board
        out = {
            "C04.reset_mask_is_exactly_the_legal_moves": o.action_mask == legal(b),
            "C07.reset_exactly_one_tile": jnp.sum((b != 0).astype(jnp.int32)) == 1,
            "C07.reset_tile_is_2_or_4": (b == 0) | (b == 1) | (b == 2),
            "C08.reset_score_zero": s.score == 0.0,
            "C09.reset_key_is_split": (s.key == jax.random.split(key)[0]).all(),
            "C11.reset_step_count_zero": s.step_count == 0,
            "C12.reset_obs.board": o.board == s.board,
            "C12.reset_obs.action_mask": o.action_mask == s.action_mask,
            "canary.reset_tile_is_always_2": jnp.max(b) == 1,
        }
        for k, v in inv(s).items():
            out["C07.reset_" + k] = v
        out.update(spec_bounds(env.observation_spec, o, "C01.reset_obs_bounds"))
        return out

    return dict(title=f"Game2048.reset@{cfg}", args=(jax.random.PRNGKey(0),), requires=lambda key: {}, ensures=ens, while_bound=2 * n,
                targets=[type(env).reset, type(env)._generate_board, type(env)._add_random_cell, type(env)._get_action_mask])


def problems(env, cfg, tier):
    if cfg == "rows":
        return row_problems()
    return [board_problem(env, cfg), step_problem(env, cfg), reset_problem(env, cfg)]
