"""Sidecar contract for jumanji.environments.routing.lbf.env:LevelBasedForaging serving C08:
"the return of an episode equals the documented objective recomputed from the final state: ... one when all food is collected (LBF)".

Documented reward (class docstring of LevelBasedForaging, `get_reward` docstrings/comments; movement/eating rules as read in contracts/lbf.py):
* "When one or more agents load food, the food level is rewarded to the agents, weighted by the level of each agent.  The reward is then
  normalized so that, at the end, the sum of the rewards (if all food items have been picked up) is one."
* an agent TAKES PART in loading food f iff its action is LOAD, f is uneaten and adjacent (Manhattan distance 1); S_f = sum of the levels of the
  agents taking part; f is eaten at this step iff S_f >= level_f ("eaten" is then latched);
* normalize_reward=True : agent i receives, for each food f eaten at this step that it takes part in,
  (level_i * level_f) / (S_f * TOTAL) with TOTAL = the sum of ALL food levels;  normalize_reward=False: level_i * level_f (no division);
* "Penalize agents for not being able to cooperate and eat food": `penalty` (default 0.0) is subtracted from the numerator of every agent for each
  food that is loaded (S_f != 0) by agents whose levels do not suffice (S_f < level_f).

Ghost objective G(s) = (sum of the levels of the eaten food) / TOTAL, recomputed from the raw food table; G(reset) = 0, G = 1 iff all food is eaten.
C08 is proved as: for every reachable (Inv) state and every in-spec joint action
   sum_i reward_i * TOTAL == eaten_level(s') - eaten_level(s)          (so the return of all agents telescopes to G(final) = 1 when all food is eaten)
with TOTAL constant along the episode.

FORMULATION CHOSEN (the direct clause above is mixed integer/real NON-LINEAR for z3 - division by the symbolic integer product S_f * TOTAL - and
comes back `unknown`).  It is split in two machine-checked layers that share ONE Python function `documented_reward` (dtype generic):
  (A) step level, on the real `env.step`:  reward_i == documented_reward(levels, loaders)_i  for every agent (the contract builds the same quotient
      from the rules, z3 only has to show numerators and denominators equal), together with the linear clauses
      `eaten_level(s') - eaten_level(s) == sum of the levels of the food eaten now`, `eaten' == eaten | (S_f >= level_f)`, TOTAL constant, Inv preserved;
  (B) a pure lemma on the documented formula alone, with the levels as REALS >= 1 (a superset of the integer levels; pure non-linear real arithmetic
      is decided by z3/nlsat):  sum_i documented_reward_i * TOTAL == sum of the levels of the food eaten now  (and the un-normalised / penalty variants).
(A) + (B) instantiated at the integer levels give the ghost equation.  Floats are reals in the engine: `== 1` is exact in real arithmetic only.

ENGINE LIMITATION worked around: `jnp.nan_to_num` is the identity in the engine's real arithmetic (no NaN), and z3 leaves x/0 unspecified, whereas the
implementation relies on nan_to_num(0/0) == 0 for every food nobody loads ("jnp.nan_to_num: Used in the case where no agents are adjacent to the
food").  The problems take an extra float argument `z` with the precondition `z == 0 and nan_to_num(0.0 / z) == 0` - natively a tautology of IEEE
arithmetic, in the engine the axiom "0/0 := 0" - so that model and native semantics agree.  (Consequence: deleting the nan_to_num call is invisible to
the engine.)"""
import jax
import jax.numpy as jnp

from contracts import common as K
from contracts import envs as E
from contracts import lbf as L

ENV = "LevelBasedForaging"
PROPS = ("C08",)
LOAD = L.LOAD


def configs(tier):
    """3 agents / 2 food on a 6x6 grid (num_agents != num_food, agent levels 1..2, food levels 1..6): normalised reward (the property statement),
    un-normalised reward with a non-zero penalty; thorough adds the normalised reward with a non-zero penalty."""
    from jumanji.environments import LevelBasedForaging
    from jumanji.environments.routing.lbf.generator import RandomGenerator as LGen

    out = {
        "g6a3f2norm-c08": lambda: LevelBasedForaging(LGen(6, 3, 2, 2), time_limit=7),
        "g6a3f2rawpen-c08": lambda: LevelBasedForaging(LGen(6, 3, 2, 2), time_limit=7, normalize_reward=False, penalty=0.5),
    }
    if tier != "quick":
        out["g6a3f2normpen-c08"] = lambda: LevelBasedForaging(LGen(6, 3, 2, 2), time_limit=7, penalty=0.25)
    return out


# ---- the documented objective, from the raw food table -------------------------------------------------------------------
def eaten_level(s):
    return sum(jnp.where(s.food_items.eaten[f], s.food_items.level[f], 0) for f in range(s.food_items.level.shape[0]))


def total_level(s):
    return sum(s.food_items.level[f] for f in range(s.food_items.level.shape[0]))


def loaders(env, s, a):
    """mine[i][f]: agent i takes part in loading food f (rules: LOAD action, food uneaten and adjacent; a loading agent does not move)"""
    return [[L.adjacent(*L.apos(s, i), *L.fpos(s, f)) & (a[i] == LOAD) & ~s.food_items.eaten[f] for f in range(env.num_food)]
            for i in range(env.num_agents)]


def documented_reward(lv, Lf, mine, normalize, penalty):
    """(reward[A], eaten_now[F], failed[F], S[F]) from agent levels `lv`, food levels `Lf` (lists of scalars, ints or reals) and the loaders"""
    A, F = len(lv), len(Lf)
    zero = 0 * lv[0]
    tot = sum(Lf)
    S = [sum(jnp.where(mine[i][f], lv[i], zero) for i in range(A)) for f in range(F)]
    now = [S[f] >= Lf[f] for f in range(F)]
    failed = [(S[f] != 0) & (S[f] < Lf[f]) for f in range(F)]
    out = []
    for i in range(A):
        r = jnp.float32(0.0)
        for f in range(F):
            num = jnp.where(mine[i][f] & now[f], lv[i] * Lf[f], zero).astype(jnp.float32)
            if penalty != 0:
                num = num - jnp.where(failed[f], jnp.float32(penalty), jnp.float32(0.0))
            # nan_to_num: nobody loads f => 0/0, documented as "no reward"
            r = r + (jnp.nan_to_num(num / (S[f] * tot)) if normalize else num)
        out.append(r)
    return jnp.stack(out), now, failed, S


def zero_over_zero_axiom(z):
    """natively a tautology (IEEE: nan_to_num(0/0) == 0); in the engine (nan_to_num is the identity, z3's x/0 is unspecified) the axiom 0/0 := 0"""
    return {"z_is_zero": z == 0.0, "nan_to_num_of_zero_over_zero_is_zero": jnp.nan_to_num(jnp.float32(0.0) / z) == 0.0}


def problems(env, cfg, tier):
    from jumanji.environments.routing.lbf import utils as U

    state, ts, a = E.example(env)
    T0 = jnp.int32(env.time_limit)
    A, F = env.num_agents, env.num_food
    norm, pen = bool(env.normalize_reward), float(env.penalty)
    Z0 = jnp.float32(0.0)

    # ---- (A) the real step ------------------------------------------------------------------------------------------------
    def req(T, s, a, z):
        return {**L.inv(env, s, T), "in_spec": E.in_spec(env, a), "T_positive": T >= 1, **zero_over_zero_axiom(z)}

    def ens(T, s, a, z):
        with K.with_attr(env, "time_limit", T):
            s2, ts = env.step(s, a)
        r = ts.reward
        last = ts.step_type == K.LAST
        tot = total_level(s)
        lv = [s.agents.level[i] for i in range(A)]
        Lf = [s.food_items.level[f] for f in range(F)]
        D, now, failed, S = documented_reward(lv, Lf, loaders(env, s, a), norm, pen)
        now_level = sum(jnp.where(now[f], Lf[f], 0) for f in range(F))
        g1, g2 = eaten_level(s), eaten_level(s2)
        out = {
            "C08.reward_is_the_documented_share": r == D,
            # ghost objective: its increment is the level of the food eaten at this step; the normaliser never changes
            "C08.eaten_level_increment_is_level_of_food_eaten_now": g2 - g1 == now_level,
            "C08.food_is_eaten_iff_loaders_levels_suffice": s2.food_items.eaten == (s.food_items.eaten | jnp.stack(now)),
            "C08.food_eaten_now_was_not_eaten_before": ~jnp.stack(now) | ~s.food_items.eaten,
            "C08.total_food_level_is_constant": total_level(s2) == tot,
            "C08.total_food_level_is_positive": tot >= F,
            "C08.objective_between_zero_and_one": (g1 >= 0) & (g1 <= tot) & (g2 >= 0) & (g2 <= tot),
            "C08.all_food_collected_iff_objective_is_one": jnp.all(s2.food_items.eaten) == (g2 == tot),
            "C08.all_food_collected_ends_the_episode": ~jnp.all(s2.food_items.eaten) | last,
            "C08.no_reward_unless_food_is_loaded": jnp.any(jnp.stack(S) != 0) | jnp.all(r == 0.0),
            "canary.agent0_never_moves": s2.agents.position[0, 0] == s.agents.position[0, 0],
        }
        if pen == 0:
            out["C08.reward_is_nonnegative"] = r >= 0.0
            out["C08.no_reward_without_eating"] = (now_level != 0) | (r == 0.0)
        # the invariant the ghost argument rests on is inductive (established at reset below)
        for k, v in L.inv(env, s2, T).items():
            out["C08.inv_" + k] = (last | v) if k == "counter" else v
        return out

    step = dict(title=f"LevelBasedForaging.step_return@{cfg}", args=(T0, state, a, Z0), requires=req, ensures=ens,
                targets=[type(env).step, type(env).get_reward, U.eat_food, U.update_agent_positions], props=("C08",), workers=3,
                note="time_limit is a symbolic scalar T >= 1; z: the 0/0 := 0 axiom of nan_to_num (natively a tautology)")

    # ---- (B) the documented formula adds up (levels as reals >= 1: superset of the integer levels) ----------------------------
    def lreq(lv, Lf, mine, z):
        return {"agent_levels_at_least_one": lv >= 1.0, "food_levels_at_least_one": Lf >= 1.0, **zero_over_zero_axiom(z)}

    def lens(lv, Lf, mine, z):
        lvl, Lfl = [lv[i] for i in range(A)], [Lf[f] for f in range(F)]
        D, now, failed, S = documented_reward(lvl, Lfl, [[mine[i, f] for f in range(F)] for i in range(A)], norm, pen)
        tot = sum(Lfl)
        now_level = sum(jnp.where(now[f], Lfl[f], 0.0) for f in range(F))
        out = {"canary.nobody_is_ever_rewarded": D[0] == 0.0}
        if norm and pen == 0:
            out["C08.documented_shares_times_total_level_add_up_to_level_eaten_now"] = jnp.sum(D) * tot == now_level
            out["C08.documented_shares_of_a_step_are_at_most_one"] = jnp.sum(D) * tot <= tot
        elif not norm:
            # un-normalised: the level of the food is weighted by the levels of its loaders; every agent pays the penalty of every failed load
            raw = sum(jnp.where(now[f], Lfl[f] * S[f], 0.0) for f in range(F))
            nfail = sum(jnp.where(failed[f], 1.0, 0.0) for f in range(F))
            out["C08.raw_rewards_add_up_to_loader_weighted_level_minus_penalties"] = jnp.sum(D) == raw - A * pen * nfail
        else:
            # normalised with a penalty (not documented beyond `penalty`): the failed loads are charged, the eaten food still adds up
            charge = sum(jnp.where(failed[f], A * pen / jnp.where(failed[f], S[f], 1.0), 0.0) for f in range(F))
            out["C08.documented_shares_times_total_level_add_up_to_level_eaten_now_minus_penalties"] = jnp.sum(D) * tot == now_level - charge
        return out

    lemma = dict(title=f"LevelBasedForaging.documented_reward_adds_up@{cfg}", args=(jnp.ones((A,), jnp.float32), jnp.ones((F,), jnp.float32), jnp.zeros((A, F), bool), Z0),
                 requires=lreq, ensures=lens, targets=[type(env).get_reward], props=("C08",),
                 note="pure lemma on the documented formula (function `documented_reward` of this module, the one the step clause compares the real reward with); "
                      "levels are reals >= 1")

    # ---- reset: the ghost return starts at 0 and Inv holds (real generator, samplers replaced by their contracts) --------------
    def reset_ens(key):
        s, ts = env.reset(key)
        out = {"C08.reset_objective_zero": eaten_level(s) == 0,
               "C08.reset_nothing_eaten": ~s.food_items.eaten,
               "C08.reset_total_food_level_is_positive": total_level(s) >= F,
               "C08.reset_reward_zero": ts.reward == 0.0,
               "canary.reset_agent0_in_corner": s.agents.position[0, 0] == 0}
        for k, v in L.inv(env, s, jnp.int32(1)).items():
            out["C08.reset_inv_" + k] = v
        return out

    reset = dict(title=f"LevelBasedForaging.reset_return@{cfg}", args=(jax.random.PRNGKey(0),), ensures=reset_ens, props=("C08",),
                 targets=[type(env).reset, type(env._generator).__call__], merge_over=16, note="real generator, all keys (sampler contracts)")
    return [step, lemma, reset]
