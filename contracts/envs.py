"""Catalogue of environment configurations (all built through the public constructors of /repo).

`ALL[name]` -> dict cfg_name -> thunk.  `quick(name)` / `thorough(name)` select configuration lists (DESIGN.md section 7).
Every proof is per configuration (jaxprs are shape-monomorphic): the configuration list is the stated bound.
"""
import jax
import jax.numpy as jnp


def _mk():
    from jumanji.environments import (CVRP, MMST, TSP, BinPack, Cleaner, Connector, FlatPack, Game2048, GraphColoring, JobShop,
                                      Knapsack, LevelBasedForaging, Maze, Minesweeper, MultiCVRP, PacMan, RobotWarehouse,
                                      RubiksCube, SlidingTilePuzzle, Snake, Sokoban, Sudoku, Tetris)
    from jumanji.environments.logic.graph_coloring.generator import RandomGenerator as GCGen
    from jumanji.environments.logic.minesweeper.generator import UniformSamplingGenerator as MSGen
    from jumanji.environments.logic.minesweeper.reward import DefaultRewardFn as MSReward
    from jumanji.environments.logic.rubiks_cube.generator import ScramblingGenerator
    from jumanji.environments.logic.sliding_tile_puzzle.generator import RandomWalkGenerator as STGen
    from jumanji.environments.logic.sudoku.generator import DatabaseGenerator as SuDB
    from jumanji.environments.logic.sudoku.generator import DummyGenerator as SuDummy
    from jumanji.environments.packing.bin_pack.generator import RandomGenerator as BGen
    from jumanji.environments.packing.bin_pack.generator import ToyGenerator as BToy
    from jumanji.environments.packing.flat_pack.generator import RandomFlatPackGenerator
    from jumanji.environments.packing.job_shop.generator import RandomGenerator as JGen
    from jumanji.environments.packing.knapsack.generator import RandomGenerator as KGen
    from jumanji.environments.routing.cleaner.generator import RandomGenerator as CGen
    from jumanji.environments.routing.connector.generator import RandomWalkGenerator as CoRW
    from jumanji.environments.routing.connector.generator import UniformRandomGenerator as CoU
    from jumanji.environments.routing.cvrp.generator import UniformGenerator as CVGen
    from jumanji.environments.routing.lbf.generator import RandomGenerator as LGen
    from jumanji.environments.routing.maze.generator import RandomGenerator as MGen
    from jumanji.environments.routing.mmst.generator import SplitRandomGenerator as MMGen
    from jumanji.environments.routing.multi_cvrp.generator import UniformRandomGenerator as MCGen
    from jumanji.environments.routing.robot_warehouse.generator import RandomGenerator as RWGen
    from jumanji.environments.routing.sokoban.generator import ToyGenerator as SToy
    from jumanji.environments.routing.tsp.generator import UniformGenerator as TGen
    from jumanji.environments.routing.lbf.observer import GridObserver, VectorObserver  # noqa: F401

    return {
        "Game2048": {"2": lambda: Game2048(board_size=2), "3": lambda: Game2048(board_size=3), "4": lambda: Game2048(board_size=4)},
        "GraphColoring": {"3": lambda: GraphColoring(GCGen(3, 0.5)), "4": lambda: GraphColoring(GCGen(4, 0.5)),
                          "5": lambda: GraphColoring(GCGen(5, 0.5))},
        "Minesweeper": {"2x2m1": lambda: Minesweeper(MSGen(2, 2, 1)), "3x4m3": lambda: Minesweeper(MSGen(3, 4, 3)),
                        "4x3m2": lambda: Minesweeper(MSGen(4, 3, 2)),
                        # reward constants given as Python ints (legal: the reward is configurable): the reward must still be float32
                        "3x3m2ri": lambda: Minesweeper(MSGen(3, 3, 2), reward_function=MSReward(1, -3, -5))},
        "RubiksCube": {"2": lambda: RubiksCube(ScramblingGenerator(2, 3), time_limit=7), "3": lambda: RubiksCube(ScramblingGenerator(3, 3), time_limit=7),
                       "4": lambda: RubiksCube(ScramblingGenerator(4, 2), time_limit=7)},
        "SlidingTilePuzzle": {"2": lambda: SlidingTilePuzzle(STGen(2, 3), time_limit=7), "3": lambda: SlidingTilePuzzle(STGen(3, 3), time_limit=7)},
        # "db": a caller-owned int32 numpy database shared by every instance built from this thunk (constructors must not modify their arguments)
        "Sudoku": {"9x9": lambda: Sudoku(SuDummy()), "db": lambda: Sudoku(SuDB(_sudoku_db()))},
        "Knapsack": {"3": lambda: Knapsack(KGen(3, 1.5)), "5": lambda: Knapsack(KGen(5, 2.0))},
        "JobShop": {"2x2x2x2": lambda: JobShop(JGen(2, 2, 2, 2)), "3x2x2x3": lambda: JobShop(JGen(3, 2, 2, 3))},
        "BinPack": {"i2e3o3": lambda: BinPack(BGen(max_num_items=2, max_num_ems=3, split_num_same_items=1), obs_num_ems=3),
                    "i2e3o2": lambda: BinPack(BGen(max_num_items=2, max_num_ems=3, split_num_same_items=1), obs_num_ems=2),
                    "i2e3o3raw": lambda: BinPack(BGen(max_num_items=2, max_num_ems=3, split_num_same_items=1), obs_num_ems=3,
                                                 normalize_dimensions=False),
                    "i3e4o4": lambda: BinPack(BGen(max_num_items=3, max_num_ems=4, split_num_same_items=1), obs_num_ems=4)},
        "FlatPack": {"2x2": lambda: FlatPack(RandomFlatPackGenerator(2, 2)), "2x3": lambda: FlatPack(RandomFlatPackGenerator(2, 3))},
        "Tetris": {"4x4": lambda: Tetris(4, 4, time_limit=7), "5x4": lambda: Tetris(5, 4, time_limit=7), "4x6": lambda: Tetris(4, 6, time_limit=7)},
        "Cleaner": {"3x5a2": lambda: Cleaner(CGen(3, 5, 2), time_limit=7), "5x3a2": lambda: Cleaner(CGen(5, 3, 2), time_limit=7),
                    "3x3a1": lambda: Cleaner(CGen(3, 3, 1), time_limit=7)},
        "Maze": {"5x7": lambda: Maze(MGen(5, 7), time_limit=7), "7x5": lambda: Maze(MGen(7, 5), time_limit=7), "3x3": lambda: Maze(MGen(3, 3), time_limit=7)},
        "TSP": {"3": lambda: TSP(TGen(3)), "4": lambda: TSP(TGen(4)), "5": lambda: TSP(TGen(5))},
        "CVRP": {"3": lambda: CVRP(CVGen(3, 10, 5)), "4": lambda: CVRP(CVGen(4, 10, 5))},
        "Connector": {"3a2": lambda: Connector(CoU(3, 2), time_limit=7), "4a2": lambda: Connector(CoU(4, 2), time_limit=7),
                      "4a3": lambda: Connector(CoU(4, 3), time_limit=7)},
        "Snake": {"3x3": lambda: Snake(3, 3, time_limit=7), "3x4": lambda: Snake(3, 4, time_limit=7), "4x3": lambda: Snake(4, 3, time_limit=7)},
        "Sokoban": {"toy": lambda: Sokoban(SToy(), time_limit=7)},
        # independent size parameters are chosen DISTINCT (num_agents != num_food), so that a shape taken from the wrong one is visible
        "LevelBasedForaging": {"g6a3f2v": lambda: LevelBasedForaging(LGen(6, 3, 2, 2), time_limit=7),
                               "g6a2f2v": lambda: LevelBasedForaging(LGen(6, 2, 2, 2), time_limit=7),
                               "g6a2f2grid": lambda: LevelBasedForaging(LGen(6, 2, 2, 6), time_limit=7, grid_observation=True)},
        "RobotWarehouse": {"tiny1": lambda: RobotWarehouse(RWGen(1, 3, 1, 1, 1, 2), time_limit=7),
                           "tiny2": lambda: RobotWarehouse(RWGen(1, 3, 1, 2, 1, 2), time_limit=7)},
        "MultiCVRP": {"c6v2": lambda: MultiCVRP(MCGen(6, 2))},
        "MMST": {"default": lambda: MMST(time_limit=7)},
        "PacMan": {"default": lambda: PacMan()},
    }


_SUDOKU_DB = None


def _sudoku_db():
    """two puzzles (the shipped dummy puzzle with one resp. two more cells blanked), 0 = empty, as a caller-owned int32 numpy array"""
    global _SUDOKU_DB
    if _SUDOKU_DB is None:
        import numpy as np
        from jumanji.environments.logic.sudoku.generator import DummyGenerator
        b = np.asarray(DummyGenerator()(jax.random.PRNGKey(0)).board, dtype=np.int32) + 1
        b2 = b.copy()
        b2[b2 > 0][:1] = 0
        _SUDOKU_DB = np.stack([b, b2]).astype(np.int32)
    return _SUDOKU_DB


_ALL = None


def ALL():
    global _ALL
    if _ALL is None:
        _ALL = _mk()
    return _ALL


QUICK = {
    "Game2048": ["2", "3"], "GraphColoring": ["3", "4"], "Minesweeper": ["2x2m1", "3x4m3", "4x3m2", "3x3m2ri"], "RubiksCube": ["2", "3"],
    "SlidingTilePuzzle": ["2", "3"], "Sudoku": ["9x9"], "Knapsack": ["3", "5"], "JobShop": ["2x2x2x2", "3x2x2x3"],
    "BinPack": ["i2e3o3", "i2e3o2", "i2e3o3raw"], "FlatPack": ["2x2"], "Tetris": ["4x4", "5x4"],
    "Cleaner": ["3x5a2", "5x3a2", "3x3a1"], "Maze": ["5x7", "7x5", "3x3"], "TSP": ["3", "4"], "CVRP": ["3", "4"],
    "Connector": ["3a2", "4a2"], "Snake": ["3x3", "3x4", "4x3"], "Sokoban": ["toy"],
    "LevelBasedForaging": ["g6a3f2v", "g6a2f2grid"], "RobotWarehouse": ["tiny1", "tiny2"], "MultiCVRP": ["c6v2"],
    "MMST": ["default"], "PacMan": ["default"],
}


def configs(name, tier):
    allc = ALL()[name]
    names = QUICK[name] if tier == "quick" else list(allc)
    return {c: allc[c] for c in names}


def example(env, seed=0):
    """(state, timestep, action) example values: only their shapes/dtypes/tree structure are used."""
    state, ts = env.reset(jax.random.PRNGKey(seed))
    a = env.action_spec.generate_value()
    return state, ts, a


def in_spec(env, a):
    """the action belongs to the action spec (bounds; shape/dtype are fixed by the trace)"""
    from jumanji import specs
    sp = env.action_spec
    a = jnp.asarray(a)
    if isinstance(sp, specs.DiscreteArray):
        return (a >= 0) & (a < sp.num_values)
    if isinstance(sp, specs.MultiDiscreteArray):
        return (a >= 0) & (a < jnp.asarray(sp.num_values))
    if isinstance(sp, specs.BoundedArray):
        return (a >= jnp.asarray(sp.minimum)) & (a <= jnp.asarray(sp.maximum))
    return jnp.asarray(True)
