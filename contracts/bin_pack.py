"""Sidecar contract for jumanji.environments.packing.bin_pack.env:BinPack.

Rules, written from the class docstring, `types.py`, `space.py` and `reward.py` docstrings:
* the container is the box [0,X]x[0,Y]x[0,Z]; an EMS (empty maximal space) is a box inside the container that does not
  intersect any packed item; the observation shows the `obs_num_ems` EMSs of largest volume, in non-increasing volume
  order (invalid EMSs count as volume 0), items and EMSs divided by the container lengths when `normalize_dimensions`;
* the action (e, i) places item i in the bottom-left corner of the e-th EMS of the observation; it is legal iff that EMS
  is valid, the item is valid, not yet packed, and fits in the EMS (each length <= the EMS length);
* an illegal action is not taken: the episode terminates, the state is untouched, reward 0 (dense) / the current
  utilisation (sparse); the episode also terminates when no action is legal any more;
* dense reward: increase in volume utilisation (item volume / container volume); sparse reward: the utilisation at
  the end of the episode, 0 before.
`state.sorted_ems_indexes[e]` is the state's record of which EMS of the buffer is shown at position e of the observation
(C12 proves that the observation is exactly that selection and that the selection is the documented order).
"""
import contextlib
import copy

import jax
import jax.numpy as jnp

from contracts import common as K
from contracts import envs as E

ENV = "BinPack"
PROPS = ("C01", "C04", "C05", "C06", "C08", "C11", "C12")  # properties this module has clauses for
COORDS = ("x1", "x2", "y1", "y2", "z1", "z2")


def configs(tier):
    from jumanji.environments import BinPack
    from jumanji.environments.packing.bin_pack.generator import RandomGenerator as G
    from jumanji.environments.packing.bin_pack.reward import DenseReward, SparseReward

    g = lambda i, e, **kw: G(max_num_items=i, max_num_ems=e, split_num_same_items=1, **kw)
    out = {"i2e3o3": lambda: BinPack(g(2, 3, container_dims=(800, 1000, 1200)), obs_num_ems=3, reward_fn=DenseReward()),
           # (normalised observation of a container with x < y < z: a coordinate divided by the wrong container length leaves [0, 1])
           "i2e3o2sparse": lambda: BinPack(g(2, 3), obs_num_ems=2, reward_fn=SparseReward()),
           # (a NON-default container: a dimension taken from the 20-ft default instead of the configured container is visible here)
           "i2e3o3raw": lambda: BinPack(g(2, 3, container_dims=(1200, 1000, 800)), obs_num_ems=3, reward_fn=DenseReward(), normalize_dimensions=False)}
    if tier != "quick":
        out["i2e3o2"] = lambda: BinPack(g(2, 3), obs_num_ems=2, reward_fn=DenseReward())
        out["i3e4o4"] = lambda: BinPack(g(3, 4), obs_num_ems=4, reward_fn=DenseReward())
    return out


def sizes(env):
    return env.generator.max_num_items, env.generator.max_num_ems, env.obs_num_ems


# ---- geometry vocabulary (boxes as 6-tuples x1, x2, y1, y2, z1, z2) --------------------------------------------------
def box(space, i=None):
    return tuple(getattr(space, c) if i is None else getattr(space, c)[i] for c in COORDS)


def item_box(s, i):
    L, it = s.items_location, s.items
    return (L.x[i], L.x[i] + it.x_len[i], L.y[i], L.y[i] + it.y_len[i], L.z[i], L.z[i] + it.z_len[i])


def inside(a, b):
    return (a[0] >= b[0]) & (a[1] <= b[1]) & (a[2] >= b[2]) & (a[3] <= b[3]) & (a[4] >= b[4]) & (a[5] <= b[5])


def overlap(a, b):
    """the interiors of the two boxes share a point"""
    r = jnp.asarray(True)
    for k in (0, 2, 4):
        r = r & (a[k] < a[k + 1]) & (b[k] < b[k + 1]) & (a[k] < b[k + 1]) & (b[k] < a[k + 1])
    return r


def fits(s, i, r):
    e, it = s.ems, s.items
    return (it.x_len[i] <= e.x2[r] - e.x1[r]) & (it.y_len[i] <= e.y2[r] - e.y1[r]) & (it.z_len[i] <= e.z2[r] - e.z1[r])


def legal(env, s):
    """(obs_num_ems, max_num_items) rule predicate"""
    I, Em, O = sizes(env)
    rows = []
    for e in range(O):
        row = []
        for i in range(I):
            shown_ok = jnp.asarray(False)
            for r in range(Em):
                shown_ok = shown_ok | ((s.sorted_ems_indexes[e] == r) & s.ems_mask[r] & fits(s, i, r))
            row.append(shown_ok & s.items_mask[i] & ~s.items_placed[i])
        rows.append(jnp.stack(row))
    return jnp.stack(rows)


def pick2(Lm, a):
    r = jnp.asarray(False)
    for e in range(Lm.shape[0]):
        for i in range(Lm.shape[1]):
            r = r | ((a[0] == e) & (a[1] == i) & Lm[e, i])
    return r


def masked_volume(s):
    return s.ems.volume() * s.ems_mask  # `Space.volume` (x_len * y_len * z_len); an invalid EMS counts as volume 0


@contextlib.contextmanager
def abstract_volume():
    """Contract boundary on `Space.volume` while tracing: the volume of a box is an uninterpreted function of its six
    coordinates (what is proved for an arbitrary function holds for the real one; both the implementation and the spec
    `masked_volume` go through it).  Products of three symbolic lengths otherwise make the ordering queries non-linear, and
    the engine's `fmul_uf` product is only syntactically commutative (spurious counterexamples: see the final report).
    Concrete (replay) calls use the real method."""
    from jumanji.environments.packing.bin_pack.space import Space
    from jxv.stubs import uf_call

    real = Space.volume

    def vol(self):
        cs = [jnp.asarray(getattr(self, c)) for c in COORDS]
        if cs[0].ndim == 0 or not any(isinstance(c, jax.core.Tracer) for c in cs):
            return real(self)  # the container's volume (a divisor in the rewards) and concrete calls stay real
        f = lambda *c: uf_call("Space.volume", jnp.zeros((), jnp.float32), *c)
        for _ in range(cs[0].ndim):
            f = jax.vmap(f)
        return f(*cs)

    Space.volume = vol
    try:
        yield
    finally:
        Space.volume = real


def item_volumes(s):
    it = s.items
    return it.x_len.astype(jnp.float32) * it.y_len.astype(jnp.float32) * it.z_len.astype(jnp.float32)


def container_volume(s):
    c = s.container
    return (c.x2 - c.x1).astype(jnp.float32) * (c.y2 - c.y1).astype(jnp.float32) * (c.z2 - c.z1).astype(jnp.float32)


def utilisation(s):
    """documented objective: volume of the packed items / volume of the container"""
    return jnp.sum(item_volumes(s) * s.items_placed) / container_volume(s)


def num_unplaced(s):
    return jnp.sum((s.items_mask & ~s.items_placed).astype(jnp.int32))


def at(arr, idx):
    """arr[idx] for a symbolic in-range idx as an explicit case analysis"""
    v = arr[0]
    for r in range(1, arr.shape[0]):
        v = jnp.where(idx == r, arr[r], v)
    return v


# ---- Feasible (C06) and Inv ------------------------------------------------------------------------------------------
def feasible(env, s):
    I, Em, O = sizes(env)
    C = box(s.container)
    out = {}
    out["placed_item_is_a_valid_item"] = ~s.items_placed | s.items_mask
    out["placed_item_inside_container"] = jnp.stack([jnp.stack([~s.items_placed[i] | c for c in _inside_terms(item_box(s, i), C)])
                                                     for i in range(I)])
    pairs = [~(s.items_placed[i] & s.items_placed[j]) | ~overlap(item_box(s, i), item_box(s, j)) for i in range(I) for j in range(i + 1, I)]
    if pairs:
        out["placed_items_pairwise_interior_disjoint"] = jnp.stack(pairs)
    out["active_ems_inside_container"] = jnp.stack([jnp.stack([~s.ems_mask[e] | c for c in _inside_terms(box(s.ems, e), C)])
                                                    for e in range(Em)])
    out["active_ems_disjoint_from_placed_items"] = jnp.stack([jnp.stack(
        [~(s.ems_mask[e] & s.items_placed[i]) | ~overlap(box(s.ems, e), item_box(s, i)) for i in range(I)]) for e in range(Em)])
    return out


def _inside_terms(a, b):
    return [a[0] >= b[0], a[1] <= b[1], a[2] >= b[2], a[3] <= b[3], a[4] >= b[4], a[5] <= b[5]]


def instance_wellformed(env, s):
    X, Y, Z = env.generator.container_dims
    c, it = s.container, s.items
    return {
        "container_is_the_configured_one": jnp.stack([c.x1 == 0, c.x2 == X, c.y1 == 0, c.y2 == Y, c.z1 == 0, c.z2 == Z]),
        "item_dims_within_container": (it.x_len >= 0) & (it.x_len <= X) & (it.y_len >= 0) & (it.y_len <= Y) & (it.z_len >= 0) & (it.z_len <= Z),
        "valid_item_dims_positive": ~s.items_mask | ((it.x_len > 0) & (it.y_len > 0) & (it.z_len > 0)),
    }


def ems_buffer_in_bounds(env, s):
    """every slot of the EMS buffer (valid or stale) holds coordinates within the container lengths (needed for C01)"""
    X, Y, Z = env.generator.container_dims
    e = s.ems
    return jnp.stack([(e.x1 >= 0) & (e.x1 <= X), (e.x2 >= 0) & (e.x2 <= X), (e.y1 >= 0) & (e.y1 <= Y), (e.y2 >= 0) & (e.y2 <= Y),
                      (e.z1 >= 0) & (e.z1 <= Z), (e.z2 >= 0) & (e.z2 <= Z)])


def sorted_spec(env, s):
    """`sorted_ems_indexes` is the permutation that orders the EMS buffer by non-increasing (masked) volume, ties by index"""
    I, Em, O = sizes(env)
    si, V = s.sorted_ems_indexes, masked_volume(s)
    out = {"sorted_in_range": (si >= 0) & (si < Em)}
    distinct, ordered = [], []
    for k in range(Em):
        for k2 in range(k + 1, Em):
            distinct.append(si[k] != si[k2])
            vk, vk2 = at(V, si[k]), at(V, si[k2])
            ordered.append((vk > vk2) | ((vk == vk2) & (si[k] < si[k2])))
    if distinct:
        out["sorted_is_a_permutation"] = jnp.stack(distinct)
        out["sorted_by_non_increasing_volume_ties_by_index"] = jnp.stack(ordered)
    return out


def inv(env, s, order=True):
    """`order=False` leaves out the (non-linear) volume-ordering conjunct of `sorted_ems_indexes`: used as the (weaker)
    precondition of every clause that does not depend on it"""
    so = sorted_spec(env, s)
    if not order:
        so.pop("sorted_by_non_increasing_volume_ties_by_index", None)
    return {**instance_wellformed(env, s), **feasible(env, s), "ems_buffer_in_bounds": ems_buffer_in_bounds(env, s),
            **so, "cached_mask_is_the_mask": s.action_mask == legal(env, s),
            "not_terminal": jnp.any(s.action_mask)}


def spec_obs(env, s):
    """documented observation of a state (see module docstring)"""
    I, Em, O = sizes(env)
    X, Y, Z = [jnp.asarray(d, jnp.int32) for d in box(s.container)[1::2]]
    div = {"x1": X, "x2": X, "y1": Y, "y2": Y, "z1": Z, "z2": Z, "x_len": X, "y_len": Y, "z_len": Z}
    norm = (lambda v, c: v / div[c]) if env.normalize_dimensions else (lambda v, c: v)
    out = {}
    for c in COORDS:
        out["ems." + c] = jnp.stack([norm(at(getattr(s.ems, c), s.sorted_ems_indexes[k]), c) for k in range(O)])
    out["ems_mask"] = jnp.stack([at(s.ems_mask, s.sorted_ems_indexes[k]) for k in range(O)])
    for c in ("x_len", "y_len", "z_len"):
        out["items." + c] = norm(getattr(s.items, c), c)
    out["items_mask"] = s.items_mask
    out["items_placed"] = s.items_placed
    out["action_mask"] = s.action_mask
    return out


def snapshot(s):
    """a distinct State object with the same leaves.  BinPack's `_pack_item/_update_ems/_make_observation_and_extras` assign to
    the fields of the state object they are given; `lax.cond` normally hands them a fresh object, but under
    `jax.disable_jit()` (used by the replay of problems with abstract functions) it is the caller's object, and `step`
    then overwrites its own argument.  The contract keeps `s` as the pre-state and gives `step` a copy."""
    return copy.copy(s)


def obs_field(o, name):
    v = o
    for part in name.split("."):
        v = getattr(v, part)
    return v


def problems(env, cfg, tier):
    from jumanji.environments.packing.bin_pack.reward import DenseReward, SparseReward
    from jumanji.environments.packing.bin_pack.space import Space

    I, Em, O = sizes(env)
    state, ts, a = E.example(env)
    dense = isinstance(env.reward_fn, DenseReward)
    assert dense or isinstance(env.reward_fn, SparseReward)
    big = I * Em > 6
    T = type(env)

    def req(s, a):
        return {**inv(env, s, order=False), "in_spec": E.in_spec(env, a)}


    ORDER = ("sorted_ems_indexes", "action_mask")  # frame fields whose proof needs the volume order: problem `order` below

    def frame_fields(s, s2):
        out = {}
        for nm, fields in (("container", COORDS), ("ems", COORDS), ("items", ("x_len", "y_len", "z_len")), ("items_location", ("x", "y", "z"))):
            for f in fields:
                out[f"{nm}.{f}"] = getattr(getattr(s2, nm), f) == getattr(getattr(s, nm), f)
        for nm in ("ems_mask", "items_mask", "items_placed", "sorted_ems_indexes", "action_mask", "key"):
            out[nm] = getattr(s2, nm) == getattr(s, nm)
        return out

    def ens(s, a):
        s2, ts = env.step(snapshot(s), a)
        o = ts.observation
        ok = pick2(legal(env, s), a)
        last = ts.step_type == K.LAST
        L2 = legal(env, s2)
        chosen = a[1] == jnp.arange(I)
        out = {
            # C04
            "C04.mask_is_exactly_the_legal_moves": o.action_mask == L2,
            "C04.cached_mask_is_the_mask": s2.action_mask == L2,
            "C04.legal_move_not_treated_as_invalid": ~ok | ~ts.extras["invalid_action"],
            "C04.legal_move_is_executed": ~ok | ~chosen | s2.items_placed,
            # (the new cached mask IS the rule on the new state, element-wise, by C04.cached_mask_is_the_mask: `any` is taken over it)
            "C04.legal_move_ends_episode_iff_no_legal_move_is_left": ~ok | (last == ~jnp.any(s2.action_mask)),
            "C04.illegal_move_is_treated_as_invalid": ok | (ts.extras["invalid_action"] & last),
            # C05 (terminate on invalid, state untouched)
            "C05.illegal_is_last": ok | last,
            "C05.illegal_discount_zero": ok | (ts.discount == 0.0),
            "C05.illegal_reward_is_documented": ok | (ts.reward == (0.0 if dense else utilisation(s))),
            # C08 (ghost return = utilisation of the state)
            "C08.utilisation_increases_by_the_packed_item": s2_util_step(s, s2, ok, chosen),
            # C11 (no time limit: every MID step packs one more item)
            "C11.variant_decreases": last | (num_unplaced(s2) < num_unplaced(s)),
            "C11.variant_decreases_by_one_on_legal_steps": ~ok | (num_unplaced(s2) == num_unplaced(s) - 1),
            "C11.variant_bounded": (num_unplaced(s) >= 1) & (num_unplaced(s) <= I),
            "C11.never_earlier": ~last | ~ok | ~jnp.any(s2.action_mask),  # s2.action_mask == legal(s2): C04.cached_mask_is_the_mask
            "C11.never_later": last | jnp.any(s2.action_mask),
            # special case of never_later whose refutation needs no EMS geometry (keeps a counterexample search cheap)
            "C11.never_later_when_every_valid_item_is_packed": last | ~jnp.all(s2.items_placed | ~s2.items_mask),
            "canary.no_item_is_ever_packed": (s2.items_placed == s.items_placed).all(),
        }
        if dense:
            out["C08.dense_reward_is_utilisation_increment"] = ts.reward == utilisation(s2) - utilisation(s)
        else:
            out["C08.sparse_reward_is_final_utilisation"] = ts.reward == jnp.where(last, utilisation(s2), 0.0)
        # special case (unit cubes: all products are constants) of the two clauses above, cheap to refute when they are wrong
        it = s.items
        unit = jnp.all((it.x_len == 1) & (it.y_len == 1) & (it.z_len == 1))
        cnt = lambda st: jnp.sum(st.items_placed.astype(jnp.float32))
        if dense:
            out["C08.dense_reward_unit_items_case"] = ~unit | (ts.reward == (cnt(s2) - cnt(s)) / container_volume(s))
        else:
            out["C08.sparse_reward_unit_items_case"] = ~unit | (ts.reward == jnp.where(last, cnt(s2) / container_volume(s), 0.0))
        out["C08.extras_report_the_utilisation"] = ts.extras["volume_utilization"] == utilisation(s2)
        for k, v in frame_fields(s, s2).items():
            if k not in ORDER:
                out["C05.illegal_state_untouched." + k] = ok | v
        for k, v in spec_obs(env, s2).items():
            out["C12.obs." + k] = obs_field(o, k) == v
        for k, v in inv(env, s2, order=False).items():
            if k not in feasible(env, s) and k not in sorted_spec(env, s):  # geometry: problem `geo`; sorted_*: problem `order`
                out["C06.inv_" + k] = (last | v) if k == "not_terminal" else v
        # C01 with a cut: (lemma) every slot of the new EMS buffer is within the container lengths -- proved here as its own
        # obligations -- and (lemma => bound of the observed, selected and normalised, EMS coordinate).  The direct clause needs
        # the geometric argument inside the sort/gather/division query and takes 20-60 s per element.
        lemma = ems_buffer_in_bounds(env, s2)
        out["C01.lemma_new_ems_buffer_within_container_lengths"] = lemma
        for k, v in K.spec_bounds(env.observation_spec, o, "C01.step_obs_bounds").items():
            out[k] = (~jnp.all(lemma) | v) if ".ems." in k else v
        return out

    def s2_util_step(s, s2, ok, chosen):
        gain = jnp.sum(item_volumes(s) * (ok & chosen)) / container_volume(s)
        return utilisation(s2) == utilisation(s) + gain

    step = dict(title=f"BinPack.step@{cfg}", args=(state, a), requires=req, ensures=ens, workers=6, timeout=300,
                props=("C01", "C04", "C05", "C06", "C08", "C11", "C12"),
                targets=[T.step, T._make_observation_and_extras, T._get_set_of_largest_ems, T._get_action_mask, T._normalize_ems_and_items,
                         T._pack_item, T._update_ems, type(env.reward_fn).__call__])

    # everything that depends on the ORDER of the EMS volumes (products of three symbolic lengths): products are kept as a
    # commutative uninterpreted function (fmul_uf), so the queries are linear arithmetic + UF
    def order_req(s, a):
        with abstract_volume():
            return {**inv(env, s), "in_spec": E.in_spec(env, a)}

    def order_ens_for(frame):
        def order_ens(s, a):
            with abstract_volume():
                s2, ts = env.step(snapshot(s), a)
                ok = pick2(legal(env, s), a)
                identical = jnp.asarray(True)  # canary scenario in which the order does not depend on the volume function
                for c in COORDS:
                    identical = identical & (getattr(s.ems, c) == getattr(s.ems, c)[0]).all()
                out = {"canary.no_item_is_ever_packed_into_identical_ems": ~(identical & s.ems_mask.all()) | (s2.items_placed == s.items_placed).all()}
                if frame:
                    fr = frame_fields(s, s2)
                    for k in ORDER:
                        out["C05.illegal_state_untouched." + k] = ok | fr[k]
                else:
                    for k, v in sorted_spec(env, s2).items():  # also on LAST steps
                        out["C12.selection_" + k] = v
                        out["C06.inv_" + k] = v
            if not frame:
                e = s.ems
                out["C12.volume_is_the_product_of_the_lengths"] = e.volume() == ((e.x2 - e.x1).astype(jnp.float32) * (e.y2 - e.y1).astype(jnp.float32)
                                                                               * (e.z2 - e.z1).astype(jnp.float32))
            return out
        return order_ens

    order_note = ("Space.volume is a contract boundary here (uninterpreted function of the coordinates); its own contract is "
                  "C12.volume_is_the_product_of_the_lengths")
    order = dict(title=f"BinPack.step(volume order)@{cfg}", args=(state, a), requires=order_req, ensures=order_ens_for(False), workers=1,
                 timeout=300, fmul_uf=True, props=("C06", "C12"), note=order_note,
                 targets=[T.step, T._make_observation_and_extras, T._get_set_of_largest_ems, Space.volume])
    # (fmul_uf off: the engine's uninterpreted product is only syntactically commutative, which gives spurious
    #  counterexamples when the same product is formed over the old and over the new state)
    order_frame = dict(title=f"BinPack.step(volume order, illegal action)@{cfg}", args=(state, a), requires=order_req, ensures=order_ens_for(True),
                       workers=1, timeout=300, props=("C05",), note=order_note,
                       targets=[T.step, T._make_observation_and_extras, T._get_set_of_largest_ems, Space.volume])

    # C06 proper: the geometric invariant, one obligation per conjunct (the monolithic query is `unknown` after 600 s).
    # Weaker precondition than Inv (everything below is implied by it): geometry + the cached mask is SOUND + indexes in range.
    def geo_req(s, a):
        c = box(s.container)
        sound = []
        for e in range(O):
            for i in range(I):
                for r in range(Em):
                    sound.append(~(s.action_mask[e, i] & (s.sorted_ems_indexes[e] == r))
                                 | (s.ems_mask[r] & s.items_mask[i] & ~s.items_placed[i] & fits(s, i, r)))
        it = s.items
        return {**feasible(env, s), "container_at_origin": jnp.stack([c[0] == 0, c[2] == 0, c[4] == 0, c[1] > 0, c[3] > 0, c[5] > 0]),
                "item_dims_positive": (it.x_len > 0) | ~s.items_mask, "item_dims_positive_y": (it.y_len > 0) | ~s.items_mask,
                "item_dims_positive_z": (it.z_len > 0) | ~s.items_mask,
                "cached_mask_is_sound": jnp.stack(sound), "sorted_in_range": (s.sorted_ems_indexes >= 0) & (s.sorted_ems_indexes < Em),
                "in_spec": E.in_spec(env, a)}

    def geo_ens(s, a):
        s2, ts = env.step(snapshot(s), a)
        out = {"canary.no_item_is_ever_packed": (s2.items_placed == s.items_placed).all()}
        for k, v in feasible(env, s2).items():  # after ANY in-spec action (an illegal one leaves the state untouched), also on LAST
            out["C06.feasible_" + k] = v
        out["C06.completion_every_valid_item_packed_means_last"] = ~jnp.all(s2.items_placed | ~s2.items_mask) | (ts.step_type == K.LAST)
        return out

    geo = dict(title=f"BinPack.step(geometry)@{cfg}", args=(state, a), requires=geo_req, ensures=geo_ens, workers=14,
               timeout=900 if big else 300, props=("C06",),
               targets=[T.step, T._pack_item, T._update_ems, T._get_intersections_dict, T._add_ems, Space.intersection, Space.intersect,
                        Space.is_empty, Space.is_included, Space.hyperplane],
               note="split per conjunct; precondition = geometric part of Inv + soundness of the cached mask")

    # function-level contracts on Space (C06 anchors): boxes with arbitrary int32 coordinates; a unit cell p = [p, p+1)^3
    z = jnp.int32(0)
    sp0 = Space(x1=z, x2=z, y1=z, y2=z, z1=z, z2=z)

    def cell_in(p, b):
        return (b[0] <= p[0]) & (p[0] + 1 <= b[1]) & (b[2] <= p[1]) & (p[1] + 1 <= b[3]) & (b[4] <= p[2]) & (p[2] + 1 <= b[5])

    def space_ens(A, B, Cc, p):
        a_, b_, c_ = box(A), box(B), box(Cc)
        inter = A.intersection(B)
        i_ = box(inter)
        out = {
            "C06.Space.is_empty_iff_no_unit_cell_fits_some_axis": A.is_empty() == ((a_[1] - a_[0] <= 0) | (a_[3] - a_[2] <= 0) | (a_[5] - a_[4] <= 0)),
            "C06.Space.no_cell_in_an_empty_space": ~A.is_empty() | ~cell_in(p, a_),
            "C06.Space.is_included_is_coordinatewise": A.is_included(B) == inside(a_, b_),
            "C06.Space.is_included_reflexive": A.is_included(A),
            "C06.Space.is_included_transitive": ~(A.is_included(B) & B.is_included(Cc)) | A.is_included(Cc),
            "C06.Space.included_means_every_cell": ~(A.is_included(B) & cell_in(p, a_)) | cell_in(p, b_),
            "C06.Space.intersection_is_lower_bound": inter.is_included(A) & inter.is_included(B),
            "C06.Space.intersection_is_greatest_lower_bound": ~(Cc.is_included(A) & Cc.is_included(B)) | Cc.is_included(inter),
            "C06.Space.intersection_cells": cell_in(p, i_) == (cell_in(p, a_) & cell_in(p, b_)),
            "C06.Space.intersect_iff_interiors_meet": A.intersect(B) == overlap(a_, b_),
            "C06.Space.intersect_symmetric": A.intersect(B) == B.intersect(A),
            "C06.Space.common_cell_implies_intersect": ~(cell_in(p, a_) & cell_in(p, b_)) | A.intersect(B),
            "canary.spaces_always_intersect": A.intersect(B),
        }
        # hyperplanes of the item box A clipped to the EMS B: the six clipped boxes avoid A and together cover B minus A
        clipped, covered = {}, cell_in(p, a_)
        for ax, k in (("x", 0), ("y", 2), ("z", 4)):
            for d in ("lower", "upper"):
                h = A.hyperplane(ax, d).intersection(B)
                hb = list(b_)
                if d == "lower":
                    hb[k + 1] = jnp.minimum(b_[k + 1], a_[k])
                else:
                    hb[k] = jnp.maximum(b_[k], a_[k + 1])
                clipped[f"{ax}_{d}"] = jnp.stack([jnp.asarray(g, jnp.float32) == jnp.asarray(w, jnp.float32) for g, w in zip(box(h), hb)])
                hbx = tuple(hb)
                out[f"C06.Space.hyperplane_{ax}_{d}_clip_avoids_the_item"] = ~overlap(hbx, a_)
                out[f"C06.Space.hyperplane_{ax}_{d}_clip_inside_the_ems"] = ~(cell_in(p, hbx)) | cell_in(p, b_)
                covered = covered | cell_in(p, hbx)
        for k2, v in clipped.items():
            out[f"C06.Space.hyperplane_{k2}_intersection_is_the_clipped_ems"] = v
        out["C06.Space.six_clips_cover_the_ems_minus_the_item"] = ~cell_in(p, b_) | covered
        return out

    space = dict(title=f"BinPack.Space@{cfg}", args=(sp0, sp0, sp0, jnp.zeros((3,), jnp.int32)), requires=None, ensures=space_ens,
                 props=("C06",), targets=[Space.intersection, Space.intersect, Space.is_empty, Space.is_included, Space.hyperplane])

    # the mask function alone == the rule (all arguments)
    def mask_ens(oe, oem, items, im, ip):
        got = env._get_action_mask(oe, oem, items, im, ip)
        want = jnp.stack([jnp.stack([oem[e] & im[i] & ~ip[i] & (items.x_len[i] <= oe.x2[e] - oe.x1[e]) & (items.y_len[i] <= oe.y2[e] - oe.y1[e])
                                     & (items.z_len[i] <= oe.z2[e] - oe.z1[e]) for i in range(I)]) for e in range(O)])
        return {"C04.mask_fn_is_the_rule": got == want, "canary.mask_fn_all_false": ~got.any()}

    obs_ems0 = jax.tree_util.tree_map(lambda x: x[:O], state.ems)
    mask_fn = dict(title=f"BinPack._get_action_mask@{cfg}", args=(obs_ems0, state.ems_mask[:O], state.items, state.items_mask, state.items_placed),
                   requires=None, ensures=mask_ens, props=("C04",), targets=[T._get_action_mask])

    # function-level contracts of the reward classes (C08 anchors), for arbitrary (state, action, next_state, is_valid, is_done)
    def rew_req(s, a, s2, valid, done):
        return {"in_spec": E.in_spec(env, a), "container": instance_wellformed(env, s)["container_is_the_configured_one"],
                "next_container": instance_wellformed(env, s2)["container_is_the_configured_one"],
                "item_dims": instance_wellformed(env, s)["item_dims_within_container"],
                "next_item_dims": instance_wellformed(env, s2)["item_dims_within_container"]}

    def rew_ens(s, a, s2, valid, done):
        r = env.reward_fn(s, a, s2, valid, done)
        unit = lambda st: jnp.all((st.items.x_len == 1) & (st.items.y_len == 1) & (st.items.z_len == 1))
        if dense:
            chosen = a[1] == jnp.arange(I)
            out = {"C08.DenseReward_is_item_volume_over_container_volume_if_valid":
                       r == jnp.where(valid, jnp.sum(item_volumes(s) * chosen) / container_volume(s), 0.0),
                   "C08.DenseReward_unit_items_case": ~unit(s) | (r == jnp.where(valid, 1.0 / container_volume(s), 0.0)),
                   "C05.DenseReward_zero_if_invalid": valid | (r == 0.0)}
        else:
            out = {"C08.SparseReward_is_next_utilisation_if_done_else_zero": r == jnp.where(done, utilisation(s2), 0.0),
                   "C08.SparseReward_unit_items_case": ~unit(s2) | (r == jnp.where(done, jnp.sum(s2.items_placed.astype(jnp.float32))
                                                                                    / container_volume(s2), 0.0)),
                   "C05.SparseReward_is_utilisation_of_the_untouched_state_if_invalid": ~done | (r == utilisation(s2))}
        out["canary.reward_is_always_zero"] = r == 0.0
        return out

    reward_fn = dict(title=f"BinPack.{type(env.reward_fn).__name__}@{cfg}", args=(state, a, state, jnp.asarray(True), jnp.asarray(True)),
                     requires=rew_req, ensures=rew_ens, props=("C05", "C08"), targets=[type(env.reward_fn).__call__])

    # reset with the generator as a contract boundary (while loop + samplers; its post-condition is C10's obligation)
    def gen_post(g, key):
        c = box(g.container)
        first_is_container = jnp.stack([box(g.ems, 0)[k] == c[k] for k in range(6)])
        return {**instance_wellformed(env, g), "ems_buffer_in_bounds": ems_buffer_in_bounds(env, g),
                "first_ems_is_the_container": first_is_container, "only_first_ems_active": g.ems_mask == (jnp.arange(Em) == 0),
                "nothing_placed": ~g.items_placed, "some_valid_item": jnp.any(g.items_mask)}

    def reset_ens(g, key):
        s, ts = K.reset_from(env, "generator", g, key)
        o = ts.observation
        out = {"C04.reset_mask_is_exactly_the_legal_moves": o.action_mask == legal(env, s),
               "C04.reset_cached_mask_is_the_mask": s.action_mask == legal(env, s),
               "C08.reset_ghost_return_zero": utilisation(s) == 0.0,
               "C11.reset_variant_bounded": (num_unplaced(s) >= 1) & (num_unplaced(s) <= I),
               "canary.reset_every_item_valid": s.items_mask.all()}
        for k, v in spec_obs(env, s).items():
            out["C12.reset_obs." + k] = obs_field(o, k) == v
        for k, v in inv(env, s).items():
            out["C06.reset_inv_" + k] = v
            if k in sorted_spec(env, s):
                out["C12.reset_selection_" + k] = v
        out.update(K.spec_bounds(env.observation_spec, o, "C01.reset_obs_bounds"))
        return out

    reset = dict(title=f"BinPack.reset@{cfg}", args=(state, jax.random.PRNGKey(0)), requires=gen_post, ensures=reset_ens, workers=4,
                 targets=[T.reset, T._make_observation_and_extras],
                 note="generator replaced by its post-condition (contract boundary; the generator's own contract is C10)")
    return [step, order, order_frame, geo, space, mask_fn, reward_fn, reset]



def _any_(bools):
    r = jnp.asarray(False)
    for b in bools:
        r = r | b
    return r


# ---- loop invariant of RandomGenerator._split_container_into_items_spaces (used by C10 and by the generator-post obligations) ----
def split_loop_inv(NI, dims):
    """invariant of RandomGenerator._split_container_into_items_spaces' while loop: valid item spaces are non-empty, inside the container and pairwise disjoint"""
    AX, LIM = ("x", "y", "z"), dict(zip("xyz", dims))

    def inv(sp, m):
        out = {}
        for a in AX:
            lo, hi = getattr(sp, a + "1"), getattr(sp, a + "2")
            out["items_non_empty_inside_container_" + a] = ~m | ((lo >= 0) & (lo < hi) & (hi <= LIM[a]))
            # every slot of the buffer, used or not, holds an ordered interval inside the container (unused slots start as copies of the container;
            # the environment's observation spec bounds the item sizes of ALL slots)
            out["every_slot_ordered_inside_container_" + a] = (lo >= 0) & (lo <= hi) & (hi <= LIM[a])
        dis = []
        for i in range(NI):
            for j in range(i + 1, NI):
                sep = _any_([(getattr(sp, a + "2")[i] <= getattr(sp, a + "1")[j]) | (getattr(sp, a + "2")[j] <= getattr(sp, a + "1")[i]) for a in AX])
                dis.append(~(m[i] & m[j]) | sep)
        if dis:
            out["items_pairwise_disjoint"] = jnp.stack(dis)
        return out
    return inv


