"""Helpers shared by the sidecar contracts."""
import contextlib
import copy

import jax
import jax.numpy as jnp

FIRST, MID, LAST = 0, 1, 2


@contextlib.contextmanager
def with_attr(obj, name, value):
    """Temporarily set an attribute of the environment (e.g. a traced, hence symbolic, time limit) around a call."""
    old = getattr(obj, name)
    object.__setattr__(obj, name, value)
    try:
        yield
    finally:
        object.__setattr__(obj, name, old)


def reset_from(env, gen_attr, state, key):
    """env.reset(key) with the generator replaced by a CONTRACT BOUNDARY: the generator returns `state`
    (a symbolic state constrained by the generator's post-condition in `requires`)."""
    st = copy.copy(state)
    with with_attr(env, gen_attr, lambda k: st):
        return env.reset(key)


def all_(*xs):
    r = jnp.asarray(True)
    for x in xs:
        r = r & jnp.all(x)
    return r


def spec_bounds(spec, value, prefix):
    """clauses `min <= leaf <= max` for every bounded leaf of a (possibly nested) spec"""
    from jumanji import specs

    out = {}
    # NB: Array/BoundedArray/... are themselves subclasses of specs.Spec (with empty _specs): test the leaf classes first
    if isinstance(spec, specs.MultiDiscreteArray):
        v = jnp.asarray(value)
        out[prefix] = (v >= 0) & (v < jnp.asarray(spec.num_values))
    elif isinstance(spec, specs.BoundedArray):  # includes DiscreteArray
        v = jnp.asarray(value)
        if v.dtype != bool:
            out[prefix] = (v >= jnp.asarray(spec.minimum)) & (v <= jnp.asarray(spec.maximum))
    elif isinstance(spec, specs.Array):
        pass
    elif isinstance(spec, specs.Spec):
        for k, sub in spec._specs.items():
            v = getattr(value, k) if hasattr(value, k) else value[k]
            out.update(spec_bounds(sub, v, f"{prefix}.{k}"))
    return out


def declared_time_bounds(env, leaf, T):
    """(lo, hi) declared by the REAL observation_spec for `leaf` as a function of the symbolic time limit T.  The real spec property is
    evaluated (cache bypassed) at two concrete limits; bounds that move with the limit must be affine with slope 0 or 1 in it - anything else is
    refused (the caller then has no C01 clause for the leaf and the zero-obligation/baseline guard fires)."""
    import numpy as np

    prop = type(env).__dict__.get("observation_spec") or next(c.__dict__["observation_spec"] for c in type(env).__mro__ if "observation_spec" in c.__dict__)
    fn = getattr(prop, "func", None) or prop.fget
    t0 = 5  # two concrete probe limits (env.time_limit itself may be the symbolic T at this point)
    res = []
    for t in (t0, t0 + 3):
        with with_attr(env, "time_limit", t), jax.ensure_compile_time_eval():  # the spec is built eagerly even inside a trace
            sp = fn(env)
        sub = sp._specs[leaf]
        res.append((np.asarray(sub.minimum), np.asarray(sub.maximum)))
    out = []
    for a, b in zip(res[0], res[1]):
        d = b - a
        if np.all(d == 0):
            out.append(jnp.asarray(a))
        elif np.all(d == 3):
            out.append(T + jnp.asarray(a - t0))
        else:
            raise ValueError(f"declared bound of {leaf} is not affine (slope 0/1) in time_limit: {a} -> {b}")
    return tuple(out)


def spec_avals(spec, shaped, prefix):
    """[(name, ok, detail)]: structure, shape and dtype of an abstract value against a (possibly nested) spec"""
    from jumanji import specs

    out = []
    if isinstance(spec, specs.Spec) and not isinstance(spec, specs.Array):
        ok = type(shaped) is spec._constructor or (hasattr(spec._constructor, "__wrapped__") and isinstance(shaped, spec._constructor))
        try:
            ok = ok or isinstance(shaped, spec._constructor)
        except TypeError:
            pass
        out.append((prefix + ".structure", bool(ok), {"got": type(shaped).__name__, "spec": getattr(spec._constructor, "__name__", str(spec._constructor))}))
        for k, sub in spec._specs.items():
            try:
                v = getattr(shaped, k) if hasattr(shaped, k) else shaped[k]
            except Exception:
                out.append((f"{prefix}.{k}.present", False, None))
                continue
            out.extend(spec_avals(sub, v, f"{prefix}.{k}"))
    else:
        ok = tuple(shaped.shape) == tuple(spec.shape) and jnp.dtype(shaped.dtype) == jnp.dtype(spec.dtype)
        out.append((prefix + ".aval", bool(ok), {"got": [list(shaped.shape), str(shaped.dtype)], "spec": [list(spec.shape), str(spec.dtype)]}))
    return out


def tree_eq(a, b):
    la, lb = jax.tree_util.tree_leaves(a), jax.tree_util.tree_leaves(b)
    assert len(la) == len(lb), (len(la), len(lb))
    r = jnp.asarray(True)
    for x, y in zip(la, lb):
        r = r & jnp.all(jnp.asarray(x) == jnp.asarray(y))
    return r
