"""Sidecar contract for MultiCVRP's hard constraints (C06), written after a seeded change (wrong permutation in the duplicate-destination
resolution, visible only with >= 3 vehicles) was missed: the environment sanitises every in-spec joint action (a vehicle whose choice is
infeasible, or which loses a conflict, is sent to the depot), so the clauses hold for ANY in-spec action, not only mask-respecting ones."""
import jax
import jax.numpy as jnp

from contracts import common as K
from contracts import envs as E

ENV = "MultiCVRP"
PROPS = ["C06"]


def configs(tier):
    from jumanji.environments import MultiCVRP
    from jumanji.environments.routing.multi_cvrp.generator import UniformRandomGenerator as G
    out = {"c6v2": lambda: MultiCVRP(G(6, 2)), "c6v3": lambda: MultiCVRP(G(6, 3))}
    # (the generator accepts only 2 or 3 vehicles for 6 customers, the smallest instance; 20 customers is out of reach of the element-wise proof)
    return out


def problems(env, cfg, tier):
    state, ts, a = E.example(env)
    V, N = env._num_vehicles, env._num_customers + 1

    def inv(s):
        return {"demands_non_negative": s.nodes.demands >= 0, "depot_has_no_demand": s.nodes.demands[0] == 0,
                "capacities_in_range": (s.vehicles.capacities >= 0) & (s.vehicles.capacities <= env._max_capacity),
                "positions_are_nodes": (s.vehicles.positions >= 0) & (s.vehicles.positions < N),
                "step_count_in_range": (s.step_count >= 0) & (s.step_count < s.order.shape[1])}

    def req(s, act):
        return {**inv(s), "in_spec": E.in_spec(env, act)}

    def ens(s, act):
        s2, ts2 = env.step(s, act)
        pos, cap = s2.vehicles.positions, s2.vehicles.capacities
        dem, dem2 = s.nodes.demands, s2.nodes.demands
        out = {}
        pairs = [(i, j) for i in range(V) for j in range(i + 1, V)]
        out["C06.no_customer_is_served_by_two_vehicles"] = jnp.stack([(pos[i] != pos[j]) | (pos[i] == 0) for i, j in pairs])
        out["C06.load_never_exceeds_capacity"] = (cap >= 0) & (cap <= env._max_capacity)
        served = jnp.stack([jnp.any(pos == c) for c in range(N)])          # node c is some vehicle's destination
        old_d = jnp.stack([dem[jnp.clip(pos[i], 0, N - 1)] for i in range(V)])
        out["C06.a_served_customer_had_open_demand_within_the_vehicle_capacity"] = (pos == 0) | ((old_d > 0) & (old_d <= s.vehicles.capacities))
        out["C06.capacity_is_debited_exactly_by_the_served_demand"] = cap == jnp.where(pos == 0, env._max_capacity, s.vehicles.capacities - old_d)
        out["C06.served_customers_are_closed_and_the_others_untouched"] = dem2 == jnp.where(served, 0, dem)
        out["C06.vehicles_stay_on_the_node_table"] = (pos >= 0) & (pos < N)
        # a vehicle goes where it asked to go unless its choice was infeasible or contested; it is never sent to a customer it did not choose
        out["C06.destination_is_the_chosen_node_or_the_depot"] = (pos == act) | (pos == 0)
        chosen_ok = jnp.stack([(dem[jnp.clip(act[i], 0, N - 1)] > 0) & (s.vehicles.capacities[i] >= dem[jnp.clip(act[i], 0, N - 1)]) for i in range(V)])
        alone = jnp.stack([jnp.all(jnp.stack([(act[j] != act[i]) | ~chosen_ok[j] for j in range(V) if j != i])) if V > 1 else jnp.asarray(True) for i in range(V)])
        out["C06.an_uncontested_feasible_choice_is_honoured"] = ~(chosen_ok & alone) | (pos == act)
        contested = [jnp.any(jnp.stack([(act[j] == act[i]) & chosen_ok[j] for j in range(V) if j != i])) if V > 1 else jnp.asarray(False) for i in range(V)]
        out["C06.a_contested_customer_is_served_by_exactly_one_of_the_contenders"] = jnp.stack(
            [~(chosen_ok[i] & contested[i]) | (jnp.sum(jnp.stack([(pos[j] == act[i]) & (act[j] == act[i]) for j in range(V)])) == 1) for i in range(V)])
        for k, v in inv(s2).items():
            if k != "step_count_in_range":
                out["C06.inv_" + k] = v
        out["canary.no_vehicle_ever_leaves_the_depot"] = jnp.all(pos == 0)
        return out

    step = dict(title=f"MultiCVRP.step(hard constraints)@{cfg}", args=(state, a), requires=req, ensures=ens,
                targets=[type(env).step, type(env)._update_state], timeout=300)
    return [step]
