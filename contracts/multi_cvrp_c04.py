"""Sidecar contract for jumanji.environments.routing.multi_cvrp.env:MultiCVRP -- C04 (mask = legal moves per vehicle) and C08 (rewards add up
to the documented objective; DenseReward and SparseReward give the same return on the same trajectory).

Rules (docstrings of env.py / utils.py / types.py / reward.py):
* node 0 is the depot, nodes 1..N are customers with an integer demand; a served customer's demand is set to 0 (that is how "visited by
  somebody" is represented: no vehicle can serve it again).  A vehicle may go to customer n iff n still has a non-zero demand and the demand
  fits in what is left of the vehicle's capacity ("The action is valid if the node has a non-zero demand and the vehicle has enough capacity");
  "The depot is always a valid action"; going to the depot restores the capacity.  The time windows are SOFT (a penalty, never a legality
  condition).  The mask is "the marginal action mask for each vehicle" (per vehicle, the others' simultaneous choices are not considered).
* the environment sanitises the joint action: an invalid choice sends the vehicle (back) to the depot; when several vehicles validly choose
  the same customer exactly one of them serves it and the others are sent to the depot.
* objective: "the negative sum of the distances between consecutive nodes at the end of the episode over all agents.  All time penalties are
  also added to the reward."  Penalty on arrival at a node (PenalityCoeff docstring): (start - t) * early if t < start, (t - end) * late if
  t > end, nothing inside the window, with t the vehicle's local time at arrival (speed 1: one unit of time per unit of distance).
  "If the maximum step limit is reached, the reward is set to an estimate of the worst case reward that can still be achieved"
  (utils.worst_case_remaining_reward, evaluated here through the real function: no closed form is documented).
* the episode ends when every customer is served and every vehicle is back at the depot, or when the step horizon 2 * N is hit.

C08 by ghost return: objective(s) = -(sum distances + sum time_penalties) + [horizon passed] * worst_case_remaining_reward(s) is a function of
the state alone; DenseReward must pay objective(s') - objective(s), SparseReward objective(s') at LAST and 0 before, so both returns telescope
to objective(final state) (objective(reset state) = 0).  Both reward functions are evaluated on the SAME symbolic transition (the real step is
called once with each).  The accumulators themselves are tied to the documented rules step by step (edge travelled, penalty at arrival) and to
the route recorded in `order`.

KNOWN FINDING (kept, with stable names): on the step that hits the horizon both reward functions return only the worst-case remaining term:
SparseReward drops everything travelled so far, DenseReward (which has been paying the distance step by step) drops the last edge, hence
  C08.sparse_return_equals_dense_return_when_truncated_at_the_horizon
comes back `sat` with confirmed replays (reachable from reset by mask-respecting play: e.g. 6 customers / 2 vehicles, PRNGKey(0), vehicle 0 serves
its first masked-in customer on step 1 and everybody then picks the always-legal depot until the horizon: dense return -166.03, sparse -161.05).

Engine notes: (1) fmul_uf's product is commutative only up to the syntactic identity of its arguments, so the time-penalty rule (a product) is
proved in a separate problem with interpreted products; (2) the cover query (satisfiability of `requires` plus the sqrt >= 0 side facts of every
norm in `ensures`) is erratic in z3 (0.1 s or timeout depending on the seed / term numbering): the preconditions are kept small (no cached mask
in the C08 problems, no sum-form route invariant) and the per-problem timeout at 120 s."""
import jax.numpy as jnp

from contracts import common as K
from contracts import envs as E

ENV = "MultiCVRP"
PROPS = ("C04", "C08")


def configs(tier):
    from jumanji.environments import MultiCVRP
    from jumanji.environments.routing.multi_cvrp.generator import UniformRandomGenerator as G
    # num_vehicles != num_customers + 1 != 2 * num_customers; 3 vehicles exercise the conflict resolution beyond one pair
    out = {"c6v2-c04": lambda: MultiCVRP(G(6, 2)), "c6v3-c04": lambda: MultiCVRP(G(6, 3))}
    return out


# ---- rules, restated over the raw arrays with explicit case analysis (no gather / scatter / vmap) -------------------------------------------
def at_node(env, u, table, default):
    """table[u] for a symbolic node index u (default outside 0..N)"""
    r = default
    for n in range(env._num_customers + 1):
        r = jnp.where(u == n, table[n], r)
    return r


def legal(env, demands, capacities):
    """legal[v, n]: the documented rule, per vehicle"""
    rows = []
    for v in range(env._num_vehicles):
        row = [jnp.asarray(True)]                                                        # the depot is always allowed
        for n in range(1, env._num_customers + 1):
            row.append((demands[n] > 0) & (demands[n] <= capacities[v]))                 # open demand that fits
        rows.append(jnp.stack(row))
    return jnp.stack(rows)


def legal_choice(env, s, act):
    """legal[v, act[v]] for every vehicle"""
    lg = legal(env, s.nodes.demands, s.vehicles.capacities)
    return jnp.stack([at_node(env, act[v], lg[v], jnp.asarray(False)) for v in range(env._num_vehicles)])


def inv(env, s, mask=True):
    N = env._num_customers
    out = {
        "counter": (s.step_count >= 1) & (s.step_count <= 2 * N),
        "positions_are_nodes": (s.vehicles.positions >= 0) & (s.vehicles.positions <= N),
        "demands_in_range": (s.nodes.demands >= 0) & (s.nodes.demands <= env._max_capacity),
        "depot_has_no_demand": s.nodes.demands[0] == 0,
        "capacities_in_range": (s.vehicles.capacities >= 0) & (s.vehicles.capacities <= env._max_capacity),
    }
    if mask:   # (only C04 needs it; leaving it out of the C08 preconditions keeps their cover query easy)
        out["cached_mask_is_the_legal_moves"] = s.action_mask == legal(env, s.nodes.demands, s.vehicles.capacities)
    return out


def inv8(env, s):
    """what C08 adds (read from the code): the clock of a vehicle is the distance it has travelled (speed 1), accumulators and problem data have
    their sign / range, no two vehicles stand on the same customer and the customers the vehicles stand on are closed"""
    V = env._num_vehicles
    pos = s.vehicles.positions
    return {
        "local_time_is_distance_travelled": s.vehicles.local_times == s.vehicles.distances,
        "distances_non_negative": s.vehicles.distances >= 0.0,
        "time_penalties_non_negative": s.vehicles.time_penalties >= 0.0,
        "coordinates_on_the_map": (s.nodes.coordinates >= 0.0) & (s.nodes.coordinates <= env._map_max),
        "windows_in_range": (s.windows.start >= 0.0) & (s.windows.start <= s.windows.end) & (s.windows.end <= env._max_end_window),
        "coeffs_in_range": (s.coeffs.early >= 0.0) & (s.coeffs.early <= env._late_coef_rand[-1])
                           & (s.coeffs.late >= 0.0) & (s.coeffs.late <= env._late_coef_rand[-1]),
        "vehicles_stand_on_closed_nodes": jnp.stack([at_node(env, pos[v], s.nodes.demands, jnp.int16(0)) == 0 for v in range(V)]),
        "no_two_vehicles_on_the_same_customer": jnp.stack([(pos[i] != pos[j]) | (pos[i] == 0) for i in range(V) for j in range(i + 1, V)]),
    }


def coords_of(env, s, u):
    """coordinates of node u; case analysis u <= 0, u == 1, ..., u >= N (the out-of-range cases never arise under the invariants: stating them
    as the nearest node spares the solver the range argument inside every distance term)"""
    N = env._num_customers
    xy = s.nodes.coordinates[N]
    for n in reversed(range(N)):
        xy = jnp.where(u <= n, s.nodes.coordinates[n], xy)
    return xy


def edge(env, s, u, w):
    """Euclidean distance between nodes u and w"""
    return jnp.linalg.norm(coords_of(env, s, u) - coords_of(env, s, w))


def documented_penalty(t, start, end, early, late):
    return jnp.where(t < start, (start - t) * early, 0.0) + jnp.where(t > end, (t - end) * late, 0.0)


def travelled(s):
    """minus (total distance travelled by all vehicles + all time penalties)"""
    return -(jnp.sum(s.vehicles.distances) + jnp.sum(s.vehicles.time_penalties))


# ---- the route recorded in `order`: order[v, 0] is the depot, order[v, t] the node vehicle v moved to on step t (step_count starts at 1) --------
def inv_route(env, s):
    """stated by cases over the value k of the step counter (k - 1 moves have been recorded); non-terminal states: 1 <= k <= 2N"""
    V, N = env._num_vehicles, env._num_customers
    return {
        "route_entries_are_nodes": (s.order >= 0) & (s.order <= N),
        "route_starts_at_the_depot": s.order[:, 0] == 0,
        "vehicle_stands_at_the_end_of_its_route": jnp.stack(
            [jnp.stack([(s.step_count != k) | (s.vehicles.positions[v] == s.order[v, k - 1]) for k in range(1, 2 * N + 1)]) for v in range(V)]),
    }


def problems(env, cfg, tier):
    from jumanji.environments.routing.multi_cvrp.reward import DenseReward, SparseReward
    from jumanji.environments.routing.multi_cvrp.utils import compute_time_penalties, create_action_mask, worst_case_remaining_reward

    state, ts, a0 = E.example(env)
    V, N = env._num_vehicles, env._num_customers
    M = env._max_capacity
    T = type(env)

    def req(s, act):
        return {**inv(env, s), "in_spec": E.in_spec(env, act)}

    # ================================================================================================================= C04
    def ens4(s, act):
        s2, ts2 = env.step(s, act)
        o = ts2.observation
        pos2, cap, cap2 = s2.vehicles.positions, s.vehicles.capacities, s2.vehicles.capacities
        dem, dem2 = s.nodes.demands, s2.nodes.demands
        ok = legal_choice(env, s, act)
        customer = act != 0
        want = jnp.stack([at_node(env, act[v], dem, jnp.int16(0)) for v in range(V)])          # demand of the chosen node
        rival = [jnp.any(jnp.stack([(act[j] == act[v]) & ok[j] for j in range(V) if j != v])) & customer[v] for v in range(V)]
        rival = jnp.stack(rival)
        out = {
            "C04.mask_is_exactly_the_legal_moves": o.action_mask == legal(env, dem2, cap2),
            "C04.cached_mask_is_the_mask": s2.action_mask == o.action_mask,
            "C04.inv_cached_mask_is_the_legal_moves": s2.action_mask == legal(env, dem2, cap2),
            # the environment's own reaction, per vehicle
            "C04.legal_move_not_treated_as_invalid": ~(ok & ~rival) | (
                (pos2 == act) & (cap2 == jnp.where(customer, cap - want, M))),
            "C04.legal_customer_is_served": jnp.stack(
                [jnp.stack([~(ok[v] & ~rival[v] & (act[v] == n)) | (dem2[n] == 0) for n in range(1, N + 1)]) for v in range(V)]),
            "C04.illegal_move_is_treated_as_invalid": ok | ((pos2 == 0) & (cap2 == M)),
            "C04.illegal_move_serves_nobody": jnp.stack(
                [jnp.any(ok & (act == n)) | (dem2[n] == dem[n]) for n in range(1, N + 1)]),
            # several vehicles legally choosing the same customer: exactly one serves it, the others are sent to the depot (never anywhere else)
            "C04.contested_customer_is_served_by_exactly_one_contender": jnp.stack(
                [~(ok[v] & rival[v]) | (jnp.sum(jnp.stack([jnp.where((pos2[j] == act[v]) & (act[j] == act[v]), 1, 0) for j in range(V)])) == 1)
                 for v in range(V)]),
            "C04.a_vehicle_goes_where_it_asked_or_to_the_depot": (pos2 == act) | (pos2 == 0),
            "C04.the_mask_always_offers_the_depot": o.action_mask[:, 0],
            "canary.the_mask_never_closes_a_customer": jnp.all(o.action_mask == s.action_mask),
        }
        i2 = inv(env, s2)
        for k in ("positions_are_nodes", "demands_in_range", "depot_has_no_demand", "capacities_in_range"):
            out["C04.inv_" + k] = i2[k]
        out["C04.inv_counter"] = (ts2.step_type == K.LAST) | i2["counter"]
        return out

    step4 = dict(title=f"MultiCVRP.step(mask)@{cfg}", args=(state, a0), requires=req, ensures=ens4, props=("C04",),
                 targets=[T.step, T._update_state, T._state_to_observation, create_action_mask], timeout=120)

    # the mask function alone, for ANY demands / capacities (no invariant)
    def mask_ens(demands, capacities):
        m = create_action_mask(demands, capacities)
        return {"C04.mask_fn_is_the_rule": m == legal(env, demands, capacities),
                "canary.mask_fn_allows_only_the_depot": ~jnp.any(m[:, 1:])}

    maskfn = dict(title=f"MultiCVRP.create_action_mask@{cfg}", args=(state.nodes.demands, state.vehicles.capacities), requires=None, ensures=mask_ens,
                  props=("C04",), targets=[create_action_mask])

    # ================================================================================================================= C08
    dense, sparse = DenseReward(V, N, env._map_max), SparseReward(V, N, env._map_max)

    def objective(s):
        """the documented objective as a function of the state alone"""
        return travelled(s) + jnp.where(s.step_count > 2 * N, worst_case_remaining_reward(s), 0.0)

    def req8(s, act):
        return {"in_spec": E.in_spec(env, act), **inv(env, s, mask=False), **inv_route(env, s), **inv8(env, s)}

    def ens8(s, act):
        with K.with_attr(env, "_reward_fn", dense):
            s2, tsd = env.step(s, act)
        with K.with_attr(env, "_reward_fn", sparse):
            s2s, tss = env.step(s, act)
        rd, rs = tsd.reward, tss.reward
        last = tsd.step_type == K.LAST
        pos, pos2 = s.vehicles.positions, s2.vehicles.positions
        truncated = s2.step_count > 2 * N                                                         # the step horizon is hit
        completed = jnp.all(s2.nodes.demands[1:] == 0) & jnp.all(pos2 == 0)                       # everybody served, everybody home
        P, P2 = objective(s), objective(s2)
        d = jnp.stack([edge(env, s, pos[v], pos2[v]) for v in range(V)])                           # edge travelled by each vehicle
        out = {
            # ---- the two reward functions see the same transition and the same episode end
            "C08.same_transition_under_both_reward_functions": K.tree_eq(s2, s2s),
            "C08.same_step_type_under_both_reward_functions": tsd.step_type == tss.step_type,
            "C08.last_is_completion_or_horizon": last == (completed | truncated),
            "C08.step_type_is_mid_or_last": last | (tsd.step_type == K.MID),
            # ---- ghost return, the cases that hold
            "C08.dense_reward_is_the_objective_increment": truncated | (rd == P2 - P),
            "C08.sparse_reward_is_zero_before_the_end": last | (rs == 0.0),
            "C08.sparse_reward_at_completion_is_the_objective_of_the_final_state": ~(last & ~truncated) | (rs == P2),
            "C08.sparse_return_equals_dense_return_at_completion": ~(last & ~truncated) | (rs == P + rd),
            "C08.objective_at_completion_is_minus_distance_and_penalties": ~(last & ~truncated) | (P2 == travelled(s2)),
            # ---- ghost return on the step that hits the horizon (KNOWN FINDING, see the module docstring)
            "C08.sparse_return_equals_dense_return_when_truncated_at_the_horizon": ~truncated | (rs == P + rd),
            # (no clause "the horizon reward is the objective (increment)": the documentation says that at the step limit the reward IS the
            #  worst-case estimate - proved just below - and the property does not list MultiCVRP among the return = objective environments;
            #  what the property does state for every environment with two reward functions is dense return == sparse return, kept above)
            # what does hold there: both are the documented worst-case term of the final state
            "C08.both_rewards_at_the_horizon_are_the_worst_case_term": ~truncated | ((rd == worst_case_remaining_reward(s2)) & (rs == rd)),
            # ---- the accumulators follow the documented rules
            "C08.distance_accumulator_grows_by_the_edge_travelled": s2.vehicles.distances == s.vehicles.distances + d,
            "C08.clock_advances_by_the_edge_travelled": s2.vehicles.local_times == s.vehicles.local_times + d,
            "C08.problem_data_is_frozen": K.tree_eq((s2.nodes.coordinates, s2.windows, s2.coeffs), (s.nodes.coordinates, s.windows, s.coeffs)),
            # the route is recorded (slot 2N does not exist: the visit of the horizon step is the vehicles' final position only)
            "C08.route_history_records_the_visit": jnp.stack(
                [jnp.stack([s2.order[v, t] == jnp.where(s.step_count == t, pos2[v], s.order[v, t]) for t in range(2 * N)]) for v in range(V)]),
            # (with C08.inv_vehicle_stands_at_the_end_of_its_route this is frame + balance for "distances[v] is the length of the route recorded in
            # order[v, 0 .. step_count - 1]": the edge travelled joins the last recorded node to the newly recorded one.  The sum form of that ghost
            # invariant was tried: single obligations of 20-40 s with 3 vehicles, and equations with uninterpreted norms in `requires` do not replay)
            "C08.routes_end_at_the_depot_at_completion": ~(last & ~truncated) | (pos2 == 0),
            "canary.no_vehicle_ever_travels": jnp.all(s2.vehicles.distances == s.vehicles.distances),
        }
        for k, v in inv_route(env, s2).items():      # slot 2N does not exist: claimed up to the horizon step
            out["C08.inv_" + k] = truncated | v
        for k, v in {**inv(env, s2, mask=False), **inv8(env, s2)}.items():
            if k == "counter":
                v = last | v
            if k != "time_penalties_non_negative":      # sign of a product: proved in the problem below, where products are interpreted
                out["C08.inv_" + k] = v
        return out

    step8 = dict(title=f"MultiCVRP.step(dense and sparse rewards)@{cfg}", args=(state, a0), requires=req8, ensures=ens8, props=("C08",), fmul_uf=True,
                 targets=[T.step, T._update_state, DenseReward.__call__, SparseReward.__call__, worst_case_remaining_reward], timeout=120,
                 note="both reward functions on the same symbolic transition; products and norms uninterpreted (fmul_uf)")

    # the time penalties: products of two symbolic floats, INTERPRETED here (fmul_uf's product is commutative only up to syntactic identity of its
    # arguments: with the rule restated by case analysis the uninterpreted version comes back `sat` with a model that does not replay natively)
    def ens8p(s, act):
        s2, ts2 = env.step(s, act)
        pos2 = s2.vehicles.positions
        t = s2.vehicles.local_times      # the clock at arrival (== old clock + edge travelled: C08.clock_advances_by_the_edge_travelled)
        pen = jnp.stack([documented_penalty(t[v], at_node(env, pos2[v], s.windows.start, 0.0), at_node(env, pos2[v], s.windows.end, 0.0),
                                            at_node(env, pos2[v], s.coeffs.early, 0.0), at_node(env, pos2[v], s.coeffs.late, 0.0)) for v in range(V)])
        return {"C08.penalty_accumulator_grows_by_the_documented_penalty_at_arrival": s2.vehicles.time_penalties == s.vehicles.time_penalties + pen,
                "C08.no_penalty_inside_the_time_window": jnp.stack(
                    [~((t[v] >= at_node(env, pos2[v], s.windows.start, 0.0)) & (t[v] <= at_node(env, pos2[v], s.windows.end, 0.0)))
                     | (s2.vehicles.time_penalties[v] == s.vehicles.time_penalties[v]) for v in range(V)]),
                "C08.inv_time_penalties_non_negative": inv8(env, s2)["time_penalties_non_negative"],
                "canary.vehicle0_never_leaves_the_depot": pos2[0] == 0}     # (kept free of products: a model must be found)

    step8p = dict(title=f"MultiCVRP.step(time penalties)@{cfg}", args=(state, a0), requires=req8, ensures=ens8p, props=("C08",), fmul_uf=False,
                  targets=[T.step, T._update_state, compute_time_penalties], timeout=120, note="products interpreted (nonlinear real arithmetic)")

    # ================================================================================================================= reset
    def reset_ens(key):
        s, ts0 = env.reset(key)
        o = ts0.observation
        out = {
            "C04.reset_mask_is_exactly_the_legal_moves": o.action_mask == legal(env, s.nodes.demands, s.vehicles.capacities),
            "C04.reset_cached_mask_is_the_mask": s.action_mask == o.action_mask,
            "C08.reset_objective_zero": objective(s) == 0.0,
            "C08.reset_nothing_travelled": (s.vehicles.distances == 0.0) & (s.vehicles.time_penalties == 0.0) & (s.vehicles.local_times == 0.0),
            "C08.reset_everybody_at_the_depot_with_an_empty_route": jnp.all(s.vehicles.positions == 0) & jnp.all(s.order == 0),
            "canary.reset_first_customer_has_no_demand": s.nodes.demands[1] == 0,
        }
        for k, v in inv(env, s).items():
            out["C04.reset_inv_" + k] = v
            if k != "cached_mask_is_the_legal_moves":
                out["C08.reset_inv_" + k] = v
        for k, v in {**inv8(env, s), **inv_route(env, s)}.items():
            out["C08.reset_inv_" + k] = v
        return out

    reset = dict(title=f"MultiCVRP.reset(mask, objective)@{cfg}", args=(jnp.zeros((2,), jnp.uint32),), requires=None, ensures=reset_ens,
                 targets=[T.reset, type(env._generator).__call__], note="generator evaluated with the sampler contracts (all sampler outcomes)")
    return [step4, maskfn, step8, step8p, reset]
