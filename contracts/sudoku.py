"""Sidecar contract for jumanji.environments.logic.sudoku.env:Sudoku.

Rules (from the class docstring and the game): a 9x9 board, empty cells are -1, filled cells 0..8.  An action
(row, col, digit) is legal iff the cell is empty and the digit does not yet occur in the row, the column or the 3x3 box
of the cell.  A legal action writes the digit.  An illegal action ends the episode with reward 0 (the docstring
promises nothing about the board then).  The episode also ends when no action is available; the reward is 1 "at the end
of the episode if the board is valid" (the board is full and every row, column and box holds every digit exactly once)
and 0 otherwise.

Everything below is written with explicit per-unit loops (rows, columns, 3x3 slices), independently of the one-hot /
BOX_IDX gather-scatter style of `utils.get_action_mask` and of the sort-based `utils.is_puzzle_solved`.

Modular step (engine limitation: 27 rank-encoded sorts in one scalar are out of reach of z3, a single row takes 20 s):
`utils.is_puzzle_solved` is verified at function level against the rule `solved` in two lemmas on the REAL code
  (i)  is_puzzle_solved(board) == AND over the 27 units of _validate_row(unit)       (all int32 boards)
  (ii) _validate_row(v) <=> "v holds digits only and no digit twice"                  (all int32 rows; `_validate_row`
       is the real nested function, re-materialised from the code object of `is_puzzle_solved`)
and inside the `step` problem the callee `is_puzzle_solved` (as imported by reward.py) is replaced by its proven
contract `solved` (contract boundary on a callee, GUIDE "Engine limits").  The lemmas are emitted under every property
whose clauses depend on the reward (C05, C06, C09)."""
import contextlib
import types

import jax.numpy as jnp
import numpy as np

from contracts import common as K
from contracts import envs as E

ENV = "Sudoku"
PROPS = ("C01", "C04", "C05", "C06", "C09", "C11", "C12")
N = 9
DIGITS = range(N)
INVALID_REWARD = 0.0  # docstring: "reward: 1 at the end of the episode if the board is valid, 0 otherwise"
I, J = np.meshgrid(np.arange(N), np.arange(N), indexing="ij")
REWARD_DEPENDENT = ("C05", "C06", "C09")


def units(board):
    """the 27 units (9 rows, 9 columns, 9 boxes), each a vector of 9 cells"""
    rows = [board[r, :] for r in range(N)]
    cols = [board[:, c] for c in range(N)]
    boxes = [board[3 * br:3 * br + 3, 3 * bc:3 * bc + 3].reshape(-1) for br in range(3) for bc in range(3)]
    return rows + cols + boxes


def count(v):
    """(9,): how often digit d occurs in the vector v"""
    return jnp.stack([jnp.sum((v == d).astype(jnp.int32)) for d in DIGITS])


def counts(board):
    """(27, 9): how often digit d occurs in unit u"""
    return jnp.stack([count(u) for u in units(board)])


def feasible(board):
    """(27,) no digit twice in a row / column / box"""
    return jnp.all(counts(board) <= 1, axis=1)


def full(board):
    return jnp.all(board >= 0)


def unit_complete(v):
    """the 9 cells hold digits only and no digit twice (hence, 9 cells / 9 digits, every digit exactly once: lemma
    `C06.full_valid_row_holds_every_digit_exactly_once`)"""
    return jnp.all((v >= 0) & (v < N)) & jnp.all(count(v) <= 1)


def solved(board):
    """the board is full and valid: every row, column and box holds digits only and no digit twice"""
    return jnp.all(jnp.stack([unit_complete(u) for u in units(board)]))


def legal(board):
    """(9, 9, 9) rule predicate: cell empty and digit absent from its row, column and box"""
    row_has = jnp.stack([jnp.stack([jnp.any(board[r, :] == d) for d in DIGITS]) for r in range(N)])  # (r, d)
    col_has = jnp.stack([jnp.stack([jnp.any(board[:, c] == d) for d in DIGITS]) for c in range(N)])  # (c, d)
    box_has = jnp.stack([jnp.stack([jnp.stack([jnp.any(board[3 * br:3 * br + 3, 3 * bc:3 * bc + 3] == d) for d in DIGITS])
                                    for bc in range(3)]) for br in range(3)])  # (br, bc, d)
    box_has = jnp.repeat(jnp.repeat(box_has, 3, axis=0), 3, axis=1)  # (r, c, d)
    empty = board == -1
    return empty[:, :, None] & ~row_has[:, None, :] & ~col_has[None, :, :] & ~box_has


def empties(board):
    return jnp.sum((board == -1).astype(jnp.int32))


def alphabet(board):
    """(9,) per row: cells in -1..8"""
    return jnp.all((board >= -1) & (board <= N - 1), axis=1)


def inv(s):
    return {
        "cells_in_alphabet": alphabet(s.board),
        "feasible": feasible(s.board),
        "cached_mask_is_the_mask": s.action_mask == legal(s.board),
        # a state in which no action is available is terminal (step: done = invalid | no_actions_available)
        "non_terminal": jnp.any(legal(s.board)),
    }


def nested(fn, name):
    """the real nested function `name` of `fn` (no free variables), rebuilt from fn's code object"""
    for c in fn.__code__.co_consts:
        if isinstance(c, types.CodeType) and c.co_name == name:
            assert not c.co_freevars, c.co_freevars
            return types.FunctionType(c, fn.__globals__, name)
    raise LookupError(name)


@contextlib.contextmanager
def callee_replaced(module, name, contract):
    old = getattr(module, name)
    setattr(module, name, contract)
    try:
        yield
    finally:
        setattr(module, name, old)


def problems(env, cfg, tier):
    from jumanji.environments.logic.sudoku import reward as R
    from jumanji.environments.logic.sudoku import utils as U
    from jumanji.environments.logic.sudoku.generator import DatabaseGenerator

    state, ts, a = E.example(env)
    Env = type(env)

    def req(s, a):
        return {**inv(s), "in_spec": E.in_spec(env, a)}

    def ens(s, a):
        with callee_replaced(R, "is_puzzle_solved", solved):  # proven contract of the callee, see Sudoku.is_puzzle_solved*
            s2, ts = env.step(s, a)
        r, c, d = a[0], a[1], a[2]
        L, L2 = legal(s.board), legal(s2.board)
        ok = L[r, c, d]
        last = ts.step_type == K.LAST
        o = ts.observation
        target = (I == r) & (J == c)
        placed = jnp.where(target, d, s.board)
        full2, solved2 = full(s2.board), solved(s2.board)
        stuck2 = ~jnp.any(L2)
        out = {
            "C04.mask_is_exactly_the_legal_moves": o.action_mask == L2,
            "C04.cached_mask_is_the_mask": s2.action_mask == o.action_mask,  # (and the handed-out mask is the rule, above)
            "C04.legal_move_not_treated_as_invalid": ~ok | (last == stuck2),
            "C04.legal_move_is_executed": ~ok | (s2.board[r, c] == d),
            "C04.inv_non_terminal": last | jnp.any(L2),
            "C05.illegal_is_last": ok | last,
            "C05.illegal_reward_is_documented": ok | (ts.reward == INVALID_REWARD),
            "C06.legal_play_keeps_units_duplicate_free": ~ok | feasible(s2.board),
            "C06.legal_play_keeps_alphabet": ~ok | alphabet(s2.board),
            # completion: a full board reached by a legal move is full and valid (per unit), is LAST and rewarded
            "C06.full_board_after_legal_play_is_a_solution": jnp.stack([~(ok & full2) | unit_complete(u) for u in units(s2.board)]),
            "C06.full_board_after_legal_play_ends_the_episode": ~(ok & full2) | last,
            "C09.full_valid_board_is_last_and_rewarded": ~(full2 & solved2) | (last & (ts.reward == 1.0)),
            "C06.rewarded_end_is_a_full_valid_board": (ts.reward != 1.0) | (last & full2 & solved2 & feasible(s2.board).all()),
            # Inv' on MID steps = (MID => the action was legal) + the two legal_play clauses + the C04 mask clauses
            "C06.inv_mid_step_was_legal": last | ok,
            "C06.inv_non_terminal": last | jnp.any(L2),
            "C09.board_legal_placement": ~ok | (s2.board == placed),
            "C09.board_frame_any_action": target | (s2.board == s.board),
            "C09.reward": ts.reward == jnp.where(full2 & solved2, 1.0, 0.0),
            "C09.last": last == (~ok | stuck2),
            "C09.key_unchanged": (s2.key == s.key).all(),
            # (9, 9) case split on the targeted cell (exhaustive by in_spec): one big sum comparison times out
            "C11.variant_decreases": ~target | last | (empties(s2.board) < empties(s.board)),
            "C11.variant_decreases_by_one_on_legal": ~target | ~ok | (empties(s2.board) == empties(s.board) - 1),
            "C11.last_only_for_a_documented_reason": ~last | ~ok | stuck2,
            "C11.variant_bounded": (empties(s.board) >= 1) & (empties(s.board) <= N * N),
            "C12.obs.board": o.board == s2.board,
            "C12.obs.action_mask": o.action_mask == s2.action_mask,
            "canary.target_cell_never_changes": s2.board[r, c] == s.board[r, c],
        }
        out.update(K.spec_bounds(env.observation_spec, o, "C01.step_obs_bounds"))
        return out

    step = dict(title=f"Sudoku.step@{cfg}", args=(state, a), requires=req, ensures=ens, workers=3,
                targets=[Env.step, U.apply_action, U.get_action_mask, type(env._reward_fn).__call__],
                note="callee utils.is_puzzle_solved replaced by its contract `solved` (proved in Sudoku.is_puzzle_solved*)")

    # ---- function level: the mask function is the rule on EVERY int32 board (no invariant at all)
    def fn_ens(board):
        return {"C04.mask_fn_is_the_rule": U.get_action_mask(board) == legal(board),
                "canary.no_action_ever_available": ~U.get_action_mask(board).any()}

    fn = dict(title=f"Sudoku.get_action_mask@{cfg}", args=(state.board,), requires=lambda board: {}, ensures=fn_ens, workers=3,
              targets=[U.get_action_mask])

    # ---- function level: the contract of is_puzzle_solved (lemmas (i) and (ii) of the module docstring)
    VR = nested(U.is_puzzle_solved, "_validate_row")
    assert R.is_puzzle_solved is U.is_puzzle_solved

    def row_ens(v):
        out = {"canary.no_row_is_valid": ~VR(v)}
        for p in REWARD_DEPENDENT:
            out[f"{p}.validate_row_implies_digits_only"] = ~VR(v) | ((v >= 0) & (v < N))
            out[f"{p}.validate_row_implies_no_digit_twice"] = ~VR(v) | (count(v) <= 1)
            if p != "C09":
                continue  # C05 "an illegal move is never rewarded" / C06 "a rewarded end is a full valid board" only need real => rule
            # (case split on the value of the first cell: one obligation takes 20-70 s, the nine cases ~3 s each)
            out[f"{p}.full_valid_row_implies_validate_row.case_first_cell_is"] = jnp.stack(
                [~(unit_complete(v) & (v[0] == k)) | VR(v) for k in DIGITS])
            out[f"{p}.full_valid_row_implies_validate_row.cases_are_exhaustive"] = ~unit_complete(v) | ((v[0] >= 0) & (v[0] < N))
        out["C06.full_valid_row_holds_every_digit_exactly_once"] = ~unit_complete(v) | (count(v) == 1)
        return out

    row = dict(title=f"Sudoku.is_puzzle_solved._validate_row@{cfg}", args=(state.board[0],), requires=lambda v: {}, ensures=row_ens,
               workers=1, targets=[U.is_puzzle_solved])

    # index patterns: PATTERN is a complete valid sudoku over the indices 0..8; bad_x breaks exactly one kind of unit
    PATTERN = np.array([[(3 * (r % 3) + r // 3 + c) % N for c in range(N)] for r in range(N)])
    bad_rows = PATTERN.copy(); bad_rows[[0, 1], 0] = PATTERN[[1, 0], 0]  # swap two cells of one column and box: rows 0, 1 repeat an entry
    bad_cols = PATTERN.copy(); bad_cols[0, [0, 1]] = PATTERN[0, [1, 0]]  # swap two cells of one row and box: columns 0, 1 repeat an entry
    bad_boxes = PATTERN.copy(); bad_boxes[[2, 3]] = PATTERN[[3, 2]]      # swap two rows of different bands: only boxes repeat entries

    def comp_ens(board):
        conj = jnp.all(jnp.stack([VR(u) for u in units(board)]))
        out = {"canary.no_board_is_full": ~full(board)}
        for p in REWARD_DEPENDENT:
            out[f"{p}.is_puzzle_solved_is_validate_row_on_the_27_units"] = U.is_puzzle_solved(board) == conj
            # concrete instances of the lemma (fold to constants, no solver cost): a dropped row / column / box check makes
            # the lemma above `unknown` (a counterexample is a Latin square, hard to find through 27 rank-encoded sorts);
            # these instances turn such a defect into a replayable violation
            out[f"{p}.a_complete_valid_board_is_solved"] = U.is_puzzle_solved(jnp.asarray(PATTERN, jnp.int32))
            out[f"{p}.board_with_repeats_in_rows_only_is_not_solved"] = ~U.is_puzzle_solved(jnp.asarray(bad_rows, jnp.int32))
            out[f"{p}.board_with_repeats_in_columns_only_is_not_solved"] = ~U.is_puzzle_solved(jnp.asarray(bad_cols, jnp.int32))
            out[f"{p}.board_with_repeats_in_boxes_only_is_not_solved"] = ~U.is_puzzle_solved(jnp.asarray(bad_boxes, jnp.int32))
        return out

    comp = dict(title=f"Sudoku.is_puzzle_solved@{cfg}", args=(state.board,), requires=lambda board: {}, ensures=comp_ens,
                targets=[U.is_puzzle_solved])

    # ---- reset with the configured generator (DummyGenerator: one constant puzzle -> everything folds to constants)
    def reset_clauses(s, ts, with_non_terminal=True):
        o = ts.observation
        out = {"C04.reset_mask_is_exactly_the_legal_moves": o.action_mask == legal(s.board),
               "C04.reset_cached_mask_is_the_mask": s.action_mask == o.action_mask,
               "C12.reset_obs.board": o.board == s.board,
               "C12.reset_obs.action_mask": o.action_mask == s.action_mask,
               "C11.reset_variant_bounded": (empties(s.board) >= 0) & (empties(s.board) <= N * N),
               "C06.reset_inv_cells_in_alphabet": alphabet(s.board),
               "C06.reset_inv_feasible": feasible(s.board)}
        if with_non_terminal:
            out["C06.reset_inv_non_terminal"] = jnp.any(legal(s.board))
            out["C04.reset_inv_non_terminal"] = jnp.any(legal(s.board))
        out.update(K.spec_bounds(env.observation_spec, o, "C01.reset_obs_bounds"))
        return out

    def reset_ens(key):
        s, ts = env.reset(key)
        return {**reset_clauses(s, ts), "canary.reset_board_is_full": full(s.board)}

    reset = dict(title=f"Sudoku.reset@{cfg}", args=(state.key,), requires=lambda key: {}, ensures=reset_ens,
                 targets=[Env.reset, type(env._generator).__call__], note="the configured generator (constant puzzle)")

    # ---- reset, generator as a CONTRACT BOUNDARY: a symbolic generated state constrained by the generator's
    # post-condition (board entries in range and conflict-free, mask = get_action_mask(board) which is the rule by
    # Sudoku.get_action_mask, and the puzzle offers at least one move)
    def gen_post(g, key):
        return inv(g)

    def gen_ens(g, key):
        s, ts = K.reset_from(env, "_generator", g, key)
        return {**reset_clauses(s, ts), "canary.reset_board_has_one_empty_cell": empties(s.board) == 1}

    reset_gen = dict(title=f"Sudoku.reset[generator boundary]@{cfg}", args=(state, state.key), requires=gen_post, ensures=gen_ens,
                     props=("C01", "C06", "C11", "C12"),  # (C04 at reset is proved on the real generators, not assumed)
                     targets=[Env.reset], note="generator replaced by its post-condition (contract boundary; the generator's own "
                                               "contract is C10; the shipped DatabaseGenerator is exercised in the next problem)")

    # ---- reset with the shipped DatabaseGenerator; CONTRACT BOUNDARY = the database: a symbolic database of 2 puzzles in
    # the documented format (0 empty, 1..9 filled) with entries in range and conflict-free.  The real generator code
    # (randint -> take -> -1 -> get_action_mask) and the real reset run on it; this establishes the generator
    # post-condition used above (membership in the database carries over "offers at least one move").
    db0 = jnp.zeros((2, N, N), jnp.int32)

    def db_req(db, key):
        out = {"entries_in_range": (db >= 0) & (db <= N)}
        for i in range(db0.shape[0]):
            out[f"conflict_free_{i}"] = feasible(db[i] - 1)
        return out

    def db_ens(db, key):
        with K.with_attr(env, "_generator", DatabaseGenerator(database=db)):
            s, ts = env.reset(key)
        member = (s.board == db[0] - 1).all() | (s.board == db[1] - 1).all()
        return {**reset_clauses(s, ts, with_non_terminal=False),
                "C09.reset_board_is_a_database_puzzle": member, "C06.reset_board_is_a_database_puzzle": member,
                "canary.reset_always_picks_puzzle_0": (s.board == db[0] - 1).all()}

    reset_db = dict(title=f"Sudoku.reset[DatabaseGenerator]@{cfg}", args=(db0, state.key), requires=db_req, ensures=db_ens, workers=3,
                    targets=[Env.reset, DatabaseGenerator.__call__, U.get_action_mask],
                    note="database replaced by a symbolic 2-puzzle database satisfying the generator's post-condition "
                         "(range, conflict-free); the shipped databases are C10's finite check")
    return [step, fn, row, comp, reset, reset_gen, reset_db]
