"""Sidecar contract for jumanji.environments.routing.robot_warehouse.env:RobotWarehouse (tiny configurations).

Rules from the docstrings: actions 0 no-op, 1 forward, 2 turn left, 3 turn right, 4 toggle load; "if the agent is carrying a
shelf and collides with another shelf based on its current action, this action is deemed invalid" -- i.e. the ONLY illegal
action is FORWARD while carrying into a cell that holds a shelf (a forward move against the border does not move the agent and
is legal); "check for invalid action -> turn into noops"; the episode ends when the step limit is reached or two agents
collide.  `Inv` for the whole floor (grid channels vs. entity tables) is tier 2: the step-level clauses below need only the
cached-mask invariant and ranges."""
import jax
import jax.numpy as jnp

from contracts import common as K
from contracts import envs as E

ENV = "RobotWarehouse"
SHELVES, AGENTS = 0, 1
NOOP, FORWARD, LEFT, RIGHT, TOGGLE = 0, 1, 2, 3, 4
DX, DY = (-1, 0, 1, 0), (0, 1, 0, -1)  # direction 0 up (x-1), 1 right (y+1), 2 down (x+1), 3 left (y-1)


def front(grid, x, y, d):
    """(inside, tx, ty, shelf id) of the cell in front of an agent at (x, y) facing d"""
    _, W, H = grid.shape
    tx = x + jnp.asarray(DX)[d]
    ty = y + jnp.asarray(DY)[d]
    ins = (tx >= 0) & (tx < W) & (ty >= 0) & (ty < H)
    shelf = jnp.int32(0)
    for i in range(W):
        for j in range(H):
            shelf = jnp.where((tx == i) & (ty == j), grid[SHELVES, i, j], shelf)
    return ins, tx, ty, shelf


def legal(grid, agents):
    """bool[num_agents, 5]: everything except FORWARD-while-carrying into a shelf"""
    rows = []
    n = agents.direction.shape[0]
    for i in range(n):
        ins, _, _, shelf = front(grid, agents.position.x[i], agents.position.y[i], agents.direction[i])
        blocked = (agents.is_carrying[i] != 0) & ins & (shelf != 0)
        rows.append(jnp.stack([jnp.asarray(True), ~blocked, jnp.asarray(True), jnp.asarray(True), jnp.asarray(True)]))
    return jnp.stack(rows)


def ranges(env, grid, agents):
    _, W, H = grid.shape
    return {
        "agents_inside": (agents.position.x >= 0) & (agents.position.x < W) & (agents.position.y >= 0) & (agents.position.y < H),
        "directions_in_range": (agents.direction >= 0) & (agents.direction < 4),
        "carrying_is_a_flag": (agents.is_carrying == 0) | (agents.is_carrying == 1),
        "grid_ids_non_negative": grid >= 0,
    }


def inv(env, s, T):
    return {**ranges(env, s.grid, s.agents),
            "cached_mask_is_the_mask": s.action_mask == legal(s.grid, s.agents),
            "counter": (s.step_count >= 0) & (s.step_count < T)}


def problems(env, cfg, tier):
    from jumanji.environments.routing.robot_warehouse import utils as U
    from jumanji.tree_utils import tree_slice

    state, ts, a = E.example(env)
    T0 = jnp.int32(env.time_limit)
    N = env.num_agents

    # ---- function level: is_valid_action / compute_action_mask / get_valid_actions ---------------------------------------
    def req_fn(grid, agents, a, mask):
        return {**ranges(env, grid, agents), "in_spec": E.in_spec(env, a)}

    def ens_fn(grid, agents, a, mask):
        L = legal(grid, agents)
        m = U.compute_action_mask(grid, agents)
        single = jnp.stack([jnp.stack([U.is_valid_action(grid, tree_slice(agents, i), jnp.int32(b)) for b in range(5)]) for i in range(N)])
        va = U.get_valid_actions(a, mask)
        chosen = jnp.stack([mask[i, a[i]] for i in range(N)])
        return {
            "C04.is_valid_action_is_the_rule": single == L,
            "C04.compute_action_mask_is_the_rule": m == L,
            "C04.only_forward_can_be_illegal": jnp.stack([m[:, b] for b in (NOOP, LEFT, RIGHT, TOGGLE)]),
            "C05.masked_out_action_is_replaced_by_noop": chosen | (va == NOOP),
            "C05.masked_in_action_is_kept": ~chosen | (va == a),
            "C04.masked_in_action_is_kept": ~chosen | (va == a),
            "canary.forward_always_legal": m[0, FORWARD],
        }

    fn = dict(title=f"RobotWarehouse.mask_functions@{cfg}", args=(state.grid, state.agents, a, state.action_mask), requires=req_fn, ensures=ens_fn,
              props=("C04", "C05"), targets=[U.is_valid_action, U.compute_action_mask, U.get_valid_actions],
              note="function-level contracts; `mask` is an arbitrary boolean table for get_valid_actions")

    # ---- step level -----------------------------------------------------------------------------------------------------------
    def req(T, s, a):
        return {**inv(env, s, T), "in_spec": E.in_spec(env, a), "T_positive": T >= 1}

    def ens(T, s, a):
        with K.with_attr(env, "time_limit", T):
            s2, ts = env.step(s, a)
        last = ts.step_type == K.LAST
        o = ts.observation
        L = legal(s.grid, s.agents)
        ag, ag2 = s.agents, s2.agents
        out = {
            "C04.mask_is_exactly_the_legal_moves": o.action_mask == legal(s2.grid, s2.agents),
            "C04.cached_mask_is_the_mask": s2.action_mask == legal(s2.grid, s2.agents),
            "C11.counting": s2.step_count == s.step_count + 1,
            "C11.never_later": (s.step_count + 1 < T) | last,
            "C11.step_type_is_mid_or_last": last | (ts.step_type == K.MID),
            "C11.inv_counter": last | ((s2.step_count >= 0) & (s2.step_count < T)),
            "C12.obs.action_mask": o.action_mask == s2.action_mask,
            "C12.obs.step_count": o.step_count == s2.step_count,
            "C12.obs.agents_view_is_view_fn_of_new_state": o.agents_view == env._make_observations(s2.grid, s2.agents, s2.shelves),
            "canary.agent0_never_turns": ag2.direction[0] == ag.direction[0],
        }
        ill = jnp.stack([~L[i, a[i]] for i in range(N)])
        out["C05.illegal_action_keeps_position_and_direction"] = ~ill | ((ag2.position.x == ag.position.x) & (ag2.position.y == ag.position.y)
                                                                      & (ag2.direction == ag.direction))
        # the property's wording: "the acting entity keeps its position and holdings"
        out["C05.illegal_action_keeps_holdings"] = ~ill | (ag2.is_carrying == ag.is_carrying)
        out["C05.illegal_action_step_count_plus_one"] = s2.step_count == s.step_count + 1
        # documented reaction ("check for invalid action -> turn into noops"): the step acts exactly as if the offending agents had
        # played NOOP.  Compared on everything that does not depend on the request sampler (two evaluations of `step` draw
        # independent sampler outcomes): floor grid, agent table, shelf positions, counter, next mask, step type, discount.
        a_noop = jnp.where(ill, NOOP, a)
        with K.with_attr(env, "time_limit", T):
            s3, ts3 = env.step(s, a_noop)
        for nm, x, y in (("grid", s2.grid, s3.grid), ("agents.position.x", s2.agents.position.x, s3.agents.position.x),
                         ("agents.position.y", s2.agents.position.y, s3.agents.position.y), ("agents.direction", s2.agents.direction, s3.agents.direction),
                         ("agents.is_carrying", s2.agents.is_carrying, s3.agents.is_carrying),
                         ("shelves.position.x", s2.shelves.position.x, s3.shelves.position.x),
                         ("shelves.position.y", s2.shelves.position.y, s3.shelves.position.y), ("action_mask", s2.action_mask, s3.action_mask),
                         ("step_type", ts.step_type, ts3.step_type), ("discount", ts.discount, ts3.discount)):
            out["C05.illegal_action_acts_exactly_as_noop." + nm] = x == y
        for k, v in ranges(env, s2.grid, s2.agents).items():
            out["C04.inv_" + k] = v
        return out

    step = dict(title=f"RobotWarehouse.step@{cfg}", args=(T0, state, a), requires=req, ensures=ens, props=("C04", "C05", "C11", "C12"),
                targets=[type(env).step, type(env)._update_state, U.get_valid_actions, U.compute_action_mask],
                note="time_limit is a symbolic scalar T >= 1")

    # ---- C01 bounds (concrete time limit: the spec's step_count maximum is the constructor's time_limit) ------------------------
    Tc = int(env.time_limit)

    def req01(s, a):
        return {**inv(env, s, Tc), "in_spec": E.in_spec(env, a)}

    def ens01(s, a):
        s2, ts = env.step(s, a)
        out = {"canary.agent0_never_turns": s2.agents.direction[0] == s.agents.direction[0]}
        out.update(K.spec_bounds(env.observation_spec, ts.observation, "C01.step_obs_bounds"))
        out["C01.discount_bounds"] = (ts.discount >= 0.0) & (ts.discount <= 1.0)
        return out

    step01 = dict(title=f"RobotWarehouse.step_bounds@{cfg}", args=(state, a), requires=req01, ensures=ens01, props=("C01",),
                  targets=[type(env).step], note=f"time_limit = {Tc} (the configuration's), bounds read from env.observation_spec")

    # ---- reset: generator as a contract boundary --------------------------------------------------------------------------------
    def gen_post(g, key):
        return {**ranges(env, g.grid, g.agents), "step_count_zero": g.step_count == 0,
                "cached_mask_is_the_mask": g.action_mask == legal(g.grid, g.agents)}

    def reset_ens(g, key):
        s, ts = K.reset_from(env, "_generator", g, key)
        o = ts.observation
        out = {"C04.reset_mask_is_exactly_the_legal_moves": o.action_mask == legal(s.grid, s.agents),
               "C11.reset_step_count_zero": s.step_count == 0,
               "C11.reset_is_first": ts.step_type == K.FIRST,
               "C12.reset_obs.action_mask": o.action_mask == s.action_mask,
               "C12.reset_obs.step_count": o.step_count == s.step_count,
               "canary.reset_agent0_faces_up": s.agents.direction[0] == 0}
        out.update(K.spec_bounds(env.observation_spec, o, "C01.reset_obs_bounds"))
        return out

    reset = dict(title=f"RobotWarehouse.reset@{cfg}", args=(state, jnp.zeros((2,), jnp.uint32)), requires=gen_post, ensures=reset_ens,
                 targets=[type(env).reset], note="generator replaced by its post-condition (contract boundary; the generator's own contract is C10)")
    return [fn, step, step01, reset]
