"""Sidecar contract for jumanji.environments.routing.multi_cvrp.env:MultiCVRP -- C11 (structural horizon), C12 (copied
fields + vehicle coordinates) and C01 (bounds that discharge).  C04/C06/C08 are tier 2 (not attempted here).

Read from the code: the counter starts at 1 (generator) and the episode is cut when `step_count' > 2 * num_customers`, i.e.
after at most 2 * num_customers steps; variant V(s) = 2 * num_customers + 1 - step_count.  The observation copies nodes,
windows, coefficients, vehicle local times / capacities and the cached mask; `vehicles.coordinates` are the coordinates of
the nodes the vehicles stand on."""
import jax.numpy as jnp

from contracts import common as K
from contracts import envs as E

ENV = "MultiCVRP"
PROPS = ("C01", "C11", "C12")


def V(env, s):
    return 2 * env._num_customers + 1 - s.step_count.astype(jnp.int32)


def inv(env, s):
    N = env._num_customers
    return {
        "counter": (s.step_count >= 1) & (s.step_count <= 2 * N),
        "positions_are_nodes": (s.vehicles.positions >= 0) & (s.vehicles.positions <= N),
        "demands_in_range": (s.nodes.demands >= 0) & (s.nodes.demands <= env._max_capacity),
        "depot_has_no_demand": s.nodes.demands[0] == 0,
        "capacities_in_range": (s.vehicles.capacities >= 0) & (s.vehicles.capacities <= env._max_capacity),
        "coordinates_on_the_map": (s.nodes.coordinates >= 0.0) & (s.nodes.coordinates <= env._map_max),
        "windows_in_range": (s.windows.start >= 0.0) & (s.windows.start <= env._max_end_window)
                            & (s.windows.end >= 0.0) & (s.windows.end <= env._max_end_window),
        "coeffs_in_range": (s.coeffs.early >= 0.0) & (s.coeffs.early <= env._late_coef_rand[-1])
                           & (s.coeffs.late >= 0.0) & (s.coeffs.late <= env._late_coef_rand[-1]),
        "local_times_non_negative": s.vehicles.local_times >= 0.0,
    }


def spec_vehicle_coordinates(env, s):
    """coordinates of the node each vehicle stands on (explicit case analysis over the nodes)"""
    rows = []
    for v in range(env._num_vehicles):
        xy = s.nodes.coordinates[0]
        for n in range(1, env._num_customers + 1):
            xy = jnp.where(s.vehicles.positions[v] == n, s.nodes.coordinates[n], xy)
        rows.append(xy)
    return jnp.stack(rows)


def obs_clauses(env, s, o, prefix):
    return {
        prefix + "nodes.coordinates": o.nodes.coordinates == s.nodes.coordinates,
        prefix + "nodes.demands": o.nodes.demands == s.nodes.demands,
        prefix + "windows.start": o.windows.start == s.windows.start,
        prefix + "windows.end": o.windows.end == s.windows.end,
        prefix + "coeffs.early": o.coeffs.early == s.coeffs.early,
        prefix + "coeffs.late": o.coeffs.late == s.coeffs.late,
        prefix + "vehicles.local_times": o.vehicles.local_times == s.vehicles.local_times,
        prefix + "vehicles.capacities": o.vehicles.capacities == s.vehicles.capacities,
        prefix + "vehicles.coordinates": o.vehicles.coordinates == spec_vehicle_coordinates(env, s),
        prefix + "action_mask": o.action_mask == s.action_mask,
    }


def problems(env, cfg, tier):
    state, ts, a = E.example(env)
    N = env._num_customers

    def req(s, a):
        return {**inv(env, s), "in_spec": E.in_spec(env, a)}

    def ens(s, a):
        s2, ts = env.step(s, a)
        last = ts.step_type == K.LAST
        o = ts.observation
        out = {
            "C11.counting": s2.step_count == s.step_count + 1,
            "C11.variant_decreases": last | (V(env, s2) < V(env, s)),
            "C11.variant_bounded": (V(env, s) >= 0) & (V(env, s) <= 2 * N),
            "C11.variant_non_negative_while_the_episode_continues": last | (V(env, s2) >= 1),
            "C11.horizon_never_later": (s.step_count + 1 <= 2 * N) | last,
            "C11.step_type_is_mid_or_last": last | (ts.step_type == K.MID),
            "C11.inv_counter": last | ((s2.step_count >= 1) & (s2.step_count <= 2 * N)),
            "canary.vehicle0_never_leaves_the_depot": s2.vehicles.positions[0] == 0,
        }
        out.update(obs_clauses(env, s2, o, "C12.obs."))
        i2 = inv(env, s2)
        # the view `vehicles.coordinates` is stated for positions that are nodes: that conjunct of Inv must be preserved
        out["C12.inv_positions_are_nodes"] = i2["positions_are_nodes"]
        for k in ("demands_in_range", "depot_has_no_demand", "capacities_in_range", "coordinates_on_the_map", "windows_in_range", "coeffs_in_range",
                  "local_times_non_negative", "positions_are_nodes"):
            out["C01.inv_" + k] = i2[k]
        out.update(K.spec_bounds(env.observation_spec, o, "C01.step_obs_bounds"))
        # NOT claimed: the upper bound `local_times <= max_local_time = 2 * map_max * sqrt(2) * num_customers`.  It needs
        # "one hop is at most the map diagonal", i.e. reasoning about sqrt, which Engine J keeps uninterpreted (the inductive
        # strengthening local_times <= (step_count - 1) * map_max * sqrt(2) comes back `sat` with a model that does not replay
        # natively).  Only the lower bound is kept.
        del out["C01.step_obs_bounds.vehicles.local_times"]
        out["C01.step_obs_bounds.vehicles.local_times_lower_bound"] = o.vehicles.local_times >= 0.0
        return out

    step = dict(title=f"MultiCVRP.step@{cfg}", args=(state, a), requires=req, ensures=ens,
                targets=[type(env).step, type(env)._update_state, type(env)._state_to_observation],
                note="structural horizon 2 * num_customers (the counter starts at 1)")

    # reset: the generator is a handful of sampler calls -> evaluated directly with the sampler contracts
    def reset_ens(key):
        s, ts = env.reset(key)
        o = ts.observation
        out = {"C11.reset_counter_is_one": s.step_count == 1,
               "C11.reset_variant_is_the_horizon": V(env, s) == 2 * N,
               "C11.reset_is_first": ts.step_type == K.FIRST,
               "canary.reset_first_customer_has_no_demand": s.nodes.demands[1] == 0}
        out.update(obs_clauses(env, s, o, "C12.reset_obs."))
        i0 = inv(env, s)
        out["C11.reset_inv_counter"] = i0["counter"]
        out["C12.reset_inv_positions_are_nodes"] = i0["positions_are_nodes"]
        for k in ("demands_in_range", "depot_has_no_demand", "capacities_in_range", "coordinates_on_the_map", "windows_in_range", "coeffs_in_range",
                  "local_times_non_negative", "positions_are_nodes"):
            out["C01.reset_inv_" + k] = i0[k]
        out.update(K.spec_bounds(env.observation_spec, o, "C01.reset_obs_bounds"))
        return out

    reset = dict(title=f"MultiCVRP.reset@{cfg}", args=(jnp.zeros((2,), jnp.uint32),), requires=None, ensures=reset_ens,
                 targets=[type(env).reset, type(env._generator).__call__], note="generator evaluated with the sampler contracts (all sampler outcomes)")
    return [step, reset]
