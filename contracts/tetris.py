"""Sidecar contract for jumanji.environments.packing.tetris (env.py:Tetris, utils.py).

Rules (class docstring, utils docstrings and the game): the board has num_rows x num_cols cells, row 0 is the top.  The
current tetromino is one of 7 shapes x 4 rotations given as 4x4 patterns (constants.TETROMINOES_LIST, top-left justified).
An action (rotation, x) drops the rotated piece STRAIGHT DOWN with its 4x4 box at column x, from above the board, until it
rests: it stops in the last row y such that it fits (inside the board, no overlap) at every row 0..y.  The action is legal
iff the piece can enter the board that way, i.e. all its cells are inside the board horizontally and, with the box at the
top row, the piece's cells AND the cells above them are free (vertical-drop rule, DESIGN section 6 C04; "fits at the top
row" alone would accept pieces that could not have descended under an overhang).  Then every full row is removed, the
rows above move down, empty rows enter at the top; reward REWARD_LIST[#cleared rows] = (0, 40, 100, 300, 1200).
An illegal action ends the episode with reward 0.  The episode also ends when the next piece has no legal action or at
the time limit.  The state keeps the board in `grid_padded` with 3 padding rows (bottom) and 3 padding columns (right)
that stay empty; cell values are colour ids (> 0 = filled).
"""
import jax
import jax.numpy as jnp
import numpy as np

from contracts import common as K
from contracts import envs as E

ENV = "Tetris"
PROPS = ("C01", "C04", "C05", "C07", "C09", "C11", "C12")  # C08: Tetris' reward is a per-step rule (covered by C09), not a return identity
REWARDS = (0.0, 40.0, 100.0, 300.0, 1200.0)


def configs(tier):
    from jumanji.environments import Tetris

    out = {"4x4": lambda: Tetris(4, 4, time_limit=7), "5x4": lambda: Tetris(5, 4, time_limit=7), "4x5": lambda: Tetris(4, 5, time_limit=7)}
    if tier != "quick":
        out["4x6"] = lambda: Tetris(4, 6, time_limit=7)
        out["6x4"] = lambda: Tetris(6, 4, time_limit=7)
    return out


def pieces():
    from jumanji.environments.packing.tetris.constants import TETROMINOES_LIST

    return np.array(TETROMINOES_LIST)  # (7, 4 rotations, 4, 4)


def piece_table_facts():
    """facts about the shape table the rules rely on (concrete data: evaluated once, reported as constant clauses)"""
    P = pieces()
    four = all(int(P[p, r].sum()) == 4 and set(np.unique(P[p, r])) <= {0, 1} for p in range(7) for r in range(4))
    justified = all(P[p, r][0].any() and P[p, r][:, 0].any() for p in range(7) for r in range(4))

    def connected(m):
        cells = [tuple(c) for c in np.argwhere(m)]
        seen, todo = {cells[0]}, [cells[0]]
        while todo:
            a = todo.pop()
            for c in cells:
                if c not in seen and abs(c[0] - a[0]) + abs(c[1] - a[1]) == 1:
                    seen.add(c)
                    todo.append(c)
        return len(seen) == len(cells)

    def just(m):
        rows, cols = np.where(m.any(1))[0], np.where(m.any(0))[0]
        out = np.zeros_like(m)
        sub = m[rows[0]:rows[-1] + 1, cols[0]:cols[-1] + 1]
        out[:sub.shape[0], :sub.shape[1]] = sub
        return out

    conn = all(connected(P[p, r]) for p in range(7) for r in range(4))
    # the four entries of a piece are the quarter turns of one shape, in one sense of rotation (or its mirror order)
    rot = all(any(all((just(np.rot90(P[p, 0], k=s * r)) == P[p, r]).all() for r in range(4)) for s in (1, -1)) for p in range(7))
    return {"every_pattern_has_exactly_4_cells": four, "patterns_are_top_left_justified": justified, "patterns_are_connected": conn,
            "rotations_are_quarter_turns": rot}


def piece_r(idx, r):
    """4x4 boolean pattern of piece `idx` (symbolic) in rotation r (concrete), by explicit case analysis over the table"""
    P = pieces()
    return [[_any([idx == p for p in range(7) if P[p, r, i, j]]) for j in range(4)] for i in range(4)]


def piece(idx, rot):
    P = pieces()
    return [[_any([(idx == p) & (rot == r) for p in range(7) for r in range(4) if P[p, r, i, j]]) for j in range(4)] for i in range(4)]


def _any(xs):
    out = jnp.asarray(False)
    for x in xs:
        out = out | x
    return out


def _all(xs):
    out = jnp.asarray(True)
    for x in xs:
        out = out & x
    return out


def occupancy(env, grid_padded):
    """board part of the padded grid as booleans"""
    return [[grid_padded[i, j] != 0 for j in range(env.num_cols)] for i in range(env.num_rows)]


def legal(env, occ, idx):
    """vertical-drop rule, for every (rotation, x): every piece cell is inside the board and it and all cells above it are free"""
    R, C = env.num_rows, env.num_cols
    rows = []
    for r in range(4):
        tet = piece_r(idx, r)
        row = []
        for x in range(C):
            conds = []
            for i in range(4):
                for j in range(4):
                    if x + j >= C:
                        conds.append(~tet[i][j])
                    else:
                        conds.append(~tet[i][j] | _all([~occ[i2][x + j] for i2 in range(i + 1)]))
            row.append(_all(conds))
        rows.append(jnp.stack(row))
    return jnp.stack(rows)


def legal_at(env, occ, idx, rot, x):
    m = legal(env, occ, idx)
    return _any([(rot == r) & (x == c) & m[r, c] for r in range(4) for c in range(env.num_cols)])


def spec_drop(env, occ, tet, x):
    """landing row y* = last y such that the piece fits at every row 0..y (-1 if it does not even fit at the top),
    and the set of board cells the piece occupies there"""
    R, C = env.num_rows, env.num_cols

    def occ_at(row, j):  # occupancy of (row, x + j), x symbolic
        return _any([(x == c - j) & occ[row][c] for c in range(C) if c - j >= 0])

    def fits(y):
        conds = []
        for i in range(4):
            for j in range(4):
                if y + i >= R:
                    conds.append(~tet[i][j])
                else:
                    conds.append(~tet[i][j] | ((x + j < C) & ~occ_at(y + i, j)))
        return _all(conds)

    ystar = jnp.int32(-1)
    prefix = jnp.asarray(True)
    for y in range(R):
        prefix = prefix & fits(y)
        ystar = jnp.where(prefix, y, ystar)
    placed = [[_any([tet[a][b] & (ystar == i - a) & (x == j - b) for a in range(4) for b in range(4) if i - a >= 0 and j - b >= 0])
               for j in range(C)] for i in range(R)]
    return ystar, placed


def spec_clean(rows, full):
    """rows: list of rows (each a list of values), full: list of flags.  Flagged rows disappear, the others keep their order
    and move down, as many empty rows enter at the top."""
    n = len(rows)
    k = sum([f.astype(jnp.int32) for f in full])
    out = []
    for i in range(n):
        row = []
        for j in range(len(rows[0])):
            v = jnp.int32(0)
            for src in range(n):
                before = sum([(~full[p]).astype(jnp.int32) for p in range(src)]) if src else jnp.int32(0)
                v = jnp.where(~full[src] & (before == i - k), rows[src][j], v)
            row.append(jnp.where(i < k, 0, v))
        out.append(row)
    return out, k


def padding_empty(env, g):
    R, C = env.num_rows, env.num_cols
    return {"padding_rows_empty": g[R:, :] == 0, "padding_cols_empty": g[:R, C:] == 0}


def inv(env, s, T):
    R, C = env.num_rows, env.num_cols
    occ = occupancy(env, s.grid_padded)
    P = jnp.asarray(pieces()[:, 0], jnp.int32)
    shown = jnp.zeros((4, 4), jnp.int32)
    for p in range(7):
        shown = jnp.where(s.tetromino_index == p, P[p], shown)
    return {**padding_empty(env, s.grid_padded),
            "cells_nonnegative": s.grid_padded[:R, :C] >= 0,
            # colour ids: every placement uses max+1, so ids never exceed the number of pieces placed (rules out int32 wrap-around)
            "cell_values_at_most_pieces_placed": jnp.max(s.grid_padded) <= s.step_count,
            "no_full_row_left": jnp.stack([~_all(occ[i]) for i in range(R)]),
            "tetromino_index_in_range": (s.tetromino_index >= 0) & (s.tetromino_index < 7),
            "new_tetromino_is_the_indexed_piece": s.new_tetromino == shown,
            "cached_mask_is_the_mask": s.action_mask == legal(env, occ, s.tetromino_index),
            "counter": (s.step_count >= 0) & (s.step_count < T)}


def count(occ):
    return sum([c.astype(jnp.int32) for row in occ for c in row])


def problems(env, cfg, tier):
    from jumanji.environments.packing.tetris import utils as U

    state, ts, a = E.example(env)
    T0 = jnp.int32(env.time_limit)
    R, C = env.num_rows, env.num_cols
    obs_spec = env.observation_spec
    grid0 = jnp.zeros((R + 3, C + 3), jnp.int32)
    facts = piece_table_facts()
    # On the smallest board the end-to-end clauses (mask of the new state == rule, new grid == rules applied to the old grid,
    # global cell count) are ALSO proved directly on the whole step.  On larger boards they are proved modularly: the step is
    # syntactically `clean_lines(place_tetromino(...))` / `_calculate_action_mask(clip(new grid))` of the real callees, and the
    # callees have their own function-level contracts (Tetris.place_tetromino@cfg, Tetris.clean_lines@cfg, Tetris.action_mask@cfg).
    direct = R * C <= 16

    # ------------------------------------------------------------------------------------------------------------------
    # function level: the mask function is the vertical-drop rule (all clipped grids with empty padding, all 7 pieces)
    def mask_req(g, idx):
        return {**padding_empty(env, g), "cells_0_or_1": (g >= 0) & (g <= 1), "idx": (idx >= 0) & (idx < 7)}

    def mask_ens(g, idx):
        m = env._calculate_action_mask(g, idx)
        occ = occupancy(env, g)
        tets = [piece_r(idx, r) for r in range(4)]
        naive = jnp.stack([jnp.stack([_all([~tets[r][i][j] | ((x + j < C) and ~occ[i][x + j]) for i in range(4) for j in range(4)])
                                      for x in range(C)]) for r in range(4)])
        out = {"C04.mask_fn_is_the_vertical_drop_rule": m == legal(env, occ, idx),
               "C04.masked_in_implies_fits_at_the_top_row": ~m | naive,
               "canary.mask_is_fits_at_the_top_row": (m == naive).all()}
        for k, v in facts.items():
            out["C04.table." + k] = jnp.asarray(v)
        return out

    mask_fn = dict(title=f"Tetris.action_mask@{cfg}", args=(grid0, jnp.int32(0)), requires=mask_req, ensures=mask_ens, props=("C04",),
                   targets=[type(env)._calculate_action_mask, U.tetromino_action_mask, U.check_valid_tetromino_placement], workers=3)

    # function level: clean_lines, all grids and all flag vectors
    def clean_ens(g, full):
        out = U.clean_lines(g, full)
        n = R + 3
        spec, k = spec_clean([[g[i, j] for j in range(C + 3)] for i in range(n)], [full[i] for i in range(n)])
        spec = jnp.stack([jnp.stack(r) for r in spec])
        nz = lambda x: jnp.sum((x != 0).astype(jnp.int32))
        # global count, one obligation per flag vector (the row permutation is then concrete): the filled cells that remain
        # are exactly those of the unflagged rows
        counts = []
        for m in range(2 ** n):
            pat = [(m >> i) & 1 == 1 for i in range(n)]
            is_pat = _all([full[i] == pat[i] for i in range(n)])
            counts.append(~is_pat | (nz(out) == sum([nz(g[i]) for i in range(n) if not pat[i]])))
        return {"C09.clean_lines_is_the_spec": out == spec,
                "C07.clean_lines_is_the_spec": out == spec,
                "C07.clean_lines_keeps_exactly_the_cells_of_the_unflagged_rows": jnp.stack(counts),
                "canary.clean_lines_is_the_identity": (out == g).all()}

    clean = dict(title=f"Tetris.clean_lines@{cfg}", args=(grid0, jnp.zeros((R + 3,), bool)), requires=lambda g, f: {}, ensures=clean_ens,
                 props=("C07", "C09"), while_bound=R + 3, targets=[U.clean_lines], workers=3,
                 note="all padded grids, all flag vectors; fori_loop(0, full_lines.sum()) unwound num_rows+3 times + unwinding assertion")

    # function level: place_tetromino under the documented precondition (mask-respecting action)
    def place_req(g, idx, rot, x):
        occ = occupancy(env, g)
        return {**padding_empty(env, g), "cells_are_colour_ids": (g >= 0) & (g < 2 ** 30), "idx": (idx >= 0) & (idx < 7), "rot": (rot >= 0) & (rot < 4),
                "x": (x >= 0) & (x < C), "action_is_legal": legal_at(env, occ, idx, rot, x)}

    def place_ens(g, idx, rot, x):
        g2, y = U.place_tetromino(g, env._rotate(rot, idx), x)
        occ = occupancy(env, g)
        ystar, placed = spec_drop(env, occ, piece(idx, rot), x)
        placed = jnp.stack([jnp.stack(r) for r in placed])
        old = jnp.stack([jnp.stack(r) for r in occ])
        colour = jnp.max(g) + 1
        return {"C09.place.piece_rests_in_the_lowest_reachable_row": (g2[:R, :C] != 0) == (old | placed),
                "C09.place.values": g2[:R, :C] == jnp.where(placed, colour, g[:R, :C]),
                "C09.place.y_position_is_the_landing_row": jnp.where(y == -1, R - 1, y) == ystar,  # the viewer decodes -1 as num_rows-1
                "C09.place.landing_row_in_board": (ystar >= 0) & (ystar < R),
                **({"C07.place.adds_exactly_4_cells": jnp.sum((g2 != 0).astype(jnp.int32)) == jnp.sum((g != 0).astype(jnp.int32)) + 4}
                   if direct and tier != "quick" else {}),  # the global statement itself (45 s on 4x4): thorough tier only
                "C07.place.piece_does_not_overlap": ~(old & placed),
                "C07.place.piece_covers_4_cells": jnp.sum(placed.astype(jnp.int32)) == 4,
                "C07.place.padding_stays_empty": K.all_(g2[R:, :] == 0, g2[:R, C:] == 0),
                "C07.place.other_cells_unchanged": placed | (g2[:R, :C] == g[:R, :C]),
                "canary.piece_always_lands_on_the_floor": jnp.any(placed[R - 1])}

    place = dict(title=f"Tetris.place_tetromino@{cfg}", args=(grid0, jnp.int32(0), jnp.int32(0), jnp.int32(0)), requires=place_req, ensures=place_ens,
                 props=("C07", "C09"), targets=[U.place_tetromino, U.check_valid_tetromino_placement, type(env)._rotate], workers=4)

    # ------------------------------------------------------------------------------------------------------------------
    def req(T, s, a):
        return {**inv(env, s, T), "in_spec": E.in_spec(env, a), "T_positive": T >= 1}

    def ens(T, s, a):
        with K.with_attr(env, "time_limit", T):
            s2, ts = env.step(s, a)
        o = ts.observation
        rot, x = a[0], a[1]
        g, g2 = s.grid_padded, s2.grid_padded
        occ = occupancy(env, g)
        ok = legal_at(env, occ, s.tetromino_index, rot, x)
        last = ts.step_type == K.LAST
        # the rules
        ystar, placed = spec_drop(env, occ, piece(s.tetromino_index, rot), x)
        colour = jnp.max(g) + 1
        mid = [[jnp.where(placed[i][j], colour, g[i, j]) for j in range(C)] for i in range(R)]
        full = [_all([mid[i][j] != 0 for j in range(C)]) for i in range(R)]
        cleaned, k = spec_clean(mid, full)
        cleaned = jnp.stack([jnp.stack(r) for r in cleaned])
        reward_spec = jnp.float32(0.0)
        for n_lines, rv in enumerate(REWARDS):
            reward_spec = jnp.where(k == n_lines, rv, reward_spec)
        occ2 = occupancy(env, g2)
        # the real callees on the same arguments (identical terms after symbolic evaluation)
        placed_impl, y_impl = U.place_tetromino(g, env._rotate(rot, s.tetromino_index), x)
        full_impl = jnp.all(placed_impl[:, :C] != 0, axis=1)
        mask_fn2 = env._calculate_action_mask(jnp.clip(g2, a_max=1), s2.tetromino_index)
        rule2 = legal(env, occ2, s2.tetromino_index) if direct else mask_fn2
        stuck = ~jnp.any(rule2)
        spec_last = ~ok | stuck | (s.step_count + 1 >= T)
        P0 = jnp.asarray(pieces()[:, 0], jnp.int32)
        shown = jnp.zeros((4, 4), jnp.int32)
        for p in range(7):
            shown = jnp.where(s2.tetromino_index == p, P0[p], shown)
        placed_a = jnp.stack([jnp.stack(r) for r in placed])
        occ_a = jnp.stack([jnp.stack(r) for r in occ])
        out = {
            # C04 (modular part: with Tetris.action_mask@cfg `mask function == rule` for every grid meeting its precondition)
            "C04.mask_is_the_mask_function_of_the_new_state": o.action_mask == mask_fn2,
            "C04.cached_mask_is_the_observed_mask": s2.action_mask == o.action_mask,
            "C04.new_state_meets_the_mask_function_precondition": ~ok | K.all_(g2[R:, :] == 0, g2[:R, C:] == 0, g2 >= 0, s2.tetromino_index >= 0,
                                                                               s2.tetromino_index < 7),
            "C04.legal_move_not_treated_as_invalid": ~ok | (last == (stuck | (s.step_count + 1 >= T))),
            "C04.legal_move_gets_the_line_reward": ~ok | (ts.reward == reward_spec),
            # C05
            "C05.illegal_is_last": ok | last,
            "C05.illegal_reward_is_documented": ok | (ts.reward == 0.0),
            "C05.illegal_discount_zero": ok | (ts.discount == 0.0),
            "C05.illegal_score_unchanged": ok | (s2.score == s.score),
            # C07 two-state conservation: +4 cells per piece, minus num_cols per cleared row -- frame + balance (DESIGN 3.2):
            #   placement: the piece covers exactly 4 cells, all empty before, every other cell unchanged (mid := grid + piece)
            #   clearing: new grid == clean_lines(mid, full rows of mid) and clean_lines keeps exactly the cells of the unflagged
            #   rows (Tetris.clean_lines@cfg); a full row has num_cols cells in the board and none in the (empty) padding
            #   => count' = count + 4 - num_cols * #cleared
            "C07.count.piece_covers_4_cells": ~ok | (jnp.sum(placed_a.astype(jnp.int32)) == 4),
            "C07.count.piece_lands_on_empty_cells": ~ok | ~(occ_a & placed_a),
            "C07.count.placement_changes_only_the_piece_cells": ~ok | jnp.where(placed_a, placed_impl[:R, :C] != 0, placed_impl[:R, :C] == g[:R, :C]),
            "C07.count.placement_keeps_padding_empty": ~ok | K.all_(placed_impl[R:, :] == 0, placed_impl[:R, C:] == 0),
            "C07.count.new_grid_is_the_cleaned_placement": g2 == U.clean_lines(placed_impl, full_impl),
            "C07.count.cleared_rows_are_the_full_rows": s2.full_lines == full_impl,
            "C07.count.number_of_cleared_rows": ~ok | (jnp.sum(full_impl.astype(jnp.int32)) == k),
            "C07.at_most_4_rows_cleared": ~ok | ((k >= 0) & (k <= 4)),
            "C07.full_lines_flags_are_the_cleared_rows": ~ok | (s2.full_lines == jnp.stack(full + [jnp.asarray(False)] * 3)),
            "C07.padding_stays_empty_even_at_last": ~ok | K.all_(g2[R:, :] == 0, g2[:R, C:] == 0),
            # C09 (modular part: with Tetris.place_tetromino@cfg and Tetris.clean_lines@cfg)
            "C09.grid_is_clean_lines_of_place_tetromino": g2 == U.clean_lines(placed_impl, full_impl),
            "C09.full_lines": ~ok | (s2.full_lines == jnp.stack(full + [jnp.asarray(False)] * 3)),
            "C09.reward": ts.reward == jnp.where(ok, reward_spec, 0.0),
            "C09.score": s2.score == s.score + ts.reward,
            "C09.state_reward_field": s2.reward == ts.reward,
            "C09.last": last == spec_last,
            "C09.discount": ts.discount == jnp.where(spec_last, 0.0, 1.0),
            "C09.mid_otherwise": last | (ts.step_type == K.MID),
            "C09.step_count": s2.step_count == s.step_count + 1,
            "C09.next_piece_in_range": (s2.tetromino_index >= 0) & (s2.tetromino_index < 7),
            "C09.next_piece_shown_unrotated": s2.new_tetromino == shown,
            "C09.key_is_split": (s2.key == jax.random.split(s.key)[0]).all(),
            "C09.x_position_recorded": s2.x_position == x,
            "C09.y_position_is_the_landing_row": ~ok | (jnp.where(s2.y_position == -1, R - 1, s2.y_position) == ystar),
            "C09.previous_grid_recorded": (s2.grid_padded_old == g).all(),
            # C11
            "C11.counting": s2.step_count == s.step_count + 1,
            "C11.never_later": (s.step_count + 1 < T) | last,
            "C11.never_earlier": ~last | (s.step_count + 1 >= T) | ~ok | stuck,
            # C12
            # "filled cells shown as ones": local part per cell + the cells of the new grid are colour ids >= 0
            "C12.obs.grid": (g2[:R, :C] < 0) | (o.grid == jnp.stack([jnp.stack(r) for r in occ2]).astype(jnp.int32)),
            "C12.obs.grid_cells_are_colour_ids": g2[:R, :C] >= 0,
            "C12.obs.tetromino": o.tetromino == s2.new_tetromino,
            "C12.obs.tetromino_is_the_next_piece": o.tetromino == shown,
            "C12.obs.action_mask": o.action_mask == s2.action_mask,
            "C12.obs.step_count": o.step_count == s2.step_count,
            "canary.no_row_is_ever_cleared": k == 0,
        }
        if direct:
            out["C04.mask_is_exactly_the_legal_moves"] = o.action_mask == rule2
            out["C04.cached_mask_is_the_mask"] = s2.action_mask == rule2
            out["C09.grid"] = ~ok | (g2[:R, :C] == cleaned)
        for kk, v in inv(env, s2, T).items():
            if kk == "cached_mask_is_the_mask" and not direct:
                v = s2.action_mask == mask_fn2
            out["C07." + kk] = last | v
        out.update(K.spec_bounds(obs_spec, o, "C01.step_obs_bounds"))
        # the declared range, read from the REAL observation_spec as a function of the symbolic limit T
        lo_, hi_ = K.declared_time_bounds(env, "step_count", T)
        out["C01.step_obs_bounds.step_count"] = (o.step_count >= lo_) & (o.step_count <= hi_)
        out["C01.step_obs_bounds.declared_step_count_range_covers_the_counter_it_documents"] = (s2.step_count >= lo_) & (s2.step_count <= hi_)
        return out

    step = dict(title=f"Tetris.step@{cfg}", args=(T0, state, a), requires=req, ensures=ens, while_bound=R + 3, workers=6,
                targets=[type(env).step, U.place_tetromino, U.clean_lines, U.tetromino_action_mask, U.sample_tetromino_list,
                         type(env)._calculate_action_mask, type(env)._rotate])

    # ------------------------------------------------------------------------------------------------------------------
    def req_any(T, s, a):
        return {"in_spec": E.in_spec(env, a), "T_positive": T >= 1}

    def ens_any(T, s, a):
        with K.with_attr(env, "time_limit", T):
            s2, ts = env.step(s, a)
        o = ts.observation
        return {"C11.counting_any_state": s2.step_count == s.step_count + 1,
                "C11.never_later_any_state": (s.step_count + 1 < T) | (ts.step_type == K.LAST),
                "C12.any_state.grid_is_the_clipped_board": o.grid == jnp.clip(s2.grid_padded, a_max=1)[:R, :C],
                "C12.any_state.tetromino": o.tetromino == s2.new_tetromino,
                "C12.any_state.action_mask": o.action_mask == s2.action_mask,
                "canary.step_count_never_changes": s2.step_count == s.step_count}

    step_any = dict(title=f"Tetris.step_any_state@{cfg}", args=(T0, state, a), requires=req_any, ensures=ens_any, while_bound=R + 3,
                    props=("C11", "C12"), targets=[type(env).step], note="no invariant assumed: holds for every state, hence also after LAST")

    # ------------------------------------------------------------------------------------------------------------------
    def reset_ens(key):
        s, ts = env.reset(key)
        o = ts.observation
        occ = occupancy(env, s.grid_padded)
        out = {"C04.reset_mask_is_exactly_the_legal_moves": o.action_mask == legal(env, occ, s.tetromino_index),
               "C07.reset_board_empty": s.grid_padded == 0,
               "C09.reset_score_zero": (s.score == 0.0) & (s.reward == 0.0),
               "C09.reset_key_kept": (s.key == key).all(),
               "C11.reset_step_count_zero": s.step_count == 0,
               "C12.reset_obs.grid": o.grid == jnp.stack([jnp.stack(r) for r in occ]).astype(jnp.int32),
               "C12.reset_obs.tetromino": o.tetromino == s.new_tetromino,
               "C12.reset_obs.action_mask": o.action_mask == s.action_mask,
               "C12.reset_obs.step_count": o.step_count == s.step_count,
               "canary.reset_piece_is_always_the_I": s.tetromino_index == 0}
        for kk, v in inv(env, s, jnp.int32(1)).items():
            out["C07.reset_" + kk] = v
        out.update(K.spec_bounds(obs_spec, o, "C01.reset_obs_bounds"))
        return out

    reset = dict(title=f"Tetris.reset@{cfg}", args=(jax.random.PRNGKey(0),), requires=lambda key: {}, ensures=reset_ens,
                 targets=[type(env).reset, U.sample_tetromino_list, type(env)._calculate_action_mask])
    return [mask_fn, clean, place, step, step_any, reset]
