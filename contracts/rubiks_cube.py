"""Sidecar contract for jumanji.environments.logic.rubiks_cube.env:RubiksCube -- C01 / C11 / C12 only (the group laws of
`rotate_cube` are C17's business).  Documented rules used here: "episode termination: if either the cube is solved or a
time limit is reached"; a cube is solved when every face shows a single colour; the observation is (cube, step_count)."""
import jax.numpy as jnp

from contracts import common as K
from contracts import envs as E

ENV = "RubiksCube"
PROPS = ("C01", "C11", "C12")


def solved(cube):
    """every face is uniformly coloured (written per sticker against the face's first sticker)"""
    r = jnp.asarray(True)
    for f in range(cube.shape[0]):
        for i in range(cube.shape[1]):
            for j in range(cube.shape[2]):
                r = r & (cube[f, i, j] == cube[f, 0, 0])
    return r


def inv(env, s, T):
    return {"stickers_in_range": (s.cube >= 0) & (s.cube <= 5),
            "counter": (s.step_count >= 0) & (s.step_count < T)}


def problems(env, cfg, tier):
    state, ts, a = E.example(env)
    T0 = jnp.int32(env.time_limit)

    def req(T, s, a):
        return {**inv(env, s, T), "in_spec": E.in_spec(env, a), "T_positive": T >= 1}

    def ens(T, s, a):
        with K.with_attr(env, "time_limit", T):
            s2, ts = env.step(s, a)
        last = ts.step_type == K.LAST
        o = ts.observation
        out = {
            "C11.counting": s2.step_count == s.step_count + 1,
            "C11.never_later": (s.step_count + 1 < T) | last,
            "C11.never_earlier": ~last | (s.step_count + 1 >= T) | solved(s2.cube),
            "C11.solved_ends_the_episode": ~solved(s2.cube) | last,
            "C11.step_type_is_mid_or_last": last | (ts.step_type == K.MID),
            "C12.obs.cube": o.cube == s2.cube,
            "C12.obs.step_count": o.step_count == s2.step_count,
            "C12.frame_key": (s2.key == s.key).all(),
            "canary.never_last": ~last,
        }
        for k, v in inv(env, s2, T).items():
            out["C11.inv_" + k] = last | v
        return out

    step = dict(title=f"RubiksCube.step@{cfg}", args=(T0, state, a), requires=req, ensures=ens, props=("C11", "C12"),
                targets=[type(env).step, type(env)._state_to_observation], note="time_limit is a symbolic scalar T >= 1")

    # C12 / C11.counting need no invariant: also valid for steps taken after LAST and for any sticker content
    def req_weak(T, s, a):
        return {"in_spec": E.in_spec(env, a)}

    def ens_weak(T, s, a):
        with K.with_attr(env, "time_limit", T):
            s2, ts = env.step(s, a)
        o = ts.observation
        return {"C11.counting_any_state": s2.step_count == s.step_count + 1,
                "C12.obs.cube_any_state": o.cube == s2.cube,
                "C12.obs.step_count_any_state": o.step_count == s2.step_count,
                "canary.never_last": ts.step_type != K.LAST}

    step_weak = dict(title=f"RubiksCube.step_any_state@{cfg}", args=(T0, state, a), requires=req_weak, ensures=ens_weak, props=("C11", "C12"),
                     targets=[type(env).step, type(env)._state_to_observation], note="no invariant assumed (covers steps after LAST)")

    # C01: value bounds against the environment's own spec object (concrete time limit of the configuration: the spec's
    # step_count maximum is the constructor's time_limit)
    Tc = int(env.time_limit)

    def req01(s, a):
        return {**inv(env, s, Tc), "in_spec": E.in_spec(env, a)}

    def ens01(s, a):
        s2, ts = env.step(s, a)
        out = {"canary.never_last": ts.step_type != K.LAST}
        out.update(K.spec_bounds(env.observation_spec, ts.observation, "C01.step_obs_bounds"))
        out["C01.inv_stickers_in_range_even_at_last"] = (s2.cube >= 0) & (s2.cube <= 5)
        out["C01.inv_counter_le_T"] = (s2.step_count >= 0) & (s2.step_count <= Tc)
        return out

    step01 = dict(title=f"RubiksCube.step_bounds@{cfg}", args=(state, a), requires=req01, ensures=ens01, props=("C01",),
                  targets=[type(env).step], note=f"time_limit = {Tc} (the configuration's), bounds read from env.observation_spec")

    # reset with the generator as a contract boundary (scramble = scan of rotate_cube; its contract is C10/C17)
    def gen_post(g, key):
        return {"stickers_in_range": (g.cube >= 0) & (g.cube <= 5), "step_count_zero": g.step_count == 0}

    def reset_ens(g, key):
        s, ts = K.reset_from(env, "generator", g, key)
        o = ts.observation
        out = {"C11.reset_step_count_zero": s.step_count == 0,
               "C11.reset_is_first": ts.step_type == K.FIRST,
               "C12.reset_obs.cube": o.cube == s.cube,
               "C12.reset_obs.step_count": o.step_count == s.step_count,
               "canary.reset_cube_is_solved": solved(s.cube)}
        for k, v in inv(env, s, jnp.int32(1)).items():
            out["C11.reset_inv_" + k] = v
        out.update(K.spec_bounds(env.observation_spec, o, "C01.reset_obs_bounds"))
        return out

    reset = dict(title=f"RubiksCube.reset@{cfg}", args=(state, jnp.zeros((2,), jnp.uint32)), requires=gen_post, ensures=reset_ens,
                 targets=[type(env).reset], note="generator replaced by its post-condition (contract boundary; scramble contract is C10/C17)")
    return [step, step_weak, step01, reset]
