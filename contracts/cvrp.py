"""Sidecar contract for jumanji.environments.routing.cvrp.env:CVRP.

Rules (class docstring, reward docstrings, generator docstring): node 0 is the depot, nodes 1..n are customers with an
integer demand in [1, max_demand] (depot: 0).  The vehicle starts at the depot with load 0 (capacity max_capacity).
Action c visits node c.  A customer is legal iff it has not been served yet and its demand fits in what is left of the
vehicle's capacity since it last left the depot; the depot is legal iff the vehicle is not standing on it (it may be
visited many times and refills the vehicle).  An illegal move ends the episode with reward -2*num_nodes*sqrt(2) and
leaves the state untouched.  The episode ends when no action can be performed: every customer served and the vehicle
back at the depot.  Dense reward: minus the distance from the current node to the chosen node; sparse reward: minus the
length of the whole tour at the end, 0 before.  Objective: minus the tour length (sum of the distances between
consecutive nodes of the route, starting and ending at the depot).
No time limit: at most n customer visits and n depot returns, horizon 2n.

Distances: norm(c[u] - c[v]) is traced to sqrt(sum(d*d)); with fmul_uf=True products are a commutative uninterpreted
function and sqrt is uninterpreted (float_as_real).  Every edge is oriented previous node -> next node.  One instance of
the axiom "the norm of the zero vector is 0" is assumed in `requires` (`assumed.norm_of_zero_vector_is_zero`), needed
for the zero-length edges depot -> depot that pad the fixed-length `trajectory` (see the final report: the engine has
no such axiom for symbolic arguments)."""
import math

import jax
import jax.numpy as jnp

from contracts import common as K
from contracts import envs as E

ENV = "CVRP"


def configs(tier):
    from jumanji.environments import CVRP
    from jumanji.environments.routing.cvrp.generator import UniformGenerator
    from jumanji.environments.routing.cvrp.reward import DenseReward, SparseReward

    def mk(n, cap, dem, R):
        return lambda: CVRP(UniformGenerator(n, cap, dem), R())

    # "tight": max_capacity == max_demand (the smallest capacity the constructor accepts): capacity really binds
    c = {"2tight-dense": mk(2, 3, 3, DenseReward), "2tight-sparse": mk(2, 3, 3, SparseReward),
         "3dense": mk(3, 10, 5, DenseReward), "3sparse": mk(3, 10, 5, SparseReward)}
    if tier != "quick":
        c.update({"3tight-dense": mk(3, 5, 5, DenseReward), "3tight-sparse": mk(3, 5, 5, SparseReward),
                  "4dense": mk(4, 10, 5, DenseReward), "4sparse": mk(4, 10, 5, SparseReward)})
    return c


def is_dense(env):
    from jumanji.environments.routing.cvrp.reward import DenseReward
    return isinstance(env.reward_fn, DenseReward)


def spec_bounds(spec, value, prefix):
    """`min <= leaf <= max` for every bounded leaf of the observation spec (local version of K.spec_bounds, which
    yields nothing for array leaves because every jumanji Array spec is also a `specs.Spec` with empty `_specs`)."""
    from jumanji import specs

    out = {}
    if isinstance(spec, specs.MultiDiscreteArray):
        v = jnp.asarray(value)
        out[prefix] = (v >= 0) & (v < jnp.asarray(spec.num_values))
    elif isinstance(spec, specs.BoundedArray):  # includes DiscreteArray
        v = jnp.asarray(value)
        if v.dtype != bool:
            out[prefix] = (v >= jnp.asarray(spec.minimum)) & (v <= jnp.asarray(spec.maximum))
    elif isinstance(spec, specs.Array):
        pass
    elif isinstance(spec, specs.Spec):
        for k, sub in spec._specs.items():
            v = getattr(value, k) if hasattr(value, k) else value[k]
            out.update(spec_bounds(sub, v, f"{prefix}.{k}"))
    return out


# ---- the route, recomputed from the raw arrays ---------------------------------------------------------------------
# The route is trajectory[0 .. t-1] with t = num_total_visits.  `trajectory` has 2n slots; the only visit that can have
# index 2n is the final return to the depot (it is not stored), so slot 2n is read as the depot.
def L(env):
    return 2 * env.num_nodes


def tr(env, s, i):
    return s.trajectory[i] if i < L(env) else jnp.int32(0)


def at(env, s, i, f):
    """f(tr(j)) for the symbolic index i == j (0 outside 0..2n)"""
    r = 0
    for j in range(L(env) + 1):
        r = r + jnp.where(i == j, f(j), 0)
    return r


def last_node(env, s):
    return at(env, s, s.num_total_visits - 1, lambda j: tr(env, s, j))


def in_route(env, s, c):
    r = jnp.asarray(False)
    for i in range(L(env)):
        r = r | ((i < s.num_total_visits) & (s.trajectory[i] == c))
    return r


def demand_of(env, s, u):
    d = jnp.int32(0)
    for j in range(env.num_nodes + 1):
        d = jnp.where(u == j, s.demands[j], d)
    return d


def running_load(env, s):
    """load[i] = demand picked up since the vehicle last left the depot, after visit i (fold over the route)"""
    out = []
    prev = jnp.int32(0)
    for i in range(L(env) + 1):
        u = tr(env, s, i)
        prev = jnp.where(u == 0, 0, prev + demand_of(env, s, u))
        out.append(prev)
    return out


def current_load(env, s):
    run = running_load(env, s)
    return at(env, s, s.num_total_visits - 1, lambda j: run[j])


def legal(env, s):
    n = env.num_nodes
    left = env.max_capacity - current_load(env, s)
    out = [last_node(env, s) != 0]
    for c in range(1, n + 1):
        out.append(~in_route(env, s, c) & (s.demands[c] <= left))
    return jnp.stack(out)


def feasible(env, s):
    """capacity in [0, max]; no customer served twice; the load never exceeded the vehicle's capacity on the route"""
    n, M = env.num_nodes, env.max_capacity
    t = s.num_total_visits
    r = (s.capacity >= 0) & (s.capacity <= M)
    run = running_load(env, s)
    for i in range(L(env) + 1):
        r = r & ((i >= t) | ((run[i] >= 0) & (run[i] <= M)))
    for i in range(L(env)):
        for j in range(i + 1, L(env)):
            r = r & ((j >= t) | (s.trajectory[i] != s.trajectory[j]) | (s.trajectory[i] == 0))
    return r


def complete(env, s):
    """every customer served exactly once, the route starts and ends at the depot"""
    r = (tr(env, s, 0) == 0) & (last_node(env, s) == 0)
    for c in range(1, env.num_nodes + 1):
        cnt = sum(jnp.where((i < s.num_total_visits) & (s.trajectory[i] == c), 1, 0) for i in range(L(env)))
        r = r & (cnt == 1)
    return r


def coord(env, s, u):
    x = jnp.float32(0.0)
    y = jnp.float32(0.0)
    for j in range(env.num_nodes + 1):
        x = jnp.where(u == j, s.coordinates[j, 0], x)
        y = jnp.where(u == j, s.coordinates[j, 1], y)
    return jnp.stack([x, y])


def dist(env, s, u, v):
    return jnp.linalg.norm(coord(env, s, u) - coord(env, s, v))


def partial_objective(env, s):
    """minus the length of the route walked so far"""
    tot = jnp.float32(0.0)
    for i in range(L(env)):
        tot = tot + jnp.where(i + 1 < s.num_total_visits, dist(env, s, tr(env, s, i), tr(env, s, i + 1)), 0.0)
    return -tot


def tour_length(env, s):
    """length of the closed walk through all 2n slots of `trajectory` (unused slots are the depot: zero-length edges)"""
    n2 = L(env)
    tot = jnp.float32(0.0)
    for i in range(n2):
        tot = tot + dist(env, s, s.trajectory[i], s.trajectory[(i + 1) % n2])
    return tot


def variant(env, s):
    return 2 * env.num_nodes - s.num_total_visits


def penalty(env):
    return -2 * env.num_nodes * math.sqrt(2.0)


def is_penalty(env, r):
    """r is the documented invalid-move reward -2n*sqrt(2) (irrational) up to float32 rounding"""
    return jnp.abs(r - penalty(env)) <= 4e-6 * env.num_nodes


def num_served(env, s):
    return sum(jnp.where(s.visited_mask[c], 1, 0) for c in range(1, env.num_nodes + 1))


def inv(env, s, allow_complete=False):
    n, M, D = env.num_nodes, env.max_capacity, env.max_demand
    t = s.num_total_visits
    at_depot = jnp.where(s.position == 0, 1, 0)
    return {
        "num_total_visits_in_range": (t >= 1) & ((t <= 2 * n + 1) if allow_complete else (t <= 2 * n)),
        "coordinates_in_unit_square": (s.coordinates >= 0) & (s.coordinates <= 1),
        "depot_demand_zero_customer_demand_in_1_max": jnp.stack([s.demands[0] == 0] + [(s.demands[c] >= 1) & (s.demands[c] <= D) for c in range(1, n + 1)]),
        "route_starts_at_depot_entries_are_nodes_rest_is_depot": jnp.stack(
            [jnp.where(i < t, (s.trajectory[i] >= 0) & (s.trajectory[i] <= n), s.trajectory[i] == 0) & ((i > 0) | (s.trajectory[i] == 0))
             for i in range(2 * n)]),
        "feasible": feasible(env, s),
        "capacity_is_max_minus_load_since_last_depot": s.capacity == M - current_load(env, s),
        "position_is_last_route_entry": s.position == last_node(env, s),
        "visited_customers_are_the_route_customers": jnp.stack([s.visited_mask[c] == in_route(env, s, c) for c in range(1, n + 1)]),
        "depot_flag_means_standing_on_depot": s.visited_mask[0] == (s.position == 0),
        "visit_count_bound": t <= 2 * num_served(env, s) + at_depot,
        "not_finished": jnp.asarray(True) if allow_complete else ~jnp.all(s.visited_mask),
    }


def spec_obs(env, s):
    n, M = env.num_nodes, env.max_capacity
    mask = [s.position != 0] + [~s.visited_mask[c] & (s.demands[c] <= s.capacity) for c in range(1, n + 1)]
    return dict(coordinates=s.coordinates, demands_times_max_capacity=s.demands, unvisited_nodes=~s.visited_mask, position=s.position,
                trajectory=s.trajectory, capacity_times_max_capacity=s.capacity, action_mask=jnp.stack(mask))


def spec_step(env, s, a):
    n, M = env.num_nodes, env.max_capacity
    t = s.num_total_visits
    ok = legal(env, s)[a]
    cap2 = jnp.where(ok, jnp.where(a == 0, M, s.capacity - demand_of(env, s, a)), s.capacity)
    visited2 = jnp.stack([jnp.where(ok, a == 0, s.visited_mask[0])] + [s.visited_mask[c] | (ok & (a == c)) for c in range(1, n + 1)])
    traj2 = jnp.stack([jnp.where(ok & (t == i), a, s.trajectory[i]) for i in range(2 * n)])
    t2 = jnp.where(ok, t + 1, t)
    pos2 = jnp.where(ok, a, s.position)
    all_served = jnp.all(visited2[1:])
    finished = all_served & (pos2 == 0)  # nothing left to do: every customer served and back at the depot
    last = ~ok | finished
    tour = jnp.float32(0.0)
    for i in range(2 * n):
        tour = tour + dist(env, s, traj2[i], traj2[(i + 1) % (2 * n)])
    if is_dense(env):
        reward = -dist(env, s, s.position, a)
    else:
        reward = jnp.where(finished, -tour, 0.0)
    return (dict(coordinates=s.coordinates, demands=s.demands, position=pos2, capacity=cap2, visited_mask=visited2, trajectory=traj2,
                 num_total_visits=t2, key=s.key), ok, reward, last)


def problems(env, cfg, tier):
    state, ts, a0 = E.example(env)
    n, M = env.num_nodes, env.max_capacity
    assert env.max_demand <= M  # checked by the constructor
    dense = is_dense(env)
    FIELDS = ("coordinates", "demands", "position", "capacity", "visited_mask", "trajectory", "num_total_visits", "key")
    OBS = ("coordinates", "unvisited_nodes", "position", "trajectory", "action_mask")

    def obs_clauses(o, s, prefix):
        so = spec_obs(env, s)
        out = {prefix + f: getattr(o, f) == so[f] for f in OBS}
        out[prefix + "demands_normalised_by_max_capacity"] = o.demands * M == so["demands_times_max_capacity"]
        out[prefix + "capacity_normalised_by_max_capacity"] = o.capacity * M == so["capacity_times_max_capacity"]
        return out

    def req(s, a):
        u, v = s.position, last_node(env, s)
        return {**inv(env, s), "in_spec": E.in_spec(env, a),
                "assumed.norm_of_zero_vector_is_zero": (u != v) | (dist(env, s, u, v) == 0.0)}

    def ens(s, a):
        s2, ts = env.step(s, a)
        o = ts.observation
        ok = legal(env, s)[a]
        last = ts.step_type == K.LAST
        mid = ts.step_type == K.MID
        r = ts.reward
        t = s.num_total_visits
        P, P2 = partial_objective(env, s), partial_objective(env, s2)
        out = {
            # C04
            "C04.mask_is_exactly_the_legal_moves": o.action_mask == legal(env, s2),
            "C04.legal_move_not_treated_as_invalid": ~ok | ((s2.position == a) & (s2.num_total_visits == t + 1) & (last == complete(env, s2))),
            "C04.illegal_move_is_treated_as_invalid": ok | last,
            # C05
            "C05.illegal_is_last": ok | last,
            "C05.illegal_reward_is_documented": ok | is_penalty(env, r),
            # C06
            "C06.feasible_after_legal_move": ~ok | feasible(env, s2),
            "C06.legal_move_appends_the_node": ~ok | ((s2.num_total_visits == t + 1)
                                                      & jnp.all(jnp.stack([s2.trajectory[i] == jnp.where(i == t, a, s.trajectory[i]) for i in range(2 * n)]))),
            "C06.completion_is_a_complete_feasible_tour": ~(ok & last) | (complete(env, s2) & feasible(env, s2)),
            # C08 (ghost return g' = g + reward, invariant g = partial_objective)
            "C08.objective_at_completion_is_minus_tour_length": ~(ok & last) | (P2 == -tour_length(env, s2)),
            # C11 (no time limit: variant 2n - num_total_visits)
            "C11.variant_decreases": ~mid | (variant(env, s2) < variant(env, s)),
            "C11.variant_bounded": (variant(env, s) >= 0) & (variant(env, s) <= 2 * n - 1) & (variant(env, s2) >= -1) & (~mid | (variant(env, s2) >= 0)),
            "C11.continuing_state_has_a_legal_move": ~mid | jnp.any(legal(env, s2)),
            "canary.position_never_changes": s2.position == s.position,
        }
        for f in FIELDS:
            out["C05.illegal_state_untouched." + f] = ok | (getattr(s2, f) == getattr(s, f))
        if dense:
            out["C08.dense_reward_is_objective_increment"] = ~ok | (r == P2 - P)
        else:
            out["C08.sparse_reward_is_objective_at_last_else_zero"] = ~ok | (r == jnp.where(last, P2, 0.0))
        sp, sp_ok, sp_r, sp_last = spec_step(env, s, a)
        for f in FIELDS:
            out["C09.state." + f] = getattr(s2, f) == sp[f]
        out["C09.reward"] = jnp.where(sp_ok, r == sp_r, is_penalty(env, r))
        out["C09.last"] = last == sp_last
        out["C09.step_type_is_mid_or_last"] = mid | last
        out.update(obs_clauses(o, s2, "C12.obs."))
        for k, v in inv(env, s2, allow_complete=True).items():
            out["C06.inv_" + k] = v
            out["C08.inv_" + k] = v
        for p in ("C06", "C08"):
            out[p + ".inv_continuing_state_is_unfinished_and_within_horizon"] = ~mid | (~jnp.all(s2.visited_mask) & (s2.num_total_visits <= 2 * n))
        out.update(spec_bounds(env.observation_spec, o, "C01.step_obs_bounds"))
        return out

    T = type(env)
    step = dict(title=f"CVRP.step@{cfg}", args=(state, a0), requires=req, ensures=ens, fmul_uf=True,
                targets=[T.step, T._update_state, T._state_to_observation, type(env.reward_fn).__call__],
                note="assumed.norm_of_zero_vector_is_zero: one instance of |0| = 0 for the uninterpreted norm")

    # reset: the real generator runs; its sampler calls uniform(key, (n+1, 2), 0, 1) and randint(key, (n+1,), 1, max_demand)
    # are contract boundaries returning the symbolic `u`, `q` constrained by the assumed sampler contracts.
    def sampler_contract(key, u, q):
        return {"assumed.uniform_in_[0,1)": (u >= 0) & (u < 1), "assumed.randint_in_[1,max_demand)": (q >= 1) & (q < env.max_demand)}

    def reset_ens(key, u, q):
        def uniform(k, shape=(), dtype=float, minval=0.0, maxval=1.0):
            assert tuple(shape) == tuple(u.shape) and float(minval) == 0.0 and float(maxval) == 1.0, (shape, minval, maxval)
            return u

        def randint(k, shape, minval, maxval, dtype=int):
            assert tuple(shape) == tuple(q.shape) and int(minval) == 1 and int(maxval) == env.max_demand, (shape, minval, maxval)
            return q

        with K.with_attr(jax.random, "uniform", uniform), K.with_attr(jax.random, "randint", randint):
            s, ts = env.reset(key)
        o = ts.observation
        out = {
            "C04.reset_mask_is_exactly_the_legal_moves": o.action_mask == legal(env, s),
            "C06.reset_feasible": feasible(env, s),
            "C08.reset_objective_zero": partial_objective(env, s) == 0.0,
            "C09.reset_is_first": ts.step_type == K.FIRST,
            "C09.reset_at_depot_full_capacity_nothing_served": (s.position == 0) & (s.capacity == M) & (num_served(env, s) == 0) & (s.num_total_visits == 1),
            "C11.reset_variant_is_the_horizon_minus_one": variant(env, s) == 2 * n - 1,
            "canary.reset_first_coordinate_is_zero": s.coordinates[0, 0] == 0.0,
        }
        out.update(obs_clauses(o, s, "C12.reset_obs."))
        for k, v in inv(env, s).items():
            out["C06.reset_inv_" + k] = v
            out["C08.reset_inv_" + k] = v
        out.update(spec_bounds(env.observation_spec, o, "C01.reset_obs_bounds"))
        return out

    reset = dict(title=f"CVRP.reset@{cfg}", args=(jax.random.PRNGKey(0), jnp.zeros((n + 1, 2), jnp.float32), jnp.ones((n + 1,), jnp.int32)),
                 requires=sampler_contract, ensures=reset_ens, targets=[T.reset, type(env.generator).__call__], use_stubs=False, fmul_uf=True,
                 note="real generator; jax.random.uniform / randint are contract boundaries (symbolic outcomes as explicit inputs)")
    return [step, reset]
