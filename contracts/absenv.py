"""Abstract environment for the wrapper proofs: `reset` and `step` are UNINTERPRETED functions (custom primitive `uf`
with a batching rule "call once per batch element") with the signature (pytree structure, shapes, dtypes) of a real
environment or of a synthetic one.  Anything proved over it holds for every environment of that signature."""
from typing import NamedTuple

import chex
import jax
import jax.numpy as jnp

from jumanji import specs
from jumanji.env import Environment
from jumanji.types import TimeStep
from jxv.stubs import uf_call


class AbsEnv(Environment):
    def __init__(self, state_ex, ts_ex, action_ex, tag="env"):
        self.state_ex, self.ts_ex, self.action_ex, self.tag = state_ex, ts_ex, action_ex, tag
        self.render_calls = []

    def reset(self, key):
        return uf_call(self.tag + ".reset", (self.state_ex, self.ts_ex), key)

    def step(self, state, action):
        return uf_call(self.tag + ".step", (self.state_ex, self.ts_ex), state, action)

    def render(self, state):
        self.render_calls.append(state)
        return "rendered"

    @property
    def observation_spec(self):
        return None

    @property
    def action_spec(self):
        return specs.DiscreteArray(4)


class Obs(NamedTuple):
    a: chex.Array
    b: chex.Array


@chex.dataclass
class St:
    key: chex.PRNGKey
    x: chex.Array
    n: chex.Array


def _z(shape, dt):
    return jnp.zeros(shape, dt)


def synthetic():
    key = _z((2,), jnp.uint32)
    out = {}
    st = St(key=key, x=_z((3,), jnp.int32), n=_z((), jnp.int32))
    out["scalar_obs"] = (St(key=key, x=_z((), jnp.float32), n=_z((), jnp.int32)),
                         TimeStep(step_type=_z((), jnp.int8), reward=_z((), jnp.float32), discount=_z((), jnp.float32),
                                  observation=_z((), jnp.float32), extras={}), _z((), jnp.int32))
    out["nested_obs_extras"] = (st, TimeStep(step_type=_z((), jnp.int8), reward=_z((), jnp.float32), discount=_z((), jnp.float32),
                                             observation=Obs(a=_z((2,), jnp.int32), b=_z((), jnp.float32)),
                                             extras={"m": _z((), jnp.int32)}), _z((), jnp.int32))
    out["multi_agent"] = (st, TimeStep(step_type=_z((), jnp.int8), reward=_z((2,), jnp.float32), discount=_z((2,), jnp.float32),
                                       observation=Obs(a=_z((2, 2), jnp.int32), b=_z((2,), jnp.bool_)), extras={}), _z((2,), jnp.int32))
    return out


def real_signature(env):
    """(state, timestep, action) shape structs of a real environment (jax.eval_shape: no execution)"""
    key = jax.random.PRNGKey(0)
    st, ts = jax.eval_shape(env.reset, key)
    zeros = lambda t: jax.tree_util.tree_map(lambda x: jnp.zeros(x.shape, x.dtype), t)
    a = jnp.asarray(env.action_spec.generate_value())
    return zeros(st), zeros(ts), a
