"""Sidecar contract for jumanji.environments.routing.maze.env:Maze (rules written from the game's documentation:
4 moves Up/Right/Down/Left; a move is legal iff the target cell is inside the grid and not a wall; an illegal move is
ignored; the episode ends when the target is reached, no move is possible, or at the time limit)."""
import jax.numpy as jnp

from contracts import common as K
from contracts import envs as E

ENV = "Maze"
MOVES = ((-1, 0), (0, 1), (1, 0), (0, -1))


def free(env, walls, r, c):
    R, C = env.num_rows, env.num_cols
    inside = (r >= 0) & (r < R) & (c >= 0) & (c < C)
    return inside & ~walls[jnp.clip(r, 0, R - 1), jnp.clip(c, 0, C - 1)]


def legal(env, s):
    p = s.agent_position
    return jnp.stack([free(env, s.walls, p.row + dr, p.col + dc) for dr, dc in MOVES])


def inv(env, s, T):
    return {
        "agent_on_free_cell": free(env, s.walls, s.agent_position.row, s.agent_position.col),
        "target_in_grid": (s.target_position.row >= 0) & (s.target_position.row < env.num_rows)
                          & (s.target_position.col >= 0) & (s.target_position.col < env.num_cols),
        "cached_mask_is_the_mask": s.action_mask == legal(env, s),
        "counter": (s.step_count >= 0) & (s.step_count < T),
    }


def spec_obs(s):
    return dict(agent_position=s.agent_position, target_position=s.target_position, walls=s.walls, step_count=s.step_count,
                action_mask=s.action_mask)


def problems(env, cfg, tier):
    state, ts, a = E.example(env)
    T0 = jnp.int32(env.time_limit)

    def req(T, s, a):
        return {**inv(env, s, T), "in_spec": E.in_spec(env, a), "T_positive": T >= 1}

    def ens(T, s, a):
        with K.with_attr(env, "time_limit", T):
            s2, ts = env.step(s, a)
        ok = legal(env, s)[a]
        mv = jnp.asarray(MOVES)[a]
        p, q, tg = s.agent_position, s2.agent_position, s.target_position
        last = ts.step_type == K.LAST
        reached = (q.row == tg.row) & (q.col == tg.col)
        o = ts.observation
        out = {
            "C04.mask_is_exactly_the_legal_moves": o.action_mask == legal(env, s2),
            "C04.cached_mask_is_the_mask": s2.action_mask == legal(env, s2),
            "C04.legal_move_is_executed": ~ok | ((q.row == p.row + mv[0]) & (q.col == p.col + mv[1])),
            "C05.illegal_move_is_ignored": ok | ((q.row == p.row) & (q.col == p.col)),
            "C05.illegal_move_episode_continues_like_noop": ok | (last == (reached | (s.step_count + 1 >= T) | ~jnp.any(legal(env, s2)))),
            "C05.illegal_move_frame": ok | ((s2.walls == s.walls).all() & (s2.target_position.row == tg.row) & (s2.target_position.col == tg.col)
                                            & (s2.step_count == s.step_count + 1)),
            "C09.position": (q.row == jnp.where(ok, p.row + mv[0], p.row)) & (q.col == jnp.where(ok, p.col + mv[1], p.col)),
            "C09.reward": ts.reward == jnp.where(reached, 1.0, 0.0),
            "C09.last": last == (reached | (s.step_count + 1 >= T) | ~jnp.any(legal(env, s2))),
            "C09.frame": (s2.walls == s.walls).all() & (s2.target_position.row == tg.row) & (s2.target_position.col == tg.col)
                         & (s2.key == s.key).all(),
            "C11.counting": s2.step_count == s.step_count + 1,
            "C11.never_later": (s.step_count + 1 < T) | last,
            "C11.never_earlier": ~last | (s.step_count + 1 >= T) | reached | ~jnp.any(legal(env, s2)),
            "C12.observation_is_a_view": K.tree_eq(tuple(spec_obs(s2).values()),
                                                   (o.agent_position, o.target_position, o.walls, o.step_count, o.action_mask)),
            "canary.agent_never_moves": q.row == p.row,
        }
        for k, v in inv(env, s2, T).items():
            out["C07." + k] = last | v
        out["C07.agent_on_free_cell_even_at_last"] = free(env, s2.walls, q.row, q.col)
        out.update(K.spec_bounds(env.observation_spec, o, "C01.step_obs_bounds"))
        return out

    step = dict(title=f"Maze.step@{cfg}", args=(T0, state, a), requires=req, ensures=ens, targets=[type(env).step, type(env)._compute_action_mask,
                                                                                                    type(env)._observation_from_state])

    # reset, with the generator as a contract boundary (its post-condition is C10's obligation)
    def gen_post(g, key):
        return {"agent_on_free_cell": free(env, g.walls, g.agent_position.row, g.agent_position.col),
                "target_in_grid": (g.target_position.row >= 0) & (g.target_position.row < env.num_rows)
                                  & (g.target_position.col >= 0) & (g.target_position.col < env.num_cols),
                "step_count_zero": g.step_count == 0}

    def reset_ens(g, key):
        s, ts = K.reset_from(env, "generator", g, key)
        o = ts.observation
        out = {"C04.reset_mask_is_exactly_the_legal_moves": o.action_mask == legal(env, s),
               "C11.reset_step_count_zero": s.step_count == 0,
               "C12.reset_observation_is_a_view": K.tree_eq(tuple(spec_obs(s).values()),
                                                            (o.agent_position, o.target_position, o.walls, o.step_count, o.action_mask)),
               "canary.reset_mask_all_true": o.action_mask.all()}
        for k, v in inv(env, s, jnp.int32(1)).items():
            out["C07.reset_" + k] = v
        out.update(K.spec_bounds(env.observation_spec, o, "C01.reset_obs_bounds"))
        return out

    reset = dict(title=f"Maze.reset@{cfg}", args=(state, ts.observation.walls[0, :2].astype(jnp.uint32)), requires=gen_post, ensures=reset_ens,
                 targets=[type(env).reset], note="generator replaced by its post-condition (contract boundary; the generator's own contract is C10)")
    # reset with the REAL generator; only the heavy maze construction (generate_maze: data-dependent loops) is a contract boundary: it
    # returns symbolic walls with at least two free cells; the sampling and the decoding of start/target are the real code
    from jumanji.environments.routing.maze import generator as G

    def gen2_req(walls, key):
        return {"at_least_two_free_cells": jnp.sum(~walls) >= 2}

    def gen2_ens(walls, key):
        with K.with_attr(G.maze_generation, "generate_maze", lambda w, h, k: walls):
            s, ts = env.reset(key)
        o = ts.observation
        tg = s.target_position
        out = {"C10.start_cell_is_free": free(env, s.walls, s.agent_position.row, s.agent_position.col),
               "C10.target_cell_is_free": free(env, s.walls, tg.row, tg.col),
               "C10.start_and_target_differ": (s.agent_position.row != tg.row) | (s.agent_position.col != tg.col),
               "C04.reset_mask_is_exactly_the_legal_moves": o.action_mask == legal(env, s),
               "C11.reset_step_count_zero": s.step_count == 0,
               "canary.start_is_top_left": (s.agent_position.row == 0) & (s.agent_position.col == 0)}
        for k, v in inv(env, s, jnp.int32(1)).items():
            out["C07.reset_" + k] = v
        out.update(K.spec_bounds(env.observation_spec, o, "C01.reset_obs_bounds"))
        return out

    reset2 = None
    if isinstance(env.generator, G.RandomGenerator):
        reset2 = dict(title=f"Maze.reset(real generator, generate_maze as boundary)@{cfg}", args=(state.walls, jnp.zeros((2,), jnp.uint32)), requires=gen2_req,
                      ensures=gen2_ens, targets=[type(env).reset, G.RandomGenerator.__call__],
                      note="maze_generation.generate_maze replaced by symbolic walls with >= 2 free cells (its connectivity is C10's bounded part)")
    return [step, reset] + ([reset2] if reset2 else [])
