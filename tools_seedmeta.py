"""writes seeded/<name>/meta.json (development helper): python tools_seedmeta.py <name> <property> <caught: yes|no> "<by which obligations>" "<what I ran>" """
import json, os, sys
name, prop, caught, by, ran = sys.argv[1:6]
d = os.path.join("/verif/seeded", name)
seed = json.load(open(os.path.join(d, "meta.seed.json"))) if os.path.exists(os.path.join(d, "meta.seed.json")) else {}
meta = {"property": prop, "summary": seed.get("summary"), "needs_to_manifest": seed.get("needs"), "files": seed.get("files"),
        "existing_tests_with_change": seed.get("tests_run"), "demo": "demo.py exits 1 with the change applied and 0 on the unchanged tree (confirmed by the lead in the scratch worktree and on /repo)",
        "caught_by_check": caught, "failing_obligations": by, "what_was_run": ran}
json.dump(meta, open(os.path.join(d, "meta.json"), "w"), indent=1)
if os.path.exists(os.path.join(d, "meta.seed.json")):
    os.unlink(os.path.join(d, "meta.seed.json"))
print("wrote", d)
