#!/bin/sh
# Builds /verif/.venv offline: python3.12 venv (from /venv's interpreter) + z3-solver wheel from the
# offline wheelhouse + a .pth that exposes /venv's site-packages (jax, jumanji's deps).
set -e
cd "$(dirname "$0")"
if [ ! -x .venv/bin/python ] || ! .venv/bin/python -c "import z3, jax" 2>/dev/null; then
  rm -rf .venv
  /venv/bin/python -m venv .venv
  PIP_NO_INDEX=1 .venv/bin/python -m pip install -q --no-index --find-links /opt/veriftools/wheels z3-solver jsonschema
  SP=$(.venv/bin/python -c "import sysconfig; print(sysconfig.get_paths()['purelib'])")
  echo "import site; site.addsitedir('/venv/lib/python3.12/site-packages')" > "$SP/_overlay.pth"
fi
.venv/bin/python -c "import z3, jax; print('z3', z3.get_version_string(), 'jax', jax.__version__)"
mkdir -p evidence replays
