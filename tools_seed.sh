#!/bin/sh
# usage: tools_seed.sh <prop> <worktree-with-change-applied> <name> [check args...]   (development helper)
# confirms the seeded change (demo fails with it, passes on /repo), runs the check against the changed tree, stores it under seeded/<name>/
P=$1; WT=$2; NAME=$3; shift 3
D=/verif/seeded/$NAME; mkdir -p $D
git -C $WT diff -- jumanji > $D/patch.diff
cp $WT/_seed/demo.py $D/demo.py 2>/dev/null; cp $WT/_seed/meta.json $D/meta.seed.json 2>/dev/null
echo "--- demo on changed tree:"; (cd $WT && timeout 900 /venv/bin/python _seed/demo.py > /tmp/demo_changed.log 2>&1; echo "exit=$?"; tail -3 /tmp/demo_changed.log)
echo "--- demo on /repo:"; (cd /repo && mkdir -p /tmp/_seedrun && cp $WT/_seed/demo.py /tmp/_seedrun/demo.py && PYTHONPATH=/repo timeout 900 /venv/bin/python /tmp/_seedrun/demo.py > /tmp/demo_orig.log 2>&1; echo "exit=$?"; tail -2 /tmp/demo_orig.log)
echo "--- check $P against changed tree:"; cd /verif && VERIF_REPO=$WT ./check $P --no-evidence "$@" 2>&1 | grep -v Warn | grep -E "VIOLATION|CHECKER-ERROR|UNDECIDED|tier=" | cut -c1-260 | head -12
