#!/bin/sh
# usage: tools_seed.sh <prop> <worktree-with-change-applied> <name> [check args...]   (development helper)
# confirms the seeded change (demo fails with it, passes on /repo), runs the check against the changed tree, stores it under seeded/<name>/
P=$1; WT=$2; NAME=$3; shift 3
D=/verif/seeded/$NAME; mkdir -p $D
git -C $WT diff -- jumanji > $D/patch.diff
echo "--- files changed:"; git -C $WT status --short | grep -v '??' 
DEMO=$WT/demo.py; [ -f $WT/_seed/demo.py ] && DEMO=$WT/_seed/demo.py
cp $DEMO $D/demo.py
echo "--- demo on changed tree:"; (cd /tmp && PYTHONPATH=$WT timeout 900 /venv/bin/python $D/demo.py > /tmp/demo_changed_$NAME.log 2>&1; echo "exit=$?"; tail -3 /tmp/demo_changed_$NAME.log)
echo "--- demo on /repo:"; (cd /tmp && PYTHONPATH=/repo timeout 900 /venv/bin/python $D/demo.py > /tmp/demo_orig_$NAME.log 2>&1; echo "exit=$?"; tail -2 /tmp/demo_orig_$NAME.log)
echo "--- check $P against changed tree:"; cd /verif && VERIF_REPO=$WT ./check $P --no-evidence "$@" 2>&1 | grep -v Warn | grep -E "VIOLATION|CHECKER-ERROR|UNDECIDED|tier=" | cut -c1-260 | head -12
