import warnings; warnings.filterwarnings('ignore')
import jax, jax.numpy as jnp, numpy as np
from jumanji.environments import PacMan
env = PacMan(); step = jax.jit(env.step)
mism = 0; tot = 0; ex = None
for ep in range(4):
    state, ts = env.reset(jax.random.PRNGKey(ep)); key = jax.random.PRNGKey(1000 + ep)
    for t in range(150):
        mask = np.asarray(ts.observation.action_mask); p0 = (int(state.player_locations.x), int(state.player_locations.y))
        key, k = jax.random.split(key); a = int(jax.random.randint(k, (), 0, 5))
        s2, ts2 = step(state, jnp.int32(a)); p1 = (int(s2.player_locations.x), int(s2.player_locations.y))
        if int(ts2.step_type) == 2: break
        moved = p1 != p0
        if a < 4:
            tot += 1
            if moved != bool(mask[a]):
                mism += 1
                if ex is None: ex = (ep, t, a, mask.tolist(), p0, p1)
        state, ts = s2, ts2
print('PacMan: mask[a] != (player actually moved) in', mism, 'of', tot, 'steps; first', ex)
