import warnings; warnings.filterwarnings('ignore')
import time, sys, numpy as np, jax, jax.numpy as jnp, z3, multiprocessing as mp
from symjax import *
import havoc
from jumanji.environments import Connector
from jumanji.environments.routing.connector.generator import UniformRandomGenerator as UGen
Z = lambda x: z3.BoolVal(bool(x)) if isinstance(x, (bool, np.bool_)) else (z3.IntVal(int(x)) if is_c(x) and not isinstance(x, float) else (z3.RealVal(x) if is_c(x) else x))
def flat_sym(sym, tree, prefix):
    leaves, treedef = jax.tree_util.tree_flatten(tree); out = []
    for i, l in enumerate(leaves):
        l = jnp.asarray(l); dt = jnp.int32 if l.dtype == jnp.uint32 else l.dtype
        out.append(sym.sym_array(f'{prefix}{i}', l.shape, dt))
    return out, treedef
G, NA = int(sys.argv[1]), int(sys.argv[2])
env = Connector(UGen(G, NA), time_limit=50)
state, ts = env.reset(jax.random.PRNGKey(0)); a = env.action_spec.generate_value()
cj = jax.make_jaxpr(env.step)(state, a); otree = jax.tree_util.tree_structure(jax.eval_shape(env.step, state, a))
sym = Sym(); sl, sd = flat_sym(sym, state, 's'); al, ad = flat_sym(sym, a, 'a')
S = jax.tree_util.tree_unflatten(sd, sl); A = al[0]
t0 = time.time(); outs = sym.eval_closed(cj, *sl, *al); NS, TS = jax.tree_util.tree_unflatten(otree, outs); print('connector eval %.1fs' % (time.time() - t0))
cells = [(i, j) for i in range(G) for j in range(G)]
def INV(St):
    cs = []
    for p in cells: cs += [Z(St.grid[p]) >= 0, Z(St.grid[p]) <= 3 * NA]
    for i in range(NA):
        pr, pc = Z(St.agents.position[i, 0]), Z(St.agents.position[i, 1]); tr, tc = Z(St.agents.target[i, 0]), Z(St.agents.target[i, 1])
        cs += [Z(St.agents.id[i]) == i, pr >= 0, pr < G, pc >= 0, pc < G, tr >= 0, tr < G, tc >= 0, tc < G]
        conn = z3.And(pr == tr, pc == tc)
        for p in cells:
            cs.append((Z(St.grid[p]) == 2 + 3 * i) == z3.And(pr == p[0], pc == p[1]))                       # the head cell is exactly the position
            cs.append((Z(St.grid[p]) == 3 + 3 * i) == z3.And(tr == p[0], tc == p[1], z3.Not(conn)))         # the target cell is the target unless connected
    return cs
pre = z3.And(*INV(S), *[z3.And(A[i] >= 0, A[i] <= 4) for i in range(NA)], Z(S.step_count[()]) >= 0, Z(S.step_count[()]) < 50)
goal = INV(NS); print('conjuncts', len(goal))
def work(i):
    s = z3.Solver(); s.set('timeout', 300000); s.add(*sym.assumes); s.add(pre, z3.Not(goal[i])); t = time.time(); r = s.check(); return i, str(r), round(time.time() - t, 2), (s.model() if False else None)
if __name__ == '__main__':
    t0 = time.time()
    with mp.get_context('fork').Pool(14) as p: res = p.map(work, range(len(goal)))
    bad = [r for r in res if r[1] != 'unsat']
    print(f'Connector {G}x{G}/{NA} agents: occupancy invariant under ANY joint action: proved', len(res) - len(bad), 'of', len(res), 'max', max(r[2] for r in res), 's wall', round(time.time() - t0, 1), 'not proved', [(b[0], b[1]) for b in bad[:6]])
    if bad and bad[0][1] == 'sat':
        i = bad[0][0]; s = z3.Solver(); s.add(*sym.assumes); s.add(pre, z3.Not(goal[i])); s.check(); m = s.model(); ev = lambda x: m.eval(Z(x), model_completion=True)
        print(' cex grid', [[ev(S.grid[r, c]) for c in range(G)] for r in range(G)], 'pos', [[ev(S.agents.position[k, d]) for d in range(2)] for k in range(NA)], 'tgt', [[ev(S.agents.target[k, d]) for d in range(2)] for k in range(NA)], 'act', [ev(A[k]) for k in range(NA)])
        print(' new grid', [[ev(NS.grid[r, c]) for c in range(G)] for r in range(G)], 'new pos', [[ev(NS.agents.position[k, d]) for d in range(2)] for k in range(NA)], 'failed conjunct', goal[i].sexpr()[:200])
