(set-logic ALL)
(define-fun DIGITS () RegLan (re.+ (re.range "0" "9")))
(declare-const n Int)
(assert (>= n 0))
; str(n) is a digit string and int(str(n)) == n
(assert (not (and (str.in_re (str.from_int n) DIGITS) (= (str.to_int (str.from_int n)) n))))
(check-sat)
