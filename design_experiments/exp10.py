import warnings; warnings.filterwarnings('ignore')
import time, sys, numpy as np, jax, jax.numpy as jnp, z3
from symjax import *
import havoc
from jumanji.environments import Maze, TSP, PacMan
from jumanji.environments.routing.maze.generator import RandomGenerator as MGen
from jumanji.environments.routing.tsp.generator import UniformGenerator as TGen
from jumanji.environments.routing.tsp.reward import DenseReward, SparseReward
def flat_sym(sym, tree, prefix):
    leaves, treedef = jax.tree_util.tree_flatten(tree); out = []
    for i, l in enumerate(leaves):
        l = jnp.asarray(l); dt = jnp.int32 if l.dtype == jnp.uint32 else l.dtype
        out.append(sym.sym_array(f'{prefix}{i}', l.shape, dt))
    return out, treedef
# ---- (1) symbolic time limit: one proof for every T ----
for mk, nm in ((lambda: Maze(MGen(3, 4), time_limit=5), 'Maze 3x4'), (lambda: PacMan(time_limit=5), 'PacMan')):
    env = mk(); state, ts = env.reset(jax.random.PRNGKey(0)); a = env.action_spec.generate_value()
    def f(T, s, a):
        old = env.time_limit; env.time_limit = T
        try: return env.step(s, a)
        finally: env.time_limit = old
    cj = jax.make_jaxpr(f)(jnp.int32(5), state, a)
    otree = jax.tree_util.tree_structure(jax.eval_shape(f, jnp.int32(5), state, a))
    sym = Sym(); T = sym.sym_array('T', (), jnp.int32); sl, sd = flat_sym(sym, state, 's'); al, ad = flat_sym(sym, a, 'a')
    S = jax.tree_util.tree_unflatten(sd, sl)
    t0 = time.time(); outs = sym.eval_closed(cj, T, *sl, *al)
    NS, TS = jax.tree_util.tree_unflatten(otree, outs)
    sc, st, Tv = zint(S.step_count[()]), zint(TS.step_type[()]), T[()]
    pre = z3.And(sc >= 0, sc < 2**31 - 1)
    print(nm, 'eval %.2fs' % (time.time() - t0))
    prove(sym, pre, zint(NS.step_count[()]) == sc + 1, name=f'{nm}: step_count counts steps')
    prove(sym, pre, z3.Implies(sc + 1 >= Tv, st == 2), name=f'{nm}: never later than T (T symbolic)')
    prove(sym, z3.And(pre, Tv == 5), z3.Implies(sc + 1 >= 5, st == 2), name=f'{nm}: sanity with T=5')
# constructor contract, natively concrete here (Engine P would make T symbolic)
print('PacMan(time_limit=7).time_limit =', PacMan(time_limit=7).time_limit)

# ---- (3) TSP: return telescopes to -tour length; dense == sparse (real arithmetic, norm uninterpreted) ----
NORM = z3.Function('norm2', z3.RealSort(), z3.RealSort(), z3.RealSort())
def _p_sqrt(self, e, x):   # sqrt(dx^2+dy^2) only ever appears as a norm: keep it opaque
    SQ = z3.Function('sqrt', z3.RealSort(), z3.RealSort())
    return vmap1(lambda v: SQ(zreal(v)) if not is_c(v) else float(v) ** 0.5, x)
Sym.p_sqrt = _p_sqrt
import symjax
_FMUL = z3.Function('fmul', z3.RealSort(), z3.RealSort(), z3.RealSort())
_orig_arith = symjax.arith
def arith_uf(op, a, b, k):
    if op == 'mul' and k == 'f' and not is_c(a) and not is_c(b):
        x, y = (a, b) if a.get_id() <= b.get_id() else (b, a)
        return _FMUL(x, y)      # nonlinear real product kept uninterpreted (commutativity by argument ordering)
    return _orig_arith(op, a, b, k)
symjax.arith = arith_uf
n = 4
for RF, rn in ((DenseReward, 'dense'), (SparseReward, 'sparse')):
    env = TSP(TGen(n), reward_fn=RF()); state, ts = env.reset(jax.random.PRNGKey(0)); a = env.action_spec.generate_value()
    cj = jax.make_jaxpr(env.step)(state, a)
    otree = jax.tree_util.tree_structure(jax.eval_shape(env.step, state, a))
    sym = Sym(); sl, sd = flat_sym(sym, state, 's'); al, ad = flat_sym(sym, a, 'a')
    S = jax.tree_util.tree_unflatten(sd, sl); av = al[0][()]
    outs = sym.eval_closed(cj, *sl, *al); NS, TS = jax.tree_util.tree_unflatten(otree, outs)
    SQ = z3.Function('sqrt', z3.RealSort(), z3.RealSort())
    def d(St, i, j):   # distance between trajectory entries i, j of state St (indices symbolic via ite over cities)
        def coord(idx, k):
            r = zreal(St.coordinates[n - 1, k])
            for c in range(n - 2, -1, -1): r = z3.If(idx == c, zreal(St.coordinates[c, k]), r)
            return r
        ti, tj = zint(St.trajectory[i]), zint(St.trajectory[j])
        dx, dy = coord(ti, 0) - coord(tj, 0), coord(ti, 1) - coord(tj, 1)
        return SQ(arith_uf('mul', dx, dx, 'f') + arith_uf('mul', dy, dy, 'f'))
    def partial_len(St, k):   # ghost: length of the open path over the first k visited cities, k symbolic
        tot = z3.RealVal(0)
        for i in range(n - 1): tot = tot + z3.If(k > i + 1, d(St, i, i + 1), 0)
        return tot
    nv, nv2 = zint(S.num_visited[()]), zint(NS.num_visited[()])
    inv = z3.And(nv >= 0, nv < n, av >= 0, av < n,
                 *[z3.And(zint(S.trajectory[i]) >= -1, zint(S.trajectory[i]) < n) for i in range(n)],
                 *[z3.Implies(nv > i, z3.And(zint(S.trajectory[i]) >= 0)) for i in range(n)],
                 z3.Implies(nv > 0, z3.Or(*[z3.And(nv == i + 1, zint(S.position[()]) == zint(S.trajectory[i])) for i in range(n)])),
                 *[z3.Implies(nv > j, zint(S.trajectory[i]) != zint(S.trajectory[j])) for i in range(n) for j in range(i + 1, n)],
                 # visited mask == set of trajectory prefix
                 *[zbool(S.visited_mask[c]) == z3.Or(*[z3.And(nv > i, zint(S.trajectory[i]) == c) for i in range(n)]) for c in range(n)])
    legal = z3.And(*[z3.Implies(av == c, z3.Not(zbool(S.visited_mask[c]))) for c in range(n)])
    rew = zreal(TS.reward[()]); last = zint(TS.step_type[()]) == 2
    closing = z3.If(nv2 == n, d(NS, n - 1, 0), 0)
    if rn == 'dense':
        goal = rew == -(partial_len(NS, nv2) - partial_len(S, nv)) - closing
    else:
        goal = rew == z3.If(nv2 == n, -(partial_len(NS, nv2) + closing), 0)
    prove(sym, z3.And(inv, legal), goal, timeout=120000, name=f'TSP n={n} {rn}: reward == increment of -(tour length) ghost')
    if rn == 'dense':
        s = z3.Solver(); s.add(*sym.assumes); s.add(inv, legal, z3.Not(goal)); print(s.check()); m = s.model()
        ev = lambda x: m.eval(x, model_completion=True)
        print(' nv', ev(nv), 'a', ev(av), 'pos', ev(zint(S.position[()])), 'traj', [ev(zint(S.trajectory[i])) for i in range(n)], 'nv2', ev(nv2))
        print(' reward', ev(rew), 'expected', ev(-(partial_len(NS, nv2) - partial_len(S, nv)) - closing))
        print(' coords', [[ev(zreal(S.coordinates[c, k])) for k in range(2)] for c in range(n)])
        print(' visited', [ev(zbool(S.visited_mask[c])) for c in range(n)])
        break
