import warnings; warnings.filterwarnings('ignore')
import time, numpy as np, jax, jax.numpy as jnp, z3
from symjax import *
from jumanji.environments import GraphColoring, BinPack
from jumanji.environments.logic.graph_coloring.generator import RandomGenerator as GCGen
from jumanji.environments.packing.bin_pack.generator import RandomGenerator as BGen

def flat_sym(sym, tree, prefix, bounds=None):
    leaves, treedef = jax.tree_util.tree_flatten(tree)
    out = []
    for i, l in enumerate(leaves):
        l = jnp.asarray(l)
        out.append(sym.sym_array(f'{prefix}{i}', l.shape, l.dtype) if l.dtype != jnp.uint32 else np.empty(l.shape, dtype=object))
    return out, treedef

N = 4
env = GraphColoring(GCGen(N, 0.5))
state, ts = env.reset(jax.random.PRNGKey(0)); act = env.action_spec.generate_value()
cj = jax.make_jaxpr(env.step)(state, act)
out_tree = jax.tree_util.tree_structure(jax.eval_shape(env.step, state, act))
sym = Sym(); sl, sd = flat_sym(sym, state, 's'); al, ad = flat_sym(sym, act, 'a')
S = jax.tree_util.tree_unflatten(sd, sl); a = al[0][()]
t0 = time.time(); outs = sym.eval_closed(cj, *sl, *al); print('gc eval', time.time() - t0)
NS, TS = jax.tree_util.tree_unflatten(out_tree, outs)
cur = S.current_node_index[()]
adj = S.adj_matrix
inv = z3.And(a >= 0, a < N, cur >= 0, cur < N - 1,
    *[z3.And(S.colors[i] >= -1, S.colors[i] < N) for i in range(N)],
    *[zbool(adj[i, j]) == zbool(adj[j, i]) for i in range(N) for j in range(N)], *[z3.Not(zbool(adj[i, i])) for i in range(N)],
    # nodes < cur coloured, others not
    *[z3.If(i < cur, S.colors[i] >= 0, S.colors[i] == -1) for i in range(N)],
    zbool(S.action_mask[()] if False else True))
# property C04: next mask entry c True <=> no neighbour of next node has colour c (w.r.t. NEW colouring)
nxt = NS.current_node_index[()]
def legal(node, c, colors):
    return z3.And(*[z3.Not(z3.And(node == i, zbool(adj[i, j]), colors[j] == c)) for i in range(N) for j in range(N)])
goal = z3.And(*[zbool(NS.action_mask[c]) == legal(nxt, c, NS.colors) for c in range(N)])
valid_in = zbool(True)
for c in range(N): valid_in = z3.And(valid_in, z3.Implies(a == c, zbool(S.action_mask[c])))
r, m = prove(sym, z3.And(inv, valid_in), goal, name='graph-coloring: next mask == legal colours (expected FAIL: stale colours)')
if m is not None:
    ev = lambda x: m.eval(lift(x, 'i') if not z3.is_bool(x) else x, model_completion=True)
    print('  cex: cur', ev(cur), 'action', ev(a), 'colors', [ev(S.colors[i]) for i in range(N)], 'adj', [[1 if z3.is_true(m.eval(zbool(adj[i,j]), model_completion=True)) else 0 for j in range(N)] for i in range(N)])

# ---- BinPack tiny ----
for (ni, ne) in ((3, 5),):
    env = BinPack(BGen(max_num_items=ni, max_num_ems=ne, split_num_same_items=1), obs_num_ems=ne, normalize_dimensions=False)
    state, ts = env.reset(jax.random.PRNGKey(0)); act = env.action_spec.generate_value()
    t0 = time.time(); cj = jax.make_jaxpr(env.step)(state, act); print('binpack trace', time.time() - t0)
    out_tree = jax.tree_util.tree_structure(jax.eval_shape(env.step, state, act))
    sym = Sym(); sl, sd = flat_sym(sym, state, 's'); al, ad = flat_sym(sym, act, 'a')
    S = jax.tree_util.tree_unflatten(sd, sl)
    t0 = time.time()
    try:
        outs = sym.eval_closed(cj, *sl, *al); print('binpack eval', time.time() - t0)
        NS, TS = jax.tree_util.tree_unflatten(out_tree, outs)
        print('ok; sample term size', len(str(NS.ems_mask[0])))
    except Exception as ex:
        import traceback; traceback.print_exc()
