import warnings; warnings.filterwarnings('ignore')
import time, sys, numpy as np, jax, jax.numpy as jnp, z3
from symjax import *
from jumanji.environments.packing.tetris import utils as tu
from jumanji.environments.packing.tetris.constants import TETROMINOES_LIST
Z = lambda x: z3.BoolVal(bool(x)) if isinstance(x, (bool, np.bool_)) else (z3.IntVal(int(x)) if is_c(x) and not isinstance(x, float) else x)
R, C = 5, 4
T = np.array(TETROMINOES_LIST)
res = {}
for a in range(7):
    for b in range(4):
        tet = jnp.asarray(T[a, b], jnp.int32)
        cj = jax.make_jaxpr(lambda g: tu.tetromino_action_mask(g, tet))(jnp.zeros((R + 3, C + 3), jnp.int32))
        sym = Sym(); g = sym.sym_array('g', (R + 3, C + 3), jnp.int32, lo=0, hi=1)
        (mask,) = sym.eval_closed(cj, g)
        pad_empty = z3.And(*[g[i, j] == 0 for i in range(R + 3) for j in range(C + 3) if i >= R or j >= C])
        for x in range(C):
            cells = [(i, x + j) for i in range(4) for j in range(4) if T[a, b, i, j]]
            inside = all(i < R and j < C for i, j in cells)
            fits = z3.And(*[g[i, j] == 0 for i, j in cells]) if inside else z3.BoolVal(False)
            s = z3.Solver(); s.add(*sym.assumes); s.add(pad_empty, Z(mask[x]) != fits); r = s.check()
            if r == z3.sat:
                m = s.model(); grid = [[m.eval(g[i, j], model_completion=True).as_long() for j in range(C)] for i in range(R)]
                res[(a, b, x)] = (z3.is_true(m.eval(Z(mask[x]), model_completion=True)), grid)
print('pieces x rotations x columns where mask != "fits at the top row":', len(res), 'of', 7 * 4 * C)
for k, (mv, grid) in list(res.items())[:4]:
    print(' piece', k[0], 'rot', k[1], 'col', k[2], 'mask says', mv, 'piece', T[k[0], k[1]].tolist(), 'grid', grid)
