"""Throw-away prototype of the Python-level engine: run the REAL function on proxy objects, fork on bool()."""
import warnings; warnings.filterwarnings('ignore')
import operator, itertools, time
import numpy as np, jax, jax.numpy as jnp, z3
import symjax
from symjax import Sym, is_c, zbool, kind, lift as zlift

ENG = Sym()
class Abort(Exception): pass
class Ctx:
    cur = None
    base = []
    def __init__(self, prefix): self.prefix, self.taken, self.pc, self.pending = list(prefix), [], [], []
    def decide(self, term):
        if is_c(term): return bool(term)
        i = len(self.taken)
        if i < len(self.prefix): v = self.prefix[i]
        else:
            s = z3.Solver(); s.add(*ENG.assumes); s.add(*Ctx.base); s.add(*self.pc)
            s.push(); s.add(term); t_ok = s.check() == z3.sat; s.pop()
            s.push(); s.add(z3.Not(term)); f_ok = s.check() == z3.sat; s.pop()
            if t_ok and f_ok: self.pending.append(self.taken + [False]); v = True
            elif t_ok: v = True
            elif f_ok: v = False
            else: raise Abort('infeasible path')
        self.taken.append(v); self.pc.append(term if v else z3.Not(term)); return v

class SymArr:
    __array_priority__ = 1000
    def __init__(self, el, dtype): self._el = el; self.shape = el.shape; self.dtype = jnp.dtype(dtype); self.ndim = el.ndim; self.size = el.size
    def __bool__(self):
        if self.size != 1: raise ValueError('The truth value of an array with more than one element is ambiguous. Use a.any() or a.all()')
        x = self._el.reshape(-1)[0]; k = kind(self.dtype)
        return Ctx.cur.decide(x if k == 'b' else (x != 0))
    def any(self, *a, **k): return lift(lambda v: v.any(*a, **k), self)
    def all(self, *a, **k): return lift(lambda v: v.all(*a, **k), self)
    def astype(self, dt): return lift(lambda v: v.astype(dt), self)
for name in ('lt', 'le', 'gt', 'ge', 'eq', 'ne', 'add', 'sub', 'mul', 'and_', 'or_'):
    op = getattr(operator, name)
    setattr(SymArr, f'__{name.rstrip("_")}__', (lambda op: lambda self, other: lift(op, self, other))(op))
    setattr(SymArr, f'__r{name.rstrip("_")}__', (lambda op: lambda self, other: lift(op, other, self))(op))
SymArr.__invert__ = lambda self: lift(operator.invert, self)
SymArr.__hash__ = None

def lift(fn, *args, **kw):
    pos = [i for i, a in enumerate(args) if isinstance(a, SymArr)]
    kpos = [k for k, a in kw.items() if isinstance(a, SymArr)]
    def f(*s):
        full = list(args); kk = dict(kw)
        for i, v in zip(pos, s[:len(pos)]): full[i] = v
        for k_, v in zip(kpos, s[len(pos):]): kk[k_] = v
        return fn(*full, **kk)
    syms = [args[i] for i in pos] + [kw[k] for k in kpos]
    structs = [jax.ShapeDtypeStruct(a.shape, a.dtype) for a in syms]
    cj, oshape = jax.make_jaxpr(f, return_shape=True)(*structs)     # real JAX decides shapes/dtypes/errors
    outs = ENG.eval_closed(cj, *[a._el for a in syms])
    ol, od = jax.tree_util.tree_flatten(oshape)
    return jax.tree_util.tree_unflatten(od, [SymArr(o, s.dtype) for o, s in zip(outs, ol)])

class JnpShim:
    def __getattr__(self, name):
        real = getattr(jnp, name)
        if not callable(real) or isinstance(real, type): return real
        def w(*a, **k):
            if any(isinstance(x, SymArr) for x in a) or any(isinstance(x, SymArr) for x in k.values()): return lift(real, *a, **k)
            return real(*a, **k)
        return w

def explore(thunk):
    """Enumerate ALL paths of thunk(); returns list of (path_condition, ('ret', v) | ('exc', e))."""
    results, work = [], [[]]
    while work:
        ctx = Ctx(work.pop()); Ctx.cur = ctx
        try: out = ('ret', thunk())
        except Abort: continue
        except Exception as ex: out = ('exc', ex)
        work.extend(ctx.pending); results.append((z3.And(*ctx.pc) if ctx.pc else z3.BoolVal(True), out))
    return results

from jumanji import specs
specs.jnp = JnpShim()

def sym(name, shape, dtype): return SymArr(ENG.sym_array(name, shape, dtype), dtype)

# ---------- obligation A: BoundedArray.validate accepts exactly in-bounds values ----------
t0 = time.time(); nob = 0
for shape, dt, vshape, vdt in [((2,), jnp.int32, (2,), jnp.int32), ((2,), jnp.int32, (3,), jnp.int32), ((2,), jnp.int32, (2,), jnp.int8), ((), jnp.int32, (), jnp.int32), ((2, 2), jnp.int32, (2, 2), jnp.int32)]:
    lo, hi = sym('lo', shape, dt), sym('hi', shape, dt)
    for pc0, out0 in explore(lambda: specs.BoundedArray(shape, dt, lo, hi, 'x')):
        if out0[0] == 'exc':
            print('   ctor raises', type(out0[1]).__name__, 'under', z3.simplify(pc0)); continue
        spec = out0[1]
        v = sym('v', vshape, vdt)
        paths = explore(lambda: spec.validate(v))
        accept = z3.Or(*[pc for pc, o in paths if o[0] == 'ret']) if any(o[0] == 'ret' for _, o in paths) else z3.BoolVal(False)
        if vshape == shape and jnp.dtype(vdt) == jnp.dtype(dt):
            expected = z3.And(*[z3.And(v._el[i] >= lo._el[i], v._el[i] <= hi._el[i]) for i in np.ndindex(*shape)])
        else: expected = z3.BoolVal(False)
        s = z3.Solver(); s.add(*ENG.assumes); s.add(pc0); s.add(accept != expected); r = s.check(); nob += 1
        print(f'  validate spec{shape}{jnp.dtype(dt).name} value{vshape}{jnp.dtype(vdt).name}: paths={len(paths)} [{", ".join(type(o[1]).__name__ if o[0]=="exc" else "ok" for _, o in paths)}] accept<=>in-bounds: {"PROVED" if r == z3.unsat else r}')
# ---------- obligation B: BoundedArray.__eq__ is reflexive / total on per-element bounds ----------
for shape in [(), (2,)]:
    lo, hi = sym('lo', shape, jnp.int32), sym('hi', shape, jnp.int32)
    for pc0, out0 in explore(lambda: specs.BoundedArray(shape, jnp.int32, lo, hi, 'x')):
        if out0[0] != 'ret': continue
        a = out0[1]
        paths = explore(lambda: a == a)
        print(f'  __eq__ reflexive shape={shape}:', [(('ret', o[1]) if o[0] == 'ret' else ('RAISES', type(o[1]).__name__)) for _, o in paths])
print('total', time.time() - t0)
