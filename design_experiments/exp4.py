import warnings; warnings.filterwarnings('ignore')
import time, numpy as np, jax, jax.numpy as jnp, z3, sys
from symjax import *
from jumanji.environments import BinPack
from jumanji.environments.packing.bin_pack.generator import RandomGenerator as BGen
def flat_sym(sym, tree, prefix):
    leaves, treedef = jax.tree_util.tree_flatten(tree)
    out = []
    for i, l in enumerate(leaves):
        l = jnp.asarray(l)
        out.append(sym.sym_array(f'{prefix}{i}', l.shape, l.dtype) if l.dtype != jnp.uint32 else np.empty(l.shape, dtype=object))
    return out, treedef
ni, ne = int(sys.argv[1]), int(sys.argv[2])
env = BinPack(BGen(max_num_items=ni, max_num_ems=ne, split_num_same_items=1), obs_num_ems=ne, normalize_dimensions=False)
state, ts = env.reset(jax.random.PRNGKey(0)); act = env.action_spec.generate_value()
cj = jax.make_jaxpr(env.step)(state, act)
out_tree = jax.tree_util.tree_structure(jax.eval_shape(env.step, state, act))
sym = Sym(); sl, sd = flat_sym(sym, state, 's'); al, ad = flat_sym(sym, act, 'a')
S = jax.tree_util.tree_unflatten(sd, sl)
t0 = time.time(); outs = sym.eval_closed(cj, *sl, *al); print('binpack eval', time.time() - t0)
NS, TS = jax.tree_util.tree_unflatten(out_tree, outs)
A = z3.And
def sp(sp_, i=None):
    g = lambda f: lift(getattr(sp_, f)[i] if i is not None else getattr(sp_, f)[()], 'i')
    return tuple(g(f) for f in ('x1', 'x2', 'y1', 'y2', 'z1', 'z2'))
def inside(a, b): return A(a[0] >= b[0], a[1] <= b[1], a[2] >= b[2], a[3] <= b[3], a[4] >= b[4], a[5] <= b[5])
def overlap(a, b): return A(z3.If(a[0] > b[0], a[0], b[0]) < z3.If(a[1] < b[1], a[1], b[1]), z3.If(a[2] > b[2], a[2], b[2]) < z3.If(a[3] < b[3], a[3], b[3]), z3.If(a[4] > b[4], a[4], b[4]) < z3.If(a[5] < b[5], a[5], b[5]))
def item_space(St, i):
    x, y, z = lift(St.items_location.x[i], 'i'), lift(St.items_location.y[i], 'i'), lift(St.items_location.z[i], 'i')
    return (x, x + lift(St.items.x_len[i], 'i'), y, y + lift(St.items.y_len[i], 'i'), z, z + lift(St.items.z_len[i], 'i'))
def INV(St):
    cont = sp(St.container)
    c = [cont[0] == 0, cont[2] == 0, cont[4] == 0, cont[1] > 0, cont[3] > 0, cont[5] > 0]
    for i in range(ni):
        c += [lift(St.items.x_len[i], 'i') > 0, lift(St.items.y_len[i], 'i') > 0, lift(St.items.z_len[i], 'i') > 0]
        c.append(z3.Implies(zbool(St.items_placed[i]), A(zbool(St.items_mask[i]), inside(item_space(St, i), cont))))
        for j in range(i + 1, ni):
            c.append(z3.Implies(A(zbool(St.items_placed[i]), zbool(St.items_placed[j])), z3.Not(overlap(item_space(St, i), item_space(St, j)))))
    for e in range(ne):
        em = sp(St.ems, e)
        c.append(z3.Implies(zbool(St.ems_mask[e]), inside(em, cont)))
        for i in range(ni):
            c.append(z3.Implies(A(zbool(St.ems_mask[e]), zbool(St.items_placed[i])), z3.Not(overlap(em, item_space(St, i)))))
    return A(*c)
def MASKOK(St):
    c = []
    for e in range(ne):
        se = lift(St.sorted_ems_indexes[e], 'i'); c += [se >= 0, se < ne]
        for i in range(ni):
            for r in range(ne):
                em = sp(St.ems, r)
                fits = A(lift(St.items.x_len[i], 'i') <= em[1] - em[0], lift(St.items.y_len[i], 'i') <= em[3] - em[2], lift(St.items.z_len[i], 'i') <= em[5] - em[4])
                c.append(z3.Implies(A(zbool(St.action_mask[e, i]), se == r), A(zbool(St.ems_mask[r]), zbool(St.items_mask[i]), z3.Not(zbool(St.items_placed[i])), fits)))
    return A(*c)
a0, a1 = al[0][0], al[0][1]
pre = A(INV(S), MASKOK(S), a0 >= 0, a0 < ne, a1 >= 0, a1 < ni)
prove(sym, pre, INV(NS), timeout=600000, name=f'binpack ni={ni} ne={ne}: feasibility invariant preserved by ANY step')
