import warnings; warnings.filterwarnings('ignore')
import time, numpy as np, jax, jax.numpy as jnp, z3
from jax import core
from jax.interpreters import batching
from symjax import *
# ---- "assumed contract" external primitive: result is fresh, constrained by the contract ----
ext_p = core.Primitive('ext'); ext_p.multiple_results = True
@ext_p.def_abstract_eval
def _abs(*avals, name, out_avals, static): return list(out_avals)
def ext_call(name, out_example, *args, static=()):
    ol, od = jax.tree_util.tree_flatten(out_example)
    out_avals = tuple(core.ShapedArray(jnp.shape(l), jnp.result_type(l)) for l in ol)
    outs = ext_p.bind(*[jnp.asarray(a) for a in args], name=name, out_avals=out_avals, static=static)
    return jax.tree_util.tree_unflatten(od, outs)
import jax.random as jr
_real_choice, _real_randint, _real_split = jr.choice, jr.randint, jr.split
def stub_choice(key, a, shape=(), replace=True, p=None, axis=0):
    a_arr = jnp.arange(a) if isinstance(a, int) else jnp.asarray(a)
    assert shape == () and replace and axis == 0 and p is not None, 'prototype covers choice(key,a,p=p) scalar only'
    out_ex = jax.eval_shape(lambda: a_arr[0])
    kd = jr.key_data(key) if jnp.issubdtype(key.dtype, jax.dtypes.prng_key) else key
    idx = ext_call('choice_index', jnp.zeros((), jnp.int32), kd, jnp.asarray(p, jnp.float32), static=(int(a_arr.shape[0]),))
    return a_arr[idx]
CONTRACTS = {}
def c_choice_index(sym, e, outs, ins):
    (idx,) = outs; key, p = ins; n = e.params['static'][0]
    i = idx[()]
    # assumed contract of jax.random.choice(key, a, p=p): returns an index with p[index] > 0 whenever sum(p) > 0, else index 0..n-1
    anypos = z3.Or(*[lift(p[j], 'f') > 0 for j in range(n)])
    sym.assumes += [i >= 0, i < n, z3.Implies(anypos, z3.Or(*[z3.And(i == j, lift(p[j], 'f') > 0) for j in range(n)]))]
CONTRACTS['choice_index'] = c_choice_index
def _p_ext(self, e, *ins):
    outs = []
    for j, av in enumerate(e.params['out_avals']):
        arr = np.empty(av.shape, dtype=object)
        for idx in np.ndindex(*av.shape): arr[idx] = self.fresh_var(e.params['name'], kind(av.dtype))
        outs.append(arr)
    CONTRACTS[e.params['name']](self, e, outs, ins)
    return outs
Sym.p_ext = _p_ext

from jumanji.environments import Game2048
N = 3
env = Game2048(board_size=N)
state, ts = env.reset(jax.random.PRNGKey(0)); act = env.action_spec.generate_value()
jr.choice = stub_choice; jax.random.choice = stub_choice
cj = jax.make_jaxpr(env.step)(state, act)
jr.choice = _real_choice; jax.random.choice = _real_choice
print('ext prims in step jaxpr:', str(cj).count('ext['))
otree = jax.tree_util.tree_structure(jax.eval_shape(env.step, state, act))
def flat_sym(sym, tree, prefix):
    leaves, treedef = jax.tree_util.tree_flatten(tree); out = []
    for i, l in enumerate(leaves):
        l = jnp.asarray(l)
        out.append(sym.sym_array(f'{prefix}{i}', l.shape, jnp.int32 if l.dtype == jnp.uint32 else l.dtype))
    return out, treedef
sym = Sym(while_bound=2 * N)
sl, sd = flat_sym(sym, state, 's'); al, ad = flat_sym(sym, act, 'a')
S = jax.tree_util.tree_unflatten(sd, sl); a = al[0][()]
t0 = time.time(); outs = sym.eval_closed(cj, *sl, *al); print('2048 step eval', time.time() - t0, 'side', len(sym.side))
NS, TS = jax.tree_util.tree_unflatten(otree, outs)
B, NB = S.board, NS.board
def pw(x):  # 2**x for tiles (0 -> 0)
    r = z3.IntVal(0)
    for t in range(1, 40): r = z3.If(x == t, z3.IntVal(2 ** t), r)
    return r
inv = z3.And(a >= 0, a <= 3, *[z3.And(B[i, j] >= 0, B[i, j] <= 30) for i in range(N) for j in range(N)])
for tag, ua in sym.side: prove(sym, inv, ua, name='unwinding assertion')
tot = lambda b: z3.Sum([pw(lift(b[i, j], 'i')) for i in range(N) for j in range(N)])
# C07: tile sum conserved by the move, except the spawned tile (2 or 4) when the move was valid (mask[action])
valid = z3.Or(*[z3.And(a == m, zbool(S.action_mask[m])) for m in range(4)])
prove(sym, inv, z3.Implies(z3.Not(valid), z3.And(*[lift(NB[i, j], 'i') == B[i, j] for i in range(N) for j in range(N)])), name='2048: masked-out action leaves board unchanged (needs mask-consistency inv => expected sat)')
