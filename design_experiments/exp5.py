import warnings; warnings.filterwarnings('ignore')
import time, numpy as np, jax, jax.numpy as jnp, z3
from jax import core
from jax.interpreters import batching, mlir
from symjax import *
from jumanji.env import Environment
from jumanji import specs, wrappers
from jumanji.types import TimeStep, StepType
import chex
from typing import NamedTuple

# ---------- uninterpreted-function primitive ----------
uf_p = core.Primitive('uf'); uf_p.multiple_results = True
@uf_p.def_abstract_eval
def _abs(*avals, name, out_avals): return list(out_avals)
def _batch(args, dims, *, name, out_avals):
    size = next(a.shape[d] for a, d in zip(args, dims) if d is not batching.not_mapped)
    outs = []
    for i in range(size):
        sl = [a if d is batching.not_mapped else jnp.take(a, i, axis=d) for a, d in zip(args, dims)]
        outs.append(uf_p.bind(*sl, name=name, out_avals=out_avals))
    return [jnp.stack([o[j] for o in outs]) for j in range(len(out_avals))], [0] * len(out_avals)
batching.primitive_batchers[uf_p] = _batch
def uf_call(name, out_tree_example, *args):
    flat, _ = jax.tree_util.tree_flatten(args)
    oleaves, odef = jax.tree_util.tree_flatten(out_tree_example)
    out_avals = tuple(core.ShapedArray(jnp.shape(l), jnp.result_type(l)) for l in oleaves)
    outs = uf_p.bind(*[jnp.asarray(f) for f in flat], name=name, out_avals=out_avals)
    return jax.tree_util.tree_unflatten(odef, outs)

class Obs(NamedTuple):
    a: chex.Array
    b: chex.Array
@chex.dataclass
class St:
    key: chex.PRNGKey
    x: chex.Array
    n: chex.Array
ST = St(key=jnp.zeros((2,), jnp.uint32), x=jnp.zeros((3,), jnp.int32), n=jnp.zeros((), jnp.int32))
TSX = TimeStep(step_type=jnp.zeros((), jnp.int8), reward=jnp.zeros((), jnp.float32), discount=jnp.zeros((), jnp.float32),
               observation=Obs(a=jnp.zeros((2,), jnp.int32), b=jnp.zeros((), jnp.float32)), extras={'m': jnp.zeros((), jnp.int32)})
class AbsEnv(Environment):
    def reset(self, key): return uf_call('reset', (ST, TSX), key)
    def step(self, state, action): return uf_call('step', (ST, TSX), state, action)
    @property
    def observation_spec(self): return None
    @property
    def action_spec(self): return specs.DiscreteArray(4)
    def __init__(self): pass

# symbolic handler: each output scalar = UF(name, j, idx)(all input scalars). keys are int-valued symbols here.
UFS = {}
def _p_uf(self, e, *ins):
    name = e.params['name']
    flat_in = [lift(x, kind(v.aval.dtype) if kind(v.aval.dtype) != 'k' else 'i') for v, a in zip(e.invars, ins) for x in a.reshape(-1)]
    outs = []
    for j, av in enumerate(e.params['out_avals']):
        k = kind(av.dtype); srt = {'b': z3.BoolSort(), 'i': z3.IntSort(), 'f': z3.RealSort()}[k]
        arr = np.empty(av.shape, dtype=object)
        for idx in np.ndindex(*av.shape):
            fn = z3.Function(f'{name}.{j}.{"_".join(map(str, idx))}', *[x.sort() for x in flat_in], srt)
            arr[idx] = fn(*flat_in)
        outs.append(arr)
    return outs
Sym.p_uf = _p_uf
# keys: legacy uint32[2]; model random_wrap/unwrap as identity on 2 ints, split as UF
class Key:
    def __init__(self, k0, k1): self.k0, self.k1 = k0, k1
def _rwrap(self, e, x):
    shp = x.shape[:-1]; out = np.empty(shp, dtype=object)
    for idx in np.ndindex(*shp): out[idx] = Key(lift(x[idx + (0,)], 'i'), lift(x[idx + (1,)], 'i'))
    return out
def _runwrap(self, e, x):
    out = np.empty(x.shape + (2,), dtype=object)
    for idx in np.ndindex(*x.shape): out[idx + (0,)] = x[idx].k0; out[idx + (1,)] = x[idx].k1
    return out
def _rs(self, e, x):
    shp = tuple(e.params['shape'])
    out = np.empty(x.shape + shp, dtype=object)
    for pre in np.ndindex(*x.shape):
        for i, sidx in enumerate(np.ndindex(*shp)):
            f = lambda w: z3.Function(f'split.{i}.{w}', z3.IntSort(), z3.IntSort(), z3.IntSort())(x[pre].k0, x[pre].k1)
            out[pre + sidx] = Key(f(0), f(1))
    return out
Sym.p_random_wrap = _rwrap; Sym.p_random_unwrap = _runwrap; Sym.p_random_split = _rs

def sym_tree(sym, tree, prefix, batch=None):
    leaves, td = jax.tree_util.tree_flatten(tree)
    out = []
    for i, l in enumerate(leaves):
        shp = l.shape if batch is None else (batch,) + l.shape
        dt = jnp.int32 if l.dtype == jnp.uint32 else l.dtype
        out.append(sym.sym_array(f'{prefix}{i}', shp, dt))
    return out, td
def eq_trees(A, B):
    la, lb = jax.tree_util.tree_leaves(A), jax.tree_util.tree_leaves(B)
    assert len(la) == len(lb)
    cs = []
    for x, y in zip(la, lb):
        assert x.shape == y.shape, (x.shape, y.shape)
        for idx in np.ndindex(*x.shape):
            a, b = x[idx], y[idx]
            if is_c(a) and is_c(b): cs.append(z3.BoolVal(a == b))
            else:
                a = a if not is_c(a) else (z3.BoolVal(a) if isinstance(a, bool) else (z3.RealVal(a) if b.sort() == z3.RealSort() else z3.IntVal(a)))
                b = b if not is_c(b) else (z3.BoolVal(b) if isinstance(b, bool) else (z3.RealVal(b) if a.sort() == z3.RealSort() else z3.IntVal(b)))
                cs.append(a == b)
    return z3.And(*cs)

env = AbsEnv()
act = jnp.zeros((), jnp.int32)
for nobs in (False, True):
    w = wrappers.AutoResetWrapper(env, next_obs_in_extras=nobs)
    # implementation
    cj = jax.make_jaxpr(w.step)(ST, act)
    otree = jax.tree_util.tree_structure(jax.eval_shape(w.step, ST, act))
    # spec, written from the property statement
    def spec(state, action):
        s1, ts = env.step(state, action)
        k = jax.random.split(state_key_of(s1))[0] if False else jax.random.split(s1.key)[0]
        s0, ts0 = env.reset(k)
        last = ts.step_type == 2
        sel = lambda a, b: jax.tree_util.tree_map(lambda x, y: jnp.where(last, x, y), a, b)
        out_state = sel(s0, s1)
        extras = dict(ts.extras)
        if nobs: extras['next_obs'] = ts.observation
        out_ts = TimeStep(step_type=ts.step_type, reward=ts.reward, discount=ts.discount, observation=sel(ts0.observation, ts.observation), extras=extras)
        return out_state, out_ts
    cjs = jax.make_jaxpr(spec)(ST, act)
    stree = jax.tree_util.tree_structure(jax.eval_shape(spec, ST, act))
    assert otree == stree, (otree, stree)
    sym = Sym(); sl, sd = sym_tree(sym, ST, 's'); al, ad = sym_tree(sym, act, 'a')
    o1 = sym.eval_closed(cj, *sl, *al); o2 = sym.eval_closed(cjs, *sl, *al)
    prove(sym, True, eq_trees(o1, o2), name=f'AutoResetWrapper.step == spec (next_obs_in_extras={nobs}) over abstract env')
    # C14: VmapAutoResetWrapper == VmapWrapper(AutoResetWrapper)
    for B in (1, 2, 3):
        w1 = wrappers.VmapAutoResetWrapper(env, next_obs_in_extras=nobs)
        w2 = wrappers.VmapWrapper(wrappers.AutoResetWrapper(env, next_obs_in_extras=nobs))
        STB = jax.tree_util.tree_map(lambda x: jnp.zeros((B,) + x.shape, x.dtype), ST); AB = jnp.zeros((B,), jnp.int32)
        t0 = time.time()
        c1 = jax.make_jaxpr(w1.step)(STB, AB); c2 = jax.make_jaxpr(w2.step)(STB, AB)
        sym = Sym(); sl, sd = sym_tree(sym, ST, 's', batch=B); al, ad = sym_tree(sym, act, 'a', batch=B)
        o1 = sym.eval_closed(c1, *sl, *al); o2 = sym.eval_closed(c2, *sl, *al)
        prove(sym, True, eq_trees(o1, o2), name=f'VmapAutoReset == Vmap(AutoReset) B={B} nobs={nobs} (trace+eval {time.time()-t0:.1f}s)')
