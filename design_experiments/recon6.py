"""Probe for C02's frame clause: one instrumented eager call per env (path-uniqueness lemma)."""
import warnings; warnings.filterwarnings('ignore')
import dataclasses, jax, jax.numpy as jnp, numpy as np, traceback, sys, gc
exec(open('jaxpr_stats.py').read().split("def count(jaxpr")[0])
exec(open('recon1.py').read().split("def sample_action")[0].split("envs = {")[1].join(["envs = {", ""])) if False else None
src = open('recon1.py').read(); exec(src[src.index("envs = {"):src.index("def sample_action")])
from jumanji.environments.packing.bin_pack.generator import ToyGenerator as BToy, CSVGenerator
import jumanji, os
csv = os.path.join(os.path.dirname(jumanji.__file__), 'environments/packing/bin_pack')
envs['BinPack-toy-gen'] = lambda: BinPack(BToy())
writes = []
patched = {}
def patch(cls):
    if cls in patched or not dataclasses.is_dataclass(cls): return
    orig = cls.__setattr__
    def sa(self, name, value, _orig=orig):
        if TRACK['on'] and id(self) in TRACK['pre']:
            fr = traceback.extract_stack(limit=3)[0]
            writes.append((TRACK['env'], TRACK['fn'], type(self).__name__, name, f'{os.path.basename(fr.filename)}:{fr.lineno}'))
        _orig(self, name, value)
    cls.__setattr__ = sa; patched[cls] = orig
TRACK = {'on': False, 'pre': set(), 'env': '', 'fn': ''}
def reach(obj, seen, depth=0):
    if id(obj) in seen or depth > 6: return
    if dataclasses.is_dataclass(obj) and not isinstance(obj, type):
        seen[id(obj)] = obj; patch(type(obj))
        for f in dataclasses.fields(obj): reach(getattr(obj, f.name, None), seen, depth + 1)
    elif isinstance(obj, (list, tuple)):
        for x in obj: reach(x, seen, depth + 1)
    elif isinstance(obj, dict):
        seen[id(obj)] = obj
        for x in obj.values(): reach(x, seen, depth + 1)
    elif hasattr(obj, '__dict__') and not isinstance(obj, (type, jax.Array, np.ndarray)) and type(obj).__module__.startswith('jumanji'):
        seen[id(obj)] = obj
        for x in vars(obj).values(): reach(x, seen, depth + 1)
for name, mk in envs.items():
    try: env = mk()
    except Exception as ex: print(name, 'ctor failed', str(ex)[:80]); continue
    key = jax.random.PRNGKey(0)
    for fn in ('reset', 'step'):
        seen = {}; reach(env, seen)
        if fn == 'step':
            state, ts = env.reset(key); a = env.action_spec.generate_value(); reach(state, seen); reach(ts, seen)
            leaves_before = [np.asarray(x).copy() if not jnp.issubdtype(getattr(x, 'dtype', np.int32), jax.dtypes.prng_key) else None for x in jax.tree_util.tree_leaves(state)]
        TRACK.update(on=True, pre=set(seen), env=name, fn=fn)
        try:
            if fn == 'reset': env.reset(key)
            else:
                env.step(state, a)
                after = jax.tree_util.tree_leaves(state)
                if len(after) != len(leaves_before) or any(b is not None and not np.array_equal(b, np.asarray(x)) for b, x in zip(leaves_before, after)):
                    writes.append((name, fn, 'STATE ARGUMENT VALUE CHANGED', '', ''))
        except Exception as ex: print(name, fn, 'failed', str(ex)[:100])
        TRACK['on'] = False
import collections
for w, c in collections.Counter(writes).items(): print(c, w)
print('envs checked:', len(envs), '; writes to pre-existing objects:', len(writes))
# sanity: the monitor sees a deliberate argument write, and the CSV generator case
env = Maze(MGen(5, 7)); state, ts = env.reset(jax.random.PRNGKey(0)); seen = {}; reach(state, seen); writes.clear()
TRACK.update(on=True, pre=set(seen), env='sanity', fn='deliberate'); state.step_count = jnp.int32(5); TRACK['on'] = False
print('sanity (deliberate write detected):', writes)
import glob
cands = glob.glob(os.path.join(os.path.dirname(jumanji.__file__), '**/*.csv'), recursive=True); print('csv files:', cands[:3])
import tempfile
with tempfile.NamedTemporaryFile('w', suffix='.csv', delete=False) as f:
    f.write('Item_Name,Length,Width,Height,Quantity\nshape_1,1080,760,300,5\nshape_2,1100,430,250,3\n'); p = f.name
try:
    env = BinPack(CSVGenerator(p, max_num_ems=20)); seen = {}; reach(env, seen); writes.clear()
    TRACK.update(on=True, pre=set(seen), env='BinPack-CSV', fn='reset'); env.reset(jax.random.PRNGKey(0)); TRACK['on'] = False
    print('BinPack CSVGenerator reset writes to generator-held State:', collections.Counter(writes))
    jax.jit(env.reset)(jax.random.PRNGKey(0))
    print('after jit(reset): generator.instance_from_csv.action_mask is', type(env.generator.instance_from_csv.action_mask).__name__)
except Exception as ex: print('csv probe failed', type(ex).__name__, str(ex)[:200])
finally: os.unlink(p)
