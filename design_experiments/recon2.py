import warnings; warnings.filterwarnings('ignore')
import jax, jax.numpy as jnp, numpy as np
from jumanji.environments.routing.connector.generator import RandomWalkGenerator, UniformRandomGenerator
for G, A in ((3, 3), (3, 4), (4, 4), (4, 6), (5, 8), (10, 10)):
    gen = RandomWalkGenerator(G, A); f = jax.jit(gen.__call__)
    bad = 0; first = None; N = 300 if G < 10 else 1500
    for s in range(N):
        st = f(jax.random.PRNGKey(s)); grid = np.asarray(st.grid)
        heads = [(grid == 2 + 3 * i).sum() for i in range(A)]; targets = [(grid == 3 + 3 * i).sum() for i in range(A)]
        starts = {tuple(map(int, p)) for p in np.asarray(st.agents.start)}; tg = [tuple(map(int, p)) for p in np.asarray(st.agents.target)]
        ok = all(h == 1 for h in heads) and all(t == 1 for t in targets) and len(starts) == A and len(set(tg)) == A and not (starts & set(tg))
        if not ok:
            bad += 1
            if first is None: first = (s, grid.tolist(), np.asarray(st.agents.start).tolist(), np.asarray(st.agents.target).tolist())
    print(f'grid {G} agents {A}: {bad}/{N} keys give a malformed board', '' if first is None else f'first: key={first[0]} grid={first[1]} starts={first[2]} targets={first[3]}')
