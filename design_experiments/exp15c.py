import warnings; warnings.filterwarnings('ignore')
import time, sys, numpy as np, jax, jax.numpy as jnp, z3, multiprocessing as mp
from symjax import *
import havoc
from jumanji.environments import Sokoban
from jumanji.environments.routing.sokoban.generator import ToyGenerator as SToy
Z = lambda x: z3.BoolVal(bool(x)) if isinstance(x, (bool, np.bool_)) else (z3.IntVal(int(x)) if is_c(x) and not isinstance(x, float) else (z3.RealVal(x) if is_c(x) else x))
def flat_sym(sym, tree, prefix):
    leaves, treedef = jax.tree_util.tree_flatten(tree); out = []
    for i, l in enumerate(leaves):
        l = jnp.asarray(l); dt = jnp.int32 if l.dtype == jnp.uint32 else l.dtype
        out.append(sym.sym_array(f'{prefix}{i}', l.shape, dt))
    return out, treedef
env = Sokoban(SToy(), time_limit=50)
state, ts = env.reset(jax.random.PRNGKey(0)); a = env.action_spec.generate_value()
cj = jax.make_jaxpr(env.step)(state, a); otree = jax.tree_util.tree_structure(jax.eval_shape(env.step, state, a))
sym = Sym(); sl, sd = flat_sym(sym, state, 's'); al, ad = flat_sym(sym, a, 'a')
S = jax.tree_util.tree_unflatten(sd, sl); av = al[0][()]
t0 = time.time(); outs = sym.eval_closed(cj, *sl, *al); NS, TS = jax.tree_util.tree_unflatten(otree, outs); print('sokoban eval %.1fs' % (time.time() - t0))
G = 10; cells = [(i, j) for i in range(G) for j in range(G)]
def INV(St):
    V, F = St.variable_grid, St.fixed_grid; r, c = Z(St.agent_location[0]), Z(St.agent_location[1])
    cs = [z3.Sum([z3.If(Z(V[p]) == 4, 1, 0) for p in cells]) == 4, z3.Sum([z3.If(Z(V[p]) == 3, 1, 0) for p in cells]) == 1,
          z3.Or(*[z3.And(r == p[0], c == p[1], Z(V[p]) == 3) for p in cells])]
    for p in cells:
        cs.append(z3.Or(Z(V[p]) == 0, Z(V[p]) == 3, Z(V[p]) == 4)); cs.append(z3.Or(Z(F[p]) == 0, Z(F[p]) == 1, Z(F[p]) == 2))
        cs.append(z3.Implies(Z(F[p]) == 1, Z(V[p]) == 0))
    return cs
pre = z3.And(*INV(S), av >= 0, av <= 3, Z(S.step_count[()]) >= 0, Z(S.step_count[()]) < 50)
goal = INV(NS) + [Z(NS.fixed_grid[p]) == Z(S.fixed_grid[p]) for p in cells]
print('conjuncts', len(goal))

# local frame + local balance formulation of "the number of boxes is conserved"
r_, c_ = Z(S.agent_location[0]), Z(S.agent_location[1])
dr = z3.If(av == 0, -1, z3.If(av == 2, 1, 0)); dc = z3.If(av == 1, 1, z3.If(av == 3, -1, 0))
V, V2 = S.variable_grid, NS.variable_grid
isbox = lambda t: z3.If(Z(t) == 4, 1, 0)
touched = lambda p: z3.Or(z3.And(r_ == p[0], c_ == p[1]), z3.And(r_ + dr == p[0], c_ + dc == p[1]), z3.And(r_ + 2 * dr == p[0], c_ + 2 * dc == p[1]))
frame = [z3.Implies(z3.Not(touched(p)), Z(V2[p]) == Z(V[p])) for p in cells]
def at(grid, rr, cc):      # value at a symbolic cell, 0 outside the grid
    v = z3.IntVal(0)
    for p in cells: v = z3.If(z3.And(rr == p[0], cc == p[1]), Z(grid[p]), v)
    return v
bal = sum(isbox(at(V2, r_ + k * dr, c_ + k * dc)) for k in range(3)) == sum(isbox(at(V, r_ + k * dr, c_ + k * dc)) for k in range(3))
pre_local = z3.And(*INV(S)[1:], av >= 0, av <= 3)     # everything except the cardinality conjunct itself
goals = frame + [bal]
def work(i):
    s = z3.Solver(); s.set('timeout', 120000); s.add(*sym.assumes); s.add(pre_local, z3.Not(goals[i])); t = time.time(); r = s.check(); return i, str(r), round(time.time() - t, 2)
if __name__ == '__main__':
    t0 = time.time()
    with mp.get_context('fork').Pool(14) as p: res = p.map(work, range(len(goals)))
    bad = [r for r in res if r[1] != 'unsat']
    print('Sokoban box conservation as local frame (100 clauses) + local balance (1 clause): proved', len(res) - len(bad), 'of', len(res), 'max', max(r[2] for r in res), 's wall', round(time.time() - t0, 1), 's; not proved', bad[:4])
