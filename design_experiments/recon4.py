"""Reconnaissance only: return vs objective recomputed from the final state, mask-respecting random play."""
import warnings; warnings.filterwarnings('ignore')
import jax, jax.numpy as jnp, numpy as np, collections
exec(open('jaxpr_stats.py').read().split("def count(jaxpr")[0])
exec(open('recon1.py').read().split("issues = collections.Counter()")[0].split("def sample_action")[1].join(["def sample_action", ""]) if False else "")
src = open('recon1.py').read(); exec(src[src.index("def sample_action"):src.index("issues = collections.Counter()")])
from jumanji.environments.packing.knapsack.reward import DenseReward as KD, SparseReward as KS
from jumanji.environments.packing.bin_pack.reward import DenseReward as BD, SparseReward as BS
from jumanji.environments.packing.flat_pack.reward import CellDenseReward, BlockDenseReward
from jumanji.environments.routing.multi_cvrp.reward import DenseReward as MD, SparseReward as MS
from jumanji.environments.routing.multi_cvrp.generator import UniformRandomGenerator as MCG
def play(env, key, respect=True, maxs=400):
    state, ts = env.reset(key); s0 = state; R = 0.0; rews = []; acts = []
    step = jax.jit(env.step)
    for t in range(maxs):
        key, k = jax.random.split(key); a = sample_action(env, ts, k, respect); acts.append(a)
        state, ts = step(state, a); rews.append(np.asarray(ts.reward)); 
        if int(ts.step_type) == 2: break
    return s0, state, ts, np.sum(rews, axis=0), acts, t + 1
def rep(name, got, exp, extra=''):
    ok = np.allclose(got, exp, atol=1e-4)
    print(f'{"ok " if ok else "DIFF"} {name}: return={got} objective={exp} {extra}')
for s in range(3):
    key = jax.random.PRNGKey(100 + s)
    # Knapsack dense vs sparse
    for RF in (KD, KS):
        env = Knapsack(KGen(8, 2.0), reward_fn=RF()); s0, st, ts, R, acts, T = play(env, key)
        rep(f'Knapsack {RF.__name__}', R, float((np.asarray(st.values) * np.asarray(st.packed_items)).sum()))
    for RF in (BD, BS):
        env = BinPack(BGen(max_num_items=8, max_num_ems=20, split_num_same_items=1), obs_num_ems=10, reward_fn=RF()); s0, st, ts, R, acts, T = play(env, key)
        vol = (np.asarray(st.items.x_len, float) * np.asarray(st.items.y_len) * np.asarray(st.items.z_len) * np.asarray(st.items_placed)).sum() / float(st.container.volume())
        rep(f'BinPack {RF.__name__}', R, vol, f'extras={float(ts.extras["volume_utilization"]):.4f}')
    for RF in (CellDenseReward, BlockDenseReward):
        env = FlatPack(RandomFlatPackGenerator(2, 2), reward_fn=RF()); s0, st, ts, R, acts, T = play(env, key)
        exp = (np.asarray(st.grid) != 0).mean() if RF is CellDenseReward else np.asarray(st.placed_blocks).mean()
        rep(f'FlatPack {RF.__name__}', R, exp)
    env = JobShop(JGen(3, 2, 2, 3)); s0, st, ts, R, acts, T = play(env, key)
    sched = np.asarray(st.scheduled_times); dur = np.asarray(st.ops_durations); done_all = not np.asarray(st.ops_mask).any()
    mk = (sched + dur)[np.asarray(s0.ops_mask)].max() if done_all else None
    rep('JobShop', R, -mk if mk is not None else R, f'(completed={done_all}, steps={T})')
    env = GraphColoring(GCGen(6, 0.4)); s0, st, ts, R, acts, T = play(env, key)
    cols = np.asarray(st.colors); rep('GraphColoring', R, -len(set(cols.tolist())) if (cols >= 0).all() else R, f'colors={cols.tolist()} conflicts={[(i,j) for i in range(6) for j in range(i) if np.asarray(st.adj_matrix)[i,j] and cols[i]==cols[j] and cols[i]>=0]}')
    env = Snake(4, 5, time_limit=200); s0, st, ts, R, acts, T = play(env, key); rep('Snake', R, int(st.length) - 1)
    env = Cleaner(CGen(5, 5, 2), time_limit=60); s0, st, ts, R, acts, T = play(env, key)
    cleaned = (np.asarray(st.grid) == 1).sum() - (np.asarray(s0.grid) == 1).sum(); rep('Cleaner', R, cleaned - 0.5 * T)
    env = Minesweeper(UniformSamplingGenerator(4, 4, 3)); s0, st, ts, R, acts, T = play(env, key)
    mines = set(np.asarray(st.flat_mine_locations).tolist()); rev = [(i, j) for i in range(4) for j in range(4) if np.asarray(st.board)[i, j] >= 0]
    rep('Minesweeper', R, sum(1 for (i, j) in rev if i * 4 + j not in mines))
    env = SlidingTilePuzzle(STGen(3, 30), time_limit=40); s0, st, ts, R, acts, T = play(env, key)
    sol = np.asarray(env.solved_puzzle); rep('SlidingTile', R, (np.asarray(st.puzzle) == sol).sum() - (np.asarray(s0.puzzle) == sol).sum())
    env = Game2048(board_size=3); s0, st, ts, R, acts, T = play(env, key); rep('Game2048 (score field)', R, float(st.score))
    for RF in (MD, MS):
        g = MCG(6, 2); env = MultiCVRP(generator=g, reward_fn=RF(2, 6, 10)); s0, st, ts, R, acts, T = play(env, key)
        print(f'   MultiCVRP {RF.__name__}: return={R} steps={T} demands_left={np.asarray(st.nodes.demands).sum()}')
