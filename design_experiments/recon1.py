"""Reconnaissance (NOT the verification technique): native random play validating every timestep against the specs."""
import warnings; warnings.filterwarnings('ignore')
import jax, jax.numpy as jnp, numpy as np, collections, sys
exec(open('jaxpr_stats.py').read().split("def count(jaxpr")[0])
import jumanji
envs = {
 'Game2048': lambda: Game2048(board_size=3), 'GraphColoring': lambda: GraphColoring(GCGen(4, 0.5)), 'Minesweeper': lambda: Minesweeper(UniformSamplingGenerator(3,4,3)),
 'RubiksCube': lambda: RubiksCube(ScramblingGenerator(2, 5), time_limit=7), 'Sliding': lambda: SlidingTilePuzzle(STGen(3, 5), time_limit=7), 'Sudoku': lambda: Sudoku(),
 'Knapsack': lambda: Knapsack(KGen(5, 1.5)), 'JobShop': lambda: JobShop(JGen(3,2,2,3)), 'BinPack': lambda: BinPack(BGen(max_num_items=6, max_num_ems=10, split_num_same_items=1), obs_num_ems=5),
 'BinPack-unnorm': lambda: BinPack(BGen(max_num_items=6, max_num_ems=10, split_num_same_items=1), obs_num_ems=5, normalize_dimensions=False),
 'FlatPack': lambda: FlatPack(RandomFlatPackGenerator(2,2)), 'Tetris': lambda: Tetris(5,5,time_limit=7), 'Cleaner': lambda: Cleaner(CGen(3,5,2), time_limit=7), 'Cleaner5x3': lambda: Cleaner(CGen(5,3,2), time_limit=30),
 'Maze': lambda: Maze(MGen(5,7), time_limit=7), 'TSP': lambda: TSP(TGen(4)), 'CVRP': lambda: CVRP(CVGen(4, 10, 5)), 'Connector': lambda: Connector(CoGen(4,2), time_limit=7),
 'Snake': lambda: Snake(4,5,time_limit=7), 'Sokoban': lambda: Sokoban(SToy(), time_limit=7), 'PacMan': lambda: PacMan(), 'LBF': lambda: LevelBasedForaging(time_limit=7), 'LBF-grid': lambda: LevelBasedForaging(time_limit=7, grid_observation=True),
 'RobotWarehouse': lambda: RobotWarehouse(time_limit=7), 'MMST': lambda: MMST(time_limit=7), 'MultiCVRP': lambda: MultiCVRP(),
}
def sample_action(env, ts, key, respect_mask):
    spec = env.action_spec
    mask = getattr(ts.observation, 'action_mask', None)
    nv = np.asarray(spec.num_values) if hasattr(spec, 'num_values') else None
    if nv is None:   # BoundedArray action (MultiCVRP)
        return jax.random.randint(key, spec.shape, spec.minimum, spec.maximum + 1).astype(spec.dtype)
    if respect_mask and mask is not None:
        m = np.asarray(mask)
        if nv.ndim == 0 or m.shape == tuple(np.atleast_1d(nv)):   # joint mask over the action tuple
            flat = m.reshape(-1)
            if flat.any():
                idx = int(jax.random.choice(key, flat.size, p=jnp.asarray(flat / flat.sum())))
                a = np.unravel_index(idx, m.shape)
                return jnp.asarray(a[0] if nv.ndim == 0 else a, spec.dtype)
        elif m.ndim == 2 and m.shape[0] == nv.shape[0]:   # per-agent masks
            ks = jax.random.split(key, m.shape[0]); out = []
            for i in range(m.shape[0]):
                row = m[i]; out.append(int(jax.random.choice(ks[i], row.size, p=jnp.asarray(row / row.sum()))) if row.any() else 0)
            return jnp.asarray(out, spec.dtype)
    return jax.random.randint(key, np.shape(nv), 0, jnp.asarray(nv)).astype(spec.dtype)
issues = collections.Counter()
for name, mk in envs.items():
    try: env = mk()
    except Exception as ex: print(name, 'CTOR FAILED', ex); continue
    step = jax.jit(env.step); reset = jax.jit(env.reset)
    for ep in range(12):
        key = jax.random.PRNGKey(ep); state, ts = reset(key)
        def val(ts, where):
            for what, spec, v in (('obs', env.observation_spec, ts.observation), ('reward', env.reward_spec, ts.reward), ('discount', env.discount_spec, ts.discount)):
                try: spec.validate(v)
                except Exception as ex: issues[(name, where, what, str(ex)[:110].replace('\n', ' '))] += 1
        val(ts, 'reset')
        for t in range(60):
            key, k = jax.random.split(key)
            a = sample_action(env, ts, k, respect_mask=(ep % 3 != 0))
            try: env.action_spec.validate(a)
            except Exception as ex: issues[(name, 'action-sampler', 'bug-in-recon', str(ex)[:80])] += 1
            state, ts = step(state, a)
            val(ts, 'last-step' if int(ts.step_type) == 2 else 'mid-step')
            if int(ts.step_type) == 2: break
for k, v in sorted(issues.items()): print(v, k)
print('done')
